"""C14 — type descriptors (edb/server/compiler/sertypes.py).

Proof: lean/EdbVerif/Props/C14.lean over Model/Desc.lean.

Tie (level 1, no parser / std schema in this sandbox):
  A  "schema" stream: stub schema objects (subclasses of the REAL schema classes,
     answering only the accessor methods the encoder calls) are pushed through
     the REAL encoder (`describe`, `describe_params`, `describe_input_shape`,
     `describe_sql_result`, `Context.derive`); the bytes are compared with the
     Lean model's `encode` of the harness' abstraction of the same type, then
     decoded by the REAL `parse` and compared with the abstraction.
  B  "wire" stream: arbitrary well-formed descriptor trees -> model `encode`
     -> REAL `parse` -> same tree.
  C  malformed streams: REAL `parse` vs model `decode` (ok/err + tree).
  D  id stream: REAL `_get_collection_type_id/_get_object_shape_id/_get_set_type_id`
     vs uuid5(model `idPreimage`), and equal/unequal ids vs equal/unequal keys.
Oracle S (real code only): real bytes -> real decoder -> the description of the
type; >=2.0 length prefixes frame the stream (python walker and the Lean `frames`
of `C14_frames` / `C14_skip`, driver op F, on the real bytes); equal ids => identical
descriptors; different structure => different ids.
"""
from __future__ import annotations

import itertools
import json

from lib import core

PROPS = 'EdbVerif/Props/C14.lean'
REQUIRED = [
    'EdbVerif.C14.C14_roundtrip', 'EdbVerif.C14.C14_annotations', 'EdbVerif.C14.C14_roundtrip_real',
    'EdbVerif.C14.C14_prefix_block', 'EdbVerif.C14.C14_prefix', 'EdbVerif.C14.C14_dedupe',
    'EdbVerif.C14.C14_context', 'EdbVerif.C14.C14_id_inj', 'EdbVerif.C14.C14_id_collision',
    'EdbVerif.C14.C14_anno_rejected',
    # framing of the >= 2.0 stream by its length prefixes (third session)
    'EdbVerif.C14.C14_body_size', 'EdbVerif.C14.C14_frame_block', 'EdbVerif.C14.C14_frames',
    'EdbVerif.C14.C14_skip',
]

CARDS = {'NO_RESULT': 0x6e, 'AT_MOST_ONE': 0x6f, 'ONE': 0x41, 'MANY': 0x6d, 'AT_LEAST_ONE': 0x4d}


def load_corpus() -> dict:
    """regression cases (run first)"""
    import os
    out = {'id_calls': [], 'stub_nested_tuples': [], 'queries': [], 'id_clash_pairs': [], 'stub_types': []}
    d = os.path.join(core.VERIF, 'corpus', 'C14')
    if os.path.isdir(d):
        for fn in sorted(os.listdir(d)):
            if fn.endswith('.case'):
                c = json.load(open(os.path.join(d, fn)))
                for k in out:
                    out[k] += c.get(k, [])
    return out


def tup(x):
    """JSON -> the expected-description language of the level-2 stream"""
    k = x[0]
    if k == 'S':
        return ('S', x[1])
    if k == 'T':
        return ('T', [tup(t) for t in x[1]])
    if k == 'NT':
        return ('NT', [(n, tup(t)) for (n, t) in x[1]])
    if k in ('A', 'R', 'MR', 'SET'):
        return (k, tup(x[1]))
    if k == 'SH':
        return ('SH', x[1], [(n, c, tup(t), bool(l), bool(lp)) for (n, c, t, l, lp) in x[2]])
    raise core.Infra(f'corpus: unknown expectation {x!r}')


# =========================================================== wire trees
class Node:
    """Python mirror of Lean `Desc`."""
    __slots__ = ('kind', 'id', 'meta', 'payload', 'pre', 'post', '_rpn')

    def __init__(self, kind, id, meta=None, payload=None, pre=(), post=()):
        self.kind, self.id, self.meta, self.payload = kind, bytes(id), meta, payload
        self.pre, self.post = list(pre), list(post)
        self._rpn = None


def _names(l):
    return ','.join('x' + n.hex() for n in l) if l else '-'


def _els(l):
    return ','.join(f'{f}.{c}.x{n.hex()}' for (f, c, n) in l) if l else '-'


def node_token(n: Node) -> str:
    k = n.kind
    if k in ('ntuple', 'enum', 'sqlrow'):
        pl = _names(n.payload)
    elif k == 'array':
        pl = ','.join(map(str, n.payload)) if n.payload else '-'
    elif k == 'compound':
        pl = str(n.payload)
    elif k == 'ishape':
        pl = _els(n.payload)
    elif k == 'shape':
        pl = ('1' if n.payload[0] else '0') + '~' + _els(n.payload[1])
    else:
        pl = '-'
    m = '-' if n.meta is None else n.meta[0].hex() + '.' + ('1' if n.meta[1] else '0')
    return f'{k}|{n.id.hex()}|{m}|{pl}|{len(n.pre)}|{len(n.post)}'


def rpn_list(n: Node) -> list:
    if n._rpn is None:
        out = []
        for c in n.pre:
            out += rpn_list(c)
        for c in n.post:
            out += rpn_list(c)
        out.append(node_token(n))
        n._rpn = out
    return n._rpn


def rpn(n: Node) -> str:
    return ';'.join(rpn_list(n))


def tree_size(n: Node) -> int:
    return len(rpn_list(n))


def subtrees(n: Node):
    yield n
    for c in n.pre + n.post:
        yield from subtrees(c)


def dict_collapse(n: Node) -> Node:
    """What the REAL decoder can represent: ShapeDesc / NamedTupleDesc keep their
    elements in dicts keyed by name (first position, last value);
    InputShapeDesc keeps a list but flags/cardinalities by name."""
    pre = [dict_collapse(c) for c in n.pre]
    post = [dict_collapse(c) for c in n.post]
    k, pl = n.kind, n.payload
    if k == 'ntuple':
        d = {}
        for nm, c in zip(pl, pre):
            d[nm] = c
        pl, pre = list(d.keys()), list(d.values())
    elif k == 'shape':
        eph, els = pl
        d, fl, cd, src = {}, {}, {}, {}
        srcs = post[1:] if (post and not eph) else [None] * len(els)
        for (f, c, nm), t, s in zip(els, pre, srcs):
            d[nm] = t
            fl[nm] = f
            cd[nm] = c
            src[nm] = s
        pl = (eph, [(fl[nm], cd[nm], nm) for nm in d])
        pre = list(d.values())
        if post and not eph:
            post = [post[0]] + [src[nm] for nm in d]
    elif k == 'ishape':
        fl, cd = {}, {}
        for (f, c, nm) in pl:
            fl[nm] = f
            cd[nm] = c
        pl = [(fl[nm], cd[nm], nm) for (_f, _c, nm) in pl]
    return Node(k, n.id, n.meta, pl, pre, post)


def has_dup_names(n: Node) -> bool:
    for u in subtrees(n):
        if u.kind == 'ntuple':
            names = u.payload
        elif u.kind == 'shape':
            names = [e[2] for e in u.payload[1]]
        elif u.kind == 'ishape':
            names = [e[2] for e in u.payload]
        else:
            continue
        if len(set(names)) != len(names):
            return True
    return False


def canon_real(td, st, v2: bool, memo=None) -> Node:
    """REAL decoded TypeDesc -> Node (names back to UTF-8 bytes)."""
    if memo is None:
        memo = {}
    key = id(td)
    if key in memo:
        return memo[key]

    def rec(x):
        return canon_real(x, st, v2, memo)

    def meta(x):
        return None if x.name is None else (x.name.encode('utf-8'), bool(x.schema_defined))

    def anc(x):
        return [rec(a) for a in (x.ancestors or [])]

    tid = td.tid.bytes
    T = type(td)
    if T is st.SetDesc:
        n = Node('set', tid, None, None, [rec(td.subtype)])
    elif T is st.BaseScalarDesc:
        n = Node('bscalar', tid)
    elif T is st.ScalarDesc:
        if v2:
            n = Node('scalar', tid, meta(td), None, [], anc(td))
        else:
            n = Node('scalar', tid, None, None, [], [rec(td.fundamental_type)])
    elif T is st.TupleDesc:
        n = Node('tuple', tid, meta(td), None, [rec(f) for f in td.fields], anc(td))
    elif T is st.NamedTupleDesc:
        n = Node('ntuple', tid, meta(td), [k.encode('utf-8') for k in td.fields],
                 [rec(f) for f in td.fields.values()], anc(td))
    elif T is st.ArrayDesc:
        n = Node('array', tid, meta(td), [td.dim_len], [rec(td.subtype)], anc(td))
    elif T is st.RangeDesc:
        n = Node('range', tid, meta(td), None, [rec(td.inner)], anc(td))
    elif T is st.MultiRangeDesc:
        n = Node('mrange', tid, meta(td), None, [rec(td.inner)], anc(td))
    elif T is st.EnumDesc:
        n = Node('enum', tid, meta(td), [x.encode('utf-8') for x in td.names], [], anc(td))
    elif T is st.ObjectDesc:
        n = Node('object', tid, meta(td))
    elif T is st.CompoundDesc:
        n = Node('compound', tid, meta(td), int(td.op), [], [rec(c) for c in td.components])
    elif T is st.ShapeDesc:
        eph = v2 and td.type is None
        els = [(int(td.flags[k]), td.cardinalities[k].value, k.encode('utf-8')) for k in td.fields]
        pre = [rec(f) for f in td.fields.values()]
        post = []
        if v2 and not eph:
            post = [rec(td.type)] + [rec(td.sources[k]) for k in td.fields]
        n = Node('shape', tid, None, (eph, els), pre, post)
    elif T is st.InputShapeDesc:
        els = [(int(td.flags[k]), td.cardinalities[k].value, k.encode('utf-8'))
               for (k, _t) in td.fields_list]
        n = Node('ishape', tid, None, els, [rec(t) for (_k, t) in td.fields_list])
    else:
        raise core.Infra(f'unknown TypeDesc class {T}')
    memo[key] = n
    return n


# ================================================= stub schema (harness code)
class Stubs:
    """Subclasses of the REAL schema classes (so the encoder's `singledispatch`
    and `isinstance` tests are the real ones) that answer the accessor methods
    `sertypes` calls from plain attributes instead of from a schema."""

    def __init__(self):
        import shim  # noqa: F401  (stubs for the native modules)
        from edb.server.compiler import sertypes as st
        from edb.schema import types as s_types, scalars as s_scalars, objtypes as s_objtypes
        from edb.schema import links as s_links, pointers as s_pointers, objects as s_obj
        from edb.edgeql import qltypes
        from edb.ir import ast as irast
        from edb.common import uuidgen
        self.st, self.s_obj, self.uuidgen, self.irast, self.qltypes = st, s_obj, uuidgen, irast, qltypes

        class QName:
            def __init__(s, text, short=None):
                s.text, s.name = text, short

            def __str__(s):
                return s.text

        class Objs:
            def __init__(s, l):
                s.l = tuple(l)

            def objects(s, schema):
                return s.l

        class XScalar(s_scalars.ScalarType):
            def material_type(self, schema): return schema, self
            def is_enum(self, schema): return self.x_enum is not None
            def get_topmost_concrete_base(self, schema): return self.x_top
            def get_ancestors(self, schema): return Objs(self.x_anc)
            def get_name(self, schema): return QName(self.x_name)
            def get_enum_values(self, schema): return self.x_enum
            def get_displayname(self, schema): return self.x_display

        def coll(base, named=False):
            ns = {
                'get_subtypes': lambda self, schema: tuple(self.x_subs),
                'get_name': lambda self, schema: QName(self.x_name),
                'get_is_persistent': lambda self, schema: self.x_persistent,
                'material_type': lambda self, schema: (schema, self),
            }
            if named:
                ns['is_named'] = lambda self, schema: self.x_names is not None
                ns['get_element_names'] = lambda self, schema: tuple(self.x_names)
            return type('X' + base.__name__, (base,), ns)

        XTuple = coll(s_types.Tuple, True)
        XArray = coll(s_types.Array)
        XRange = coll(s_types.Range)
        XMultiRange = coll(s_types.MultiRange)

        class XObj(s_objtypes.ObjectType):
            def material_type(self, schema): return schema, (self.x_mt or self)
            def get_name(self, schema): return QName(self.x_name)
            def get_rptr(self, schema): return self.x_rptr
            def is_free_object_type(self, schema): return self.x_free
            def is_compound_type(self, schema): return bool(self.x_union or self.x_inter)
            def get_union_of(self, schema): return Objs(self.x_union)
            def get_intersection_of(self, schema): return Objs(self.x_inter)

        def ptr(base):
            return type('X' + base.__name__, (base,), {
                'get_shortname': lambda self, schema: QName('?', self.x_name),
                'get_target': lambda self, schema: self.x_target,
                'is_property': lambda self, schema: not self.x_link,
                'get_required': lambda self, schema: self.x_required,
                'get_cardinality': lambda self, schema: (
                    qltypes.SchemaCardinality.Many if self.x_many else qltypes.SchemaCardinality.One),
                'singular': lambda self, schema, direction=None: not self.x_many,
                'material_type': lambda self, schema: (schema, self),
                'get_source': lambda self, schema: self.x_source,
            })

        XLink = ptr(s_links.Link)
        XProp = ptr(s_pointers.Pointer)

        class Schema:
            def __init__(s, uuid_scalar):
                s.uuid_scalar = uuid_scalar

            def get(s, name, type=None, **kw):
                assert str(name) == 'std::uuid'
                return s.uuid_scalar

        self.XScalar, self.XTuple, self.XArray, self.XRange, self.XMultiRange = \
            XScalar, XTuple, XArray, XRange, XMultiRange
        self.XObj, self.XLink, self.XProp, self.Schema = XObj, XLink, XProp, Schema

    def mk(self, cls, uid: bytes, **kw):
        o = cls._create_from_id(self.uuidgen.UUID(uid))
        for k, v in kw.items():
            setattr(o, k, v)
        return o


class World:
    """A small universe of stub types + the abstraction `type -> Node` (what the
    descriptor is supposed to say; harness code, independent of the encoder's
    byte layout: ids of content-derived descriptors come from the REAL id
    functions)."""

    FUND = ['std::uuid', 'std::str', 'std::bytes', 'std::int16', 'std::int32', 'std::int64',
            'std::float32', 'std::float64', 'std::decimal', 'std::bool', 'std::datetime',
            'std::duration', 'std::json', 'std::bigint', 'cfg::memory']

    def __init__(self, sx: Stubs, rng, colon_names: bool):
        self.sx, self.rng, self.st = sx, rng, sx.st
        self.colon = colon_names
        mk = sx.mk
        self.fund = {}
        for nm in self.FUND:
            tid = sx.s_obj.get_known_type_id(nm)
            s = mk(sx.XScalar, tid.bytes, x_name=nm, x_enum=None, x_anc=[], x_display=nm)
            s.x_top = s
            self.fund[nm] = s
        # abstract ancestors that come after the fundamental type in the MRO
        self.anyscalar = mk(sx.XScalar, self.rid(), x_name='std::anyscalar', x_enum=None, x_anc=[],
                            x_display='anyscalar')
        self.anyscalar.x_top = self.anyscalar
        self.schema = sx.Schema(self.fund['std::uuid'])
        self.derived = []
        for i in range(rng.randint(1, 4)):
            base = self.fund[rng.choice(self.FUND)]
            chain = [base]
            for j in range(rng.randint(1, 3)):
                nm = f'default::s{i}_{j}' + rng.choice(['', 'é', ''])
                s = mk(sx.XScalar, self.rid(), x_name=nm, x_enum=None, x_top=base,
                       x_anc=list(reversed(chain)) + [self.anyscalar], x_display=nm)
                chain.append(s)
                self.derived.append(s)
        self.enums = []
        for i in range(rng.randint(1, 3)):
            vals = [rng.choice(['A', 'B', 'red', 'grün', '', 'x y', 'a:b']) + str(k)
                    for k in range(rng.randint(0, 4))]
            e = mk(sx.XScalar, self.rid(), x_name=f'default::E{i}', x_enum=vals, x_anc=[self.anyscalar],
                   x_display=f'default::E{i}')
            e.x_top = e
            self.enums.append(e)
            if rng.random() < 0.5:   # enum extending an enum (ancestors listed from 2.0 on)
                e2 = mk(sx.XScalar, self.rid(), x_name=f'default::E{i}x', x_enum=vals, x_top=e,
                        x_anc=[e, self.anyscalar], x_display=f'default::E{i}x')
                self.enums.append(e2)
        self.objs = []
        for i in range(rng.randint(2, 4)):
            self.objs.append(self.objtype(f'default::T{i}'))
        if rng.random() < 0.7:
            comps = rng.sample(self.objs, 2)
            u = self.objtype('(' + ' or '.join(c.x_name for c in comps) + ')')   # no '|' (name mangling char)
            if rng.random() < 0.7:
                u.x_union = comps
            else:
                u.x_inter = comps
            self.objs.append(u)
        self.free = self.objtype('std::FreeObject', free=True)
        self.view_shapes = {}
        self.view_meta = {}
        self.input_shapes = {}

    def rid(self) -> bytes:
        return bytes(self.rng.getrandbits(8) for _ in range(16))

    def objtype(self, name, free=False, mt=None):
        return self.sx.mk(self.sx.XObj, self.rid(), x_name=name, x_mt=mt, x_rptr=None, x_free=free,
                          x_union=[], x_inter=[])

    NAMES = ['a', 'b', 'c', 'name', 'id', 'x', 'y1', 'äö', '__tname__', '__tid__', 'first name']
    COLON = ['a:b', 'b:c', 'a', 'b', 'c', 'a:b:c', ':', 'c:', 'b:']

    @staticmethod
    def tname(t) -> str:
        return (getattr(t, 'x_mt', None) or t).x_name

    @staticmethod
    def persistent(name: str) -> bool:
        """whether a collection type is stored in the schema: a function of the type"""
        import zlib
        return zlib.crc32(name.encode()) % 3 == 0

    def pname(self):
        return self.rng.choice(self.COLON if self.colon else self.NAMES)

    # ------------------------------------------------------------ generation
    def gen_type(self, depth: int):
        r, rng = self.rng.random(), self.rng
        if depth <= 0 or r < 0.30:
            k = rng.random()
            if k < 0.6:
                return self.fund[rng.choice(self.FUND)]
            if k < 0.8:
                return rng.choice(self.derived)
            return rng.choice(self.enums)
        if r < 0.50:
            n = rng.choice([0, 1, 2, 2, 3, 4]) if not self.colon else rng.choice([1, 2, 2, 3])
            subs = [self.gen_type(depth - 1) for _ in range(n)]
            named = n > 0 and rng.random() < (0.8 if self.colon else 0.5)
            if self.colon:      # few distinct element types so that equal sub-id lists recur
                subs = [self.fund['std::int64'] for _ in subs]
            names = [self.pname() for _ in subs] if named else None
            nm = 'tuple<' + ', '.join((f'{n}:' if names else '') + self.tname(t)
                                      for n, t in zip(names or subs, subs)) + '>'
            return self.sx.mk(self.sx.XTuple, self.rid(), x_subs=subs, x_names=names, x_name=nm,
                              x_persistent=self.persistent(nm))
        if r < 0.60:
            el = self.gen_type(depth - 1)
            nm = f'array<{self.tname(el)}>'
            return self.sx.mk(self.sx.XArray, self.rid(), x_subs=[el], x_name=nm,
                              x_persistent=self.persistent(nm))
        if r < 0.68:
            cls = rng.choice([self.sx.XRange, self.sx.XMultiRange])
            el = self.fund[rng.choice(['std::int32', 'std::int64', 'std::float64', 'std::datetime'])]
            nm = ('range<' if cls is self.sx.XRange else 'multirange<') + el.x_name + '>'
            return self.sx.mk(cls, self.rid(), x_subs=[el], x_name=nm, x_persistent=self.persistent(nm))
        return self.gen_view(depth - 1)

    def gen_view(self, depth: int, free=None):
        rng = self.rng
        if free is None:
            free = rng.random() < 0.25
        mt = self.free if free else rng.choice(self.objs)
        v = self.objtype(f'__derived__::view{len(self.view_shapes)}', free=free, mt=mt)
        ptrs = []
        names = set()
        implicit = rng.random() < 0.5
        for _ in range(rng.choice([0, 1, 2, 3, 3, 5])):
            nm = self.pname()
            if nm in names and rng.random() < 0.9:
                continue
            names.add(nm)
            ptrs.append(self.gen_ptr(nm, mt, depth, implicit))
        self.view_shapes[v] = ptrs
        if rng.random() < 0.7:
            self.view_meta[v] = self.sx.irast.ViewShapeMetadata(has_implicit_id=implicit)
        return v

    def gen_ptr(self, nm, mt, depth, implicit):
        rng = self.rng
        many = rng.random() < 0.3
        req = rng.random() < 0.5
        if nm in ('id', '__tid__') and (nm == '__tid__' or implicit):
            tgt, link, many = self.fund['std::uuid'], False, False
        elif nm == '__tname__':
            tgt, link, many = self.fund['std::str'], False, False
        elif depth > 0 and rng.random() < 0.35:
            tgt, link = self.gen_view(depth - 1, free=False), True
            if rng.random() < 0.5:   # link properties on the link
                lps = []
                for j in range(rng.randint(1, 2)):
                    lps.append(self.sx.mk(self.sx.XProp, self.rid(), x_name=self.pname(),
                                          x_target=self.gen_type(0), x_link=False,
                                          x_required=rng.random() < 0.5, x_many=rng.random() < 0.2,
                                          x_source=None))
                tgt.x_rptr = self.sx.mk(self.sx.XLink, self.rid(), x_name=nm, x_target=tgt,
                                        x_link=True, x_required=req, x_many=many, x_source=mt)
                self.view_shapes[tgt.x_rptr] = lps
        else:
            tgt, link = self.gen_type(depth), False
        src = mt
        if not mt.x_free and rng.random() < 0.3:   # polymorphic: pointer defined on another type
            src = rng.choice(self.objs)
        cls = self.sx.XLink if link else self.sx.XProp
        return self.sx.mk(cls, self.rid(), x_name=nm, x_target=tgt, x_link=link, x_required=req,
                          x_many=many, x_source=src)

    # ----------------------------------------------------------- abstraction
    def card(self, req, many):
        return {(False, False): 0x6f, (True, False): 0x41, (False, True): 0x6d, (True, True): 0x4d}[(req, many)]

    def abs(self, t, v2: bool, *, follow_links=True, name_filter='', input_shapes=None) -> Node:
        sx, st = self.sx, self.st
        U = sx.uuidgen.UUID
        rec = lambda x: self.abs(x, v2, follow_links=follow_links, name_filter=name_filter)  # noqa: E731
        u8 = lambda s: s.encode('utf-8')  # noqa: E731
        if input_shapes is not None and t in input_shapes:
            els, pre = [], []
            for (nm, sub, card) in input_shapes[t]:
                if card.value in (0x6d, 0x4d):
                    c = self.abs_set(rec(sub))
                else:
                    c = self.abs(sub, v2, input_shapes=input_shapes)
                els.append((0, card.value, u8(nm)))
                pre.append(c)
            mt = t.x_mt or t
            tid = st._get_object_shape_id(mt.x_name, [U(c.id) for c in pre], [e[2].decode() for e in els],
                                          [sx.st.enums.Cardinality(e[1]) for e in els])
            return Node('ishape', tid.bytes, None, els, pre)
        if isinstance(t, sx.XScalar):
            tid = t.id.bytes
            if t.x_enum is not None:
                vals = [u8(x) for x in t.x_enum]
                if not v2:
                    return Node('enum', tid, None, vals)
                anc = self.anc_upto(t)
                return Node('enum', tid, (u8(t.x_name), True), vals, [], [rec(a) for a in anc])
            if t.x_top is t:
                return Node('scalar', tid, (u8(t.x_name), True)) if v2 else Node('bscalar', tid)
            if v2:
                return Node('scalar', tid, (u8(t.x_name), True), None, [], [rec(a) for a in self.anc_upto(t)])
            return Node('scalar', tid, None, None, [], [rec(t.x_top)])
        if isinstance(t, sx.XTuple):
            pre = [rec(s) for s in t.x_subs]
            tid = st._get_collection_type_id('tuple', [U(c.id) for c in pre],
                                             None if t.x_names is None else list(t.x_names))
            meta = (u8(t.x_name), t.x_persistent) if v2 else None
            if t.x_names is None:
                return Node('tuple', tid.bytes, meta, None, pre)
            return Node('ntuple', tid.bytes, meta, [u8(n) for n in t.x_names], pre)
        for cls, kind, ct, pl in ((sx.XArray, 'array', 'array', [-1]), (sx.XRange, 'range', 'range', None),
                                  (sx.XMultiRange, 'mrange', 'multirange', None)):
            if isinstance(t, cls):
                pre = [rec(t.x_subs[0])]
                tid = st._get_collection_type_id(ct, [U(pre[0].id)])
                return Node(kind, tid.bytes, (u8(t.x_name), t.x_persistent) if v2 else None, pl, pre)
        if isinstance(t, sx.XObj):
            return self.abs_shape(t, v2, follow_links, name_filter)
        raise core.Infra(f'abs: {t!r}')

    def anc_upto(self, t):
        out = []
        if t.x_top is t:
            return out
        for a in t.x_anc:
            out.append(a)
            if a is t.x_top:
                break
        return out

    def abs_set(self, c: Node) -> Node:
        sid = self.st._get_set_type_id(self.sx.uuidgen.UUID(c.id))
        return Node('set', sid.bytes, None, None, [c])

    def abs_obj(self, o) -> Node:
        nm = o.x_name.encode('utf-8')
        if o.x_union or o.x_inter:
            comps = o.x_union or o.x_inter
            return Node('compound', o.id.bytes, (nm, False), 1 if o.x_union else 2, [],
                        [self.abs_obj(c) for c in comps])
        return Node('object', o.id.bytes, (nm, True))

    def abs_shape(self, v, v2, follow_links, name_filter) -> Node:
        """the description a shape must carry: per element name, order, flags,
        cardinality, type, (>= 2.0) defining object type"""
        sx, st = self.sx, self.st
        U = sx.uuidgen.UUID
        mt = v.x_mt or v
        md = self.view_meta.get(v)
        implicit = md is not None and md.has_implicit_id
        els, pre, srcs, lps, links = [], [], [], [], []
        for ptr in self.view_shapes.get(v, ()):
            nm = ptr.x_name
            if not nm.startswith(name_filter):
                continue
            nm = nm[len(name_filter):]
            if ptr.x_link and not follow_links:
                if ptr.x_many:
                    raise LookupError('multi link with follow_links=False')
                c = self.abs(self.fund['std::uuid'], v2)
            else:
                c = self.abs(ptr.x_target, v2, follow_links=follow_links, name_filter=name_filter)
                if ptr.x_many:
                    c = self.abs_set(c)
            fl = 0
            if (implicit and nm == 'id') or nm == '__tid__' or nm == '__tname__':
                fl |= 1
                if c.id != sx.s_obj.get_known_type_id('std::str' if nm == '__tname__' else 'std::uuid').bytes:
                    raise LookupError(f'{nm} must be a {"str" if nm == "__tname__" else "uuid"} singleton')
            if ptr.x_link:
                fl |= 4
            els.append((fl, self.card(ptr.x_required, ptr.x_many), nm.encode('utf-8')))
            pre.append(c)
            lps.append(False)
            links.append(ptr.x_link)
            srcs.append(ptr.x_source.x_mt or ptr.x_source)
        if v.x_rptr is not None and self.view_shapes.get(v.x_rptr):
            for ptr in self.view_shapes[v.x_rptr]:
                c = self.abs(ptr.x_target, v2, follow_links=follow_links, name_filter=name_filter)
                if ptr.x_many:
                    c = self.abs_set(c)
                nm = ptr.x_name
                fl = 2
                if (implicit and nm == 'id') or nm == '__tid__' or nm == '__tname__':
                    fl |= 1
                    if c.id != sx.s_obj.get_known_type_id('std::str' if nm == '__tname__' else 'std::uuid').bytes:
                        raise LookupError(f'{nm} must be a {"str" if nm == "__tname__" else "uuid"} singleton')
                els.append((fl, self.card(ptr.x_required, ptr.x_many), nm.encode('utf-8')))
                pre.append(c)
                lps.append(True)
                links.append(False)
                srcs.append(mt)
        tid = st._get_object_shape_id(
            mt.x_name, [U(c.id) for c in pre], [e[2].decode() for e in els],
            [st.enums.Cardinality(e[1]) for e in els],
            links_props=lps, links=links, has_implicit_fields=implicit,
            # (fix d2d2129) the source types count when some element comes from another type
            sources=[x.id for x in srcs] if any(x.id != mt.id for x in srcs) else None)
        post = []
        eph = False
        if v2:
            eph = bool(v.x_free)
            if not eph:
                post = [self.abs_obj(mt)] + [self.abs_obj(s) for s in srcs]
        return Node('shape', tid.bytes, None, (eph, els), pre, post)


# ====================================================== wire trees (stream B)
WNAMES = [b'', b'a', b'b', b'name', b'id', 'é'.encode(), '名前'.encode(), b'a:b', b'x y', b'__tid__',
          b'default::T', b'std::int64', b'\x7f', b'q' * 300]
CARD_VALS = sorted(CARDS.values())


def gen_wire(rng, v2: bool, depth: int, pool: list, allow_dups=False) -> Node:
    """arbitrary tree the wire format of the protocol family can carry (much wider
    than what the encoder emits: ancestors on collections, any flags, …)"""
    if pool and rng.random() < 0.25:
        return rng.choice(pool)
    rid = bytes(rng.getrandbits(8) for _ in range(16))
    nm = lambda: rng.choice(WNAMES)  # noqa: E731
    meta = (nm(), rng.random() < 0.5) if v2 else None
    kid = lambda: gen_wire(rng, v2, depth - 1, pool, allow_dups)  # noqa: E731

    def kids(lo, hi):
        return [kid() for _ in range(rng.randint(lo, hi))]

    def names_for(n):
        out = []
        while len(out) < n:
            x = nm() + (b'' if allow_dups else str(len(out)).encode())
            out.append(x)
        return out

    def els_for(n):
        return [(rng.choice([0, 1, 2, 4, 5, 7, 4294967295, rng.getrandbits(32)]), rng.choice(CARD_VALS), x)
                for x in names_for(n)]

    anc = lambda: (kids(0, 2) if v2 and depth > 0 and rng.random() < 0.3 else [])  # noqa: E731
    leafs = ['scalar0', 'enum'] + (['object'] if v2 else ['bscalar'])
    inner = ['set', 'scalar', 'tuple', 'ntuple', 'array', 'range', 'mrange', 'shape', 'ishape', 'enum'] + \
            (['compound'] if v2 else [])
    k = rng.choice(leafs) if depth <= 0 else rng.choice(inner + leafs[:1])
    if k == 'bscalar':
        n = Node('bscalar', rid)
    elif k == 'scalar0':
        n = Node('scalar', rid, meta) if v2 else Node('bscalar', rid)
    elif k == 'object':
        n = Node('object', rid, meta)
    elif k == 'enum':
        n = Node('enum', rid, meta, [nm() for _ in range(rng.randint(0, 3))], [], anc())
    elif k == 'scalar':
        n = Node('scalar', rid, meta, None, [], kids(0, 3) if v2 else [kid()])
    elif k == 'set':
        n = Node('set', rid, None, None, [kid()])
    elif k == 'tuple':
        n = Node('tuple', rid, meta, None, kids(0, 3), anc())
    elif k == 'ntuple':
        pre = kids(0, 3)
        n = Node('ntuple', rid, meta, names_for(len(pre)), pre, anc())
    elif k == 'array':
        n = Node('array', rid, meta, [-1], [kid()], anc())
    elif k in ('range', 'mrange'):
        n = Node(k, rid, meta, None, [kid()], anc())
    elif k == 'compound':
        n = Node('compound', rid, meta, rng.choice([1, 2]), [], kids(0, 3))
    elif k == 'ishape':
        pre = kids(0, 3)
        n = Node('ishape', rid, None, els_for(len(pre)), pre)
    else:
        pre = kids(0, 3)
        eph = v2 and rng.random() < 0.4
        post = []
        if v2 and not eph:
            post = [kid()] + [kid() for _ in pre]
        n = Node('shape', rid, None, (eph, els_for(len(pre))), pre, post)
    pool.append(n)
    return n


def gen_exhaustive(v2: bool):
    """all trees of depth <= 2 over a small alphabet; ids are a function of the
    structure so that equal sub-descriptors are shared"""
    import hashlib

    def mk(kind, meta, payload, pre, post):
        n = Node(kind, b'\0' * 16, meta, payload, pre, post)
        sig = kind + repr(meta) + repr(payload) + '|'.join(c.id.hex() for c in n.pre) + '/' + \
            '|'.join(c.id.hex() for c in n.post)
        n.id = hashlib.sha1(sig.encode()).digest()[:16]
        return n

    m = (b'n', True) if v2 else None
    m2 = (b'', False) if v2 else None
    if v2:
        leaves = [mk('scalar', m, None, [], []), mk('object', m2, None, [], []), mk('enum', m, [b'A'], [], [])]
    else:
        leaves = [mk('bscalar', None, None, [], []), mk('enum', None, [], [], [])]

    def level(ch):
        one = [[c] for c in ch]
        upto2 = [[]] + one + [[a, b] for a in ch for b in ch]
        for c in one:
            yield mk('set', None, None, c, [])
            yield mk('array', m, [-1], c, [])
            yield mk('range', m, None, c, [])
            yield mk('mrange', m2, None, c, [])
        for cs in upto2:
            yield mk('tuple', m, None, cs, [])
            yield mk('ntuple', m, [b'a', b'b'][:len(cs)], cs, [])
            yield mk('ishape', None, [(0, 0x6f, b'a'), (0, 0x4d, b'b')][:len(cs)], cs, [])
            els = [(1, 0x41, b'id'), (4, 0x6d, b'l')][:len(cs)]
            if v2:
                yield mk('shape', None, (True, els), cs, [])
                yield mk('compound', m2, 1, [], cs)
                yield mk('scalar', m, None, [], cs)
                for o in ch[:2]:
                    yield mk('shape', None, (False, els), cs, [o] + [o for _ in cs])
            else:
                yield mk('shape', None, (False, els), cs, [])
        if not v2:
            for c in one:
                yield mk('scalar', None, None, [], c)

    d1 = list(level(leaves))
    yield from leaves
    yield from d1
    # depth 2: children from leaves + a spread of depth-1 nodes
    step = max(1, len(d1) // 9)
    yield from level(leaves[:2] + d1[::step])


def mutate(rng, b: bytes) -> bytes:
    b = bytearray(b)
    for _ in range(rng.choice([1, 1, 1, 2, 3])):
        if not b:
            b += bytes([rng.getrandbits(8)])
            continue
        r = rng.random()
        i = rng.randrange(len(b))
        if r < 0.45:
            b[i] = rng.choice([0, 1, 2, 3, 255, 128, 0x7f, 13, rng.getrandbits(8), (b[i] + 1) & 255, b[i] ^ 0x80])
        elif r < 0.6:
            del b[i]
        elif r < 0.75:
            b.insert(i, rng.choice([0, 1, 255, rng.getrandbits(8)]))
        elif r < 0.9:
            del b[i:]
        else:
            b += b[i:]
    return bytes(b)


def walk_frames(b: bytes):
    """>= 2.0: follow the length prefixes; number of blocks or None"""
    i, n = 0, 0
    while i < len(b):
        if i + 4 > len(b):
            return None
        ln = int.from_bytes(b[i:i + 4], 'big')
        i += 4 + ln
        n += 1
    return n if i == len(b) else None


DERIVED_KINDS = {'set', 'tuple', 'ntuple', 'array', 'range', 'mrange', 'shape', 'ishape', 'sqlrow'}


def struct_sig(n: Node) -> str:
    """the structure of a description with the content-derived ids blanked"""
    toks = []
    for t in rpn_list(n):
        f = t.split('|')
        if f[0] in DERIVED_KINDS:
            f[1] = '*'
        toks.append('|'.join(f))
    return ';'.join(toks)


def has_colon(n: Node) -> bool:
    for u in subtrees(n):
        if u.kind in ('ntuple', 'sqlrow') and any(b':' in x for x in u.payload):
            return True
        if u.kind == 'shape' and any(b':' in e[2] for e in u.payload[1]):
            return True
        if u.kind == 'ishape' and any(b':' in e[2] for e in u.payload):
            return True
    return False


def _unit_out(unit):
    tid = unit.out_type_id
    return bytes(unit.out_type_data), bytes(tid.bytes if hasattr(tid, 'bytes') else tid)


def _unit_in(unit):
    tid = unit.in_type_id
    return bytes(unit.in_type_data), bytes(tid.bytes if hasattr(tid, 'bytes') else tid)


L2_OPTS = ((False, False), (True, False), (False, True))
L2_PVS = [(1, 0), (2, 0), (3, 0)]


def _l2_contexts(env, sch):
    import dataclasses
    ctxs = {}
    for pv in L2_PVS:
        base = env.server_context(sch, protocol_version=pv)
        for opt in L2_OPTS:
            ctxs[pv, opt] = dataclasses.replace(base, inline_typenames=opt[0], inline_typeids=opt[1])
    return ctxs


def fresh_main(pin: str, pout: str):
    """run in a FRESH process: compile the given queries on the given (pickled) schemas;
    the parent compares the descriptors byte for byte with what it produced after a history"""
    import pickle
    from bridge import env
    env.setup()
    jobs = pickle.load(open(pin, 'rb'))
    out = []
    for (sch, items) in jobs:
        ctxs = _l2_contexts(env, sch)
        res = []
        for (text, pv, opt, which) in items:
            try:
                grp = env.server_compile(ctxs[tuple(pv), tuple(opt)], text)
                unit = grp.units[0] if hasattr(grp, 'units') else grp[0]
                d, t = _unit_out(unit) if which == 'out' else _unit_in(unit)
                res.append((d.hex(), t.hex(), None))
            except Exception as e:      # noqa: BLE001
                res.append(('', '', f'{type(e).__name__}: {e}'[:300]))
        out.append(res)
    json.dump(out, open(pout, 'w'))


def l2_compile(ctx: core.Ctx, n_queries: int) -> dict:
    """compile generated queries with the REAL server compiler through the bridge: first on
    schema S1, then along a HISTORY of in-place ALTERs (same process, ids kept)"""
    import os
    import pickle
    import subprocess
    import sys
    import tempfile
    rng = ctx.rng
    try:
        from bridge import env
        env.setup()
        sch = env.load_schema(L2_SDL, modname='default')
    except Exception as e:      # noqa: BLE001
        raise core.Infra(f'front-end bridge unavailable: {type(e).__name__}: {e}')
    from edb.server import defines
    pvs = L2_PVS
    if defines.MIN_PROTOCOL != (1, 0) or defines.CURRENT_PROTOCOL != (3, 0):
        raise core.Infra('protocol range changed: extend the list of protocol versions')
    ctx.log('level 2: bridge + schema ready')
    spec = L2Spec()
    gen = L2Gen(rng, spec)
    queries = []
    for i in range(n_queries):
        colon = i % 3 == 0
        q = gen.expr(rng.randint(1, 3), colon)
        queries.append(('select ' + q[0], q[1], colon))
    # every ordered pair of distinct names over a pool with ":" as named-tuple / computed-pointer names
    pool = ['a', 'c', 'a:b', 'b:c']
    i64 = ('S', 'std::int64')
    systematic = []
    for n1 in pool:
        for n2 in pool:
            if n1 != n2:
                systematic.append((f'select ({bq(n1)} := 1, {bq(n2)} := 2)', ('NT', [(n1, i64), (n2, i64)]), True))
                systematic.append((f'select Person {{ name, {bq(n1)} := 1, {bq(n2)} := 2 }}',
                                   ('SH', 'default::Person', [('name', ONE, ('S', 'std::str'), False, False),
                                                              (n1, ONE, i64, False, False),
                                                              (n2, ONE, i64, False, False)]), True))
    sys_pvs = [pvs[ctx.seed % 3]] if ctx.quick() else pvs
    pq = [('select <int64>$x + <optional int64>$y', [('x', ONE, i64), ('y', OPT, i64)]),
          ('select (<str>$a, <array<int64>>$b, <optional myint>$c)',
           [('a', ONE, ('S', 'std::str')), ('b', ONE, ('A', i64)), ('c', OPT, ('S', 'default::myint'))]),
          ('select <tuple<int64, str>>$0', [('0', ONE, ('T', [i64, ('S', 'std::str')]))])]
    ctxs = _l2_contexts(env, sch)
    rec = {'out': [], 'in': [], 'steps': [dict(kind='S1', ddl=[], **spec.facts(sch))], 'fresh': None}
    fresh_jobs = []

    def compile_out(text, exp, tag, pv, opt, step, items=None):
        try:
            grp = env.server_compile(ctxs[pv, opt], text)
            unit = grp.units[0] if hasattr(grp, 'units') else grp[0]
            d, t = _unit_out(unit)
            rec['out'].append((text, exp, tag, pv, opt, d, t, None, step))
            if items is not None:
                items.append((text, pv, opt, 'out', len(rec['out']) - 1))
            return True
        except Exception as e:      # noqa: BLE001
            rec['out'].append((text, exp, tag, pv, opt, b'', b'', f'{type(e).__name__}: {e}'[:300], step))
            return False

    def compile_in(text, exp, pv, step, items=None):
        try:
            grp = env.server_compile(ctxs[pv, (False, False)], text)
            unit = grp.units[0] if hasattr(grp, 'units') else grp[0]
            d, t = _unit_in(unit)
            rec['in'].append((text, exp, pv, d, t, None, step))
            if items is not None:
                items.append((text, pv, (False, False), 'in', len(rec['in']) - 1))
        except Exception as e:      # noqa: BLE001
            rec['in'].append((text, exp, pv, b'', b'', f'{type(e).__name__}: {e}'[:300], step))

    corpus = [(q['text'], tup(q['expect']), 'corpus' + (':' + q['key'] if q.get('key') else ''))
              for q in load_corpus()['queries']]
    probes, pparams = spec.probes()
    for qi, (text, exp, colon) in enumerate(corpus + systematic + queries + [(t, e, 'probe') for t, e in probes]):
        fixed = qi < len(corpus) + len(systematic)
        for pv in (pvs if str(colon).startswith('corpus') or colon == 'probe' else sys_pvs if fixed else pvs):
            opt = (False, False) if fixed else rng.choice([(False, False), (False, False), (True, False), (False, True)])
            if not compile_out(text, exp, colon, pv, opt, 0):
                break
    for text, exp in pq + pparams:
        for pv in pvs:
            compile_in(text, exp, pv, 0)
    # known root causes with their witnesses (corpus): pairs of queries that must not share an id
    for pi_, pair in enumerate(load_corpus()['id_clash_pairs']):
        for text in pair['queries']:
            for pv in pvs:
                compile_out(text, tup(pair['expect']), f'pair:{pair["key"]}#{pi_}', pv, (False, False), 0)
    # SQL row descriptors: the REAL Compiler.compile_sql_descriptors on column lists as PostgreSQL's
    # RowDescription gives them (`select 1 as a, 'x' as b` / `select 1 as a, 2 as a`)
    rec['sql'] = []
    try:
        from edb.schema import schema as s_schema, objects as s_obj
        comp = env.new_compiler()
        i64_, str_ = (str(s_obj.get_known_type_id(n)) for n in ('std::int64', 'std::str'))
        for cols in ([('a', i64_), ('b', str_)], [('a', i64_), ('a', i64_)], [('a', i64_), ('b', str_), ('a', str_)]):
            for pv in pvs:
                res = comp.compile_sql_descriptors(sch, s_schema.EMPTY_SCHEMA, pv, [([i64_], cols)])
                rec['sql'].append((cols, pv, bytes(res[0][1][0]), bytes(res[0][1][1]), bytes(res[0][0][0])))
    except Exception as e:      # noqa: BLE001
        rec['sql_error'] = f'{type(e).__name__}: {e}'[:300]

    ctx.log(f'level 2: {len(rec["out"]) + len(rec["in"])} compilations on S1')
    # ---- the history: in-place ALTERs that keep ids, same process
    hist = spec.history()
    if ctx.quick():
        sizes, groups, k = [1, 4, 3, 3], [], 0
        for n in sizes:
            groups.append(hist[k:k + n])
            k += n
    else:
        groups = [[h] for h in hist]
    cur = sch
    ddl_so_far = []
    for gi, group in enumerate(groups):
        kinds = []
        for (kind, ddl_fn, mutate_spec) in group:
            ddl = ddl_fn()
            try:
                cur = env.run_ddl(cur, ddl)
            except Exception as e:      # noqa: BLE001
                raise core.Infra(f'history DDL rejected: {ddl!r}: {type(e).__name__}: {e}')
            mutate_spec()
            kinds.append(kind)
            ddl_so_far.append(ddl)
        step = len(rec['steps'])
        rec['steps'].append(dict(kind='+'.join(kinds), ddl=list(ddl_so_far), **spec.facts(cur)))
        ctxs = _l2_contexts(env, cur)
        items = []
        probes, pparams = spec.probes()
        extra = []
        for _ in range(1 if ctx.quick() else 6):
            q = gen.expr(rng.randint(1, 3), False)
            extra.append(('select ' + q[0], q[1]))
        for qi, (text, exp) in enumerate(probes + extra):
            for pi, pv in enumerate(pvs):
                if ctx.quick() and (pi + qi + gi) % 3 == 0:
                    continue        # quick: two of the three protocol versions, rotating
                opt = rng.choice(L2_OPTS)
                compile_out(text, exp, 'history', pv, opt, step, items)
        for (text, exp) in pparams:
            for pi, pv in enumerate(pvs):
                if ctx.quick() and (pi + gi) % 3 == 1:
                    continue
                compile_in(text, exp, pv, step, items)
        if not ctx.quick() or gi == len(groups) - 1:
            fresh_jobs.append((cur, items))

    # ---- the same describes in a FRESH process on the same (pickled) schemas
    d = tempfile.mkdtemp(prefix='c14-fresh-')
    pin, pout = os.path.join(d, 'in.pickle'), os.path.join(d, 'out.json')
    pickle.dump([(s_, [(t, pv, opt, w) for (t, pv, opt, w, _i) in it]) for (s_, it) in fresh_jobs],
                open(pin, 'wb'), -1)
    proc = subprocess.Popen([sys.executable, '-c', 'import sys; from props import c14; c14.fresh_main(*sys.argv[1:])',
                             pin, pout], env=dict(os.environ), stdout=open(os.path.join(d, 'log.txt'), 'w'), stderr=subprocess.STDOUT)
    rec['fresh'] = {'proc': proc, 'out': pout, 'log': os.path.join(d, 'log.txt'), 'index': [[(w, i) for (_t, _pv, _opt, w, i) in it]
                                                         for (_s, it) in fresh_jobs]}
    return rec


# ================================================================== the run


class Run:
    def __init__(self, ctx: core.Ctx):
        self.ctx = ctx
        self.sx = Stubs()
        self.st = self.sx.st
        self.lines: list[str] = []
        self.handlers = []          # one per line: f(model_output)
        self.hist: dict = {}
        self.kinds: dict = {}
        self.n_dis = 0
        self.distinct = set()
        self.samples = []

    def count(self, k, n=1):
        self.hist[k] = self.hist.get(k, 0) + n

    def ask(self, line, handler):
        self.lines.append(line)
        self.handlers.append(handler)

    def disagree(self, key, what, detail):
        self.n_dis += 1
        self.ctx.fail('corr:' + key, 'model and implementation disagree: ' + what, detail, no_input=True)

    def real_parse(self, b: bytes, pv):
        try:
            td = self.st.parse(b, pv)
        except Exception as e:     # noqa: BLE001  (every failure of the real decoder is an outcome)
            return None, type(e).__name__ + ': ' + str(e)[:80]
        return canon_real(td, self.st, pv >= (2, 0)), None

    def note_tree(self, n: Node):
        for t in rpn_list(n):
            k = t.split('|', 1)[0]
            self.kinds[k] = self.kinds.get(k, 0) + 1

    # -------------------------------------------------- stream A: real encoder
    def schema_case(self, w: World, label, real_fn, abs_fn, pv, *, decodable=True, annos=None,
                    replay=None):
        """real_fn() -> bytes (REAL encoder); abs_fn() -> Node | list[Node]"""
        ctx, v2 = self.ctx, pv >= (2, 0)
        p = '2' if v2 else '1'
        try:
            tree = abs_fn()
            exp_err = None
        except LookupError as e:
            tree, exp_err = None, str(e)
        try:
            real = real_fn()
            real_err = None
        except Exception as e:      # noqa: BLE001
            real, real_err = None, type(e).__name__
        self.count(f'A:{label}')
        if tree is None or real_err is not None:
            self.count('A:encoder-error')
            if (tree is None) != (real_err is not None):
                ctx.fail(f'oracle:encoder-error:{label}:{replay}',
                         'real encoder raised / did not raise against the expectation',
                         {'case': replay, 'real_error': real_err, 'expected_error': exp_err})
            return
        trees = tree if isinstance(tree, list) else [tree]
        root = trees[-1]
        for t in trees:
            self.note_tree(t)
        ann_entries = None
        if annos is not None:
            annos, ann_entries = annos
        aspec = ann_spec(ann_entries)
        line = (f'E {p} {rpn(root)} {aspec}' if len(trees) == 1 else f'L {p} ' + ' '.join(rpn(t) for t in trees))
        if line not in self.distinct and tree_size(root) > 1:
            self.distinct.add(line)
        faithful_ids = self.ids_faithful(trees)
        full = real
        if annos:
            if not full.endswith(annos):
                self.disagree(line[:200], 'annotation blocks differ from tag 0xff + id + text in emission order',
                              {'case': replay, 'real_bytes': full.hex(), 'expected_annos': annos.hex()})
                return
            real = full[:len(full) - len(annos)]
            self.count('A:with-annotations')
        det = {'case': replay, 'protocol': list(pv), 'tree': line, 'real_bytes': real.hex()}

        # ---- oracle S (real code only)
        problems = []
        if v2:
            nb = walk_frames(real)
            want = len({u.id for t in trees for u in subtrees(t)})
            if nb is None:
                problems.append('>=2.0 length prefixes do not frame the stream')
            elif nb != want:
                problems.append(f'{nb} blocks for {want} distinct descriptors')
            # the walker the framing theorems (`C14_frames`, `C14_skip`) are about — Lean `frames`,
            # driver op F — run on the REAL bytes: same verdict and block count as `walk_frames`
            want_f = 'err' if nb is None else f'ok {nb}'
            if real:
                self.ask(f'F {real.hex()}',
                         lambda out, want_f=want_f, det=det, line=line: None if out == want_f else
                         self.disagree('frames:' + line[:200], f'Lean `frames` on the real bytes says '
                                       f'{out[:40]!r}, the harness walker {want_f!r}', det))
                self.count('A:lean-frames-on-real-bytes')
        got, perr = self.real_parse(full, pv)
        if len(trees) > 1 and root.id in {u.id for t in trees[:-1] for u in subtrees(t)}:
            self.count('A:derive-root-already-described')
        elif decodable:
            if annos:
                # sertypes.parse is server internal and not specified for annotation blocks: it is used
                # on the annotation-free part only; the full stream goes through the documented-format
                # decoder of the model below
                self.count('A:real-parse-rejects-annotated-stream(observation)' if got is None
                           else 'A:real-parse-accepts-annotated-stream')
                got, perr = self.real_parse(real, pv)
            want_tree = dict_collapse(root)
            if got is None:
                problems.append('real decoder rejects the real descriptor: ' + perr)
            elif rpn(got) != rpn(want_tree):
                problems.append('real descriptor decodes to a different description than the type')
                det = det | {'decoded': rpn(got), 'expected': rpn(want_tree)}
        else:
            self.count('A:sqlrow-undecodable' if got is None else 'A:sqlrow-decoded?')
        for pr in problems:
            ctx.fail(f'oracle:{label}:{line[:200]}', pr, det)
        if len(trees) == 1 and (annos or not decodable):
            # faithfulness through a client that follows the documented format (model `decodeDoc`)
            want_doc = 'ok ' + rpn(root) + ' ' + (aspec if ann_entries else '-')
            self.ask(f'DD {p} {full.hex()}',
                     lambda out, want_doc=want_doc, det=det, full=full: None if out == want_doc else
                     ctx.fail(f'oracle:doc-decode:{label}:{line[:200]}', 'the real stream (annotations / SQL row '
                              'included) does not decode, per the documented format, to the description and the '
                              'type names', det | {'stream': full.hex(), 'decoded': out[:3000],
                                                   'expected': want_doc[:3000]}))
            self.count('A:doc-decoder-oracle')

        # ---- correspondence with the model
        def handler(out, real=full, det=det, line=line, problems=problems, faithful_ids=faithful_ids):
            f = out.split(' ')
            if f[0] != 'ok':
                self.disagree(line[:200], f'model says {out[:40]!r} where the real encoder produced bytes', det)
                return
            if len(trees) == 1 and (f[4] == '1') != faithful_ids:
                self.disagree(line[:200], f'model documented-format round trip flag {f[4]} but ids faithful = '
                              f'{faithful_ids}', det)
            if f[1] != real.hex():
                self.disagree(line[:200], 'descriptor bytes differ', det | {'model_bytes': f[1]})
                return
            if len(trees) == 1 and decodable and (f[2] == '1') != faithful_ids:
                self.disagree(line[:200], f'model round trip flag {f[2]} but ids faithful = {faithful_ids}', det)
        self.ask(line, handler)
        return root, real

    @staticmethod
    def ids_faithful(trees) -> bool:
        seen = {}
        for t in trees:
            for u in subtrees(t):
                r = rpn(u)
                if seen.setdefault(u.id, r) != r:
                    return False
        return True

    def anno_bytes(self, w: World, root: Node) -> bytes:
        """`_add_annotation` blocks in emission order (protocol < 2.0 with
        inline_typenames): one per newly emitted derived scalar / enum"""
        names = {s.id.bytes: s.x_display for s in w.derived + w.enums}
        seen, out = set(), []

        def visit(n):
            for c in n.pre:
                visit(c)
            if n.id in seen:
                return
            for c in n.post:
                visit(c)
            seen.add(n.id)
            if n.kind in ('scalar', 'enum') and n.id in names:
                t = names[n.id].encode('utf-8')
                blk = b'\xff' + n.id + len(t).to_bytes(4, 'big') + t
                out.append(blk)
                self.ask(f'A 1 {n.id.hex()} x{t.hex()}',
                         lambda o, blk=blk: None if o == 'ok ' + blk.hex() else
                         self.disagree('anno:' + blk.hex()[:60], 'annoBlock bytes', {'model': o, 'py': blk.hex()}))
        visit(root)
        return b''.join(out), [(blk[1:17], blk[21:]) for blk in out]

    def stream_a(self, n_worlds: int):
        st, rng = self.st, self.ctx.rng
        PV1, PV2 = [(1, 0), (1, 0), (0, 13)], [(2, 0), (3, 0)]
        for ci, spec in enumerate(load_corpus()['stub_types']):      # regression cases first
            w = World(self.sx, rng, False)

            def build(x, w=w):
                """every mention is a separate stub object (as separate type references are)"""
                if isinstance(x, str):
                    return w.fund[x]
                kind, arg = x
                if kind == 'tuple':
                    subs = [build(a) for a in arg]
                    nm = 'tuple<' + ', '.join(w.tname(t) for t in subs) + '>'
                    return self.sx.mk(self.sx.XTuple, w.rid(), x_subs=subs, x_names=None, x_name=nm,
                                      x_persistent=False)
                cls = {'array': self.sx.XArray, 'range': self.sx.XRange, 'multirange': self.sx.XMultiRange}[kind]
                el = build(arg)
                return self.sx.mk(cls, w.rid(), x_subs=[el], x_name=f'{kind}<{w.tname(el)}>', x_persistent=False)
            t = build(spec)
            for pv in ((1, 0), (2, 0), (3, 0)):
                self.schema_case(w, 'corpus', lambda pv=pv, t=t, w=w: st.describe(
                    w.schema, t, protocol_version=pv)[0],
                    lambda pv=pv, t=t, w=w: w.abs(t, pv >= (2, 0)), pv,
                    replay=f'corpus/C14 stub_types[{ci}] {json.dumps(spec)} pv={pv}')
        for ci, pair in enumerate(load_corpus()['stub_nested_tuples']):      # regression cases first
            w = World(self.sx, rng, True)
            i64 = w.fund['std::int64']
            inner = [self.sx.mk(self.sx.XTuple, w.rid(), x_subs=[i64] * len(ns), x_names=list(ns),
                                x_name='tuple<' + ', '.join(f'{n}:std::int64' for n in ns) + '>',
                                x_persistent=False) for ns in pair]
            outer = self.sx.mk(self.sx.XTuple, w.rid(), x_subs=inner, x_names=None,
                               x_name='tuple<' + ', '.join(t.x_name for t in inner) + '>', x_persistent=False)
            for pv in ((1, 0), (3, 0)):
                self.schema_case(w, 'corpus', lambda pv=pv, outer=outer, w=w: st.describe(
                    w.schema, outer, protocol_version=pv)[0],
                    lambda pv=pv, outer=outer, w=w: w.abs(outer, pv >= (2, 0)), pv,
                    replay=f'corpus/C14 stub_nested_tuples[{ci}] pv={pv}')
        for wi in range(n_worlds):
            colon = wi % 8 == 7
            w = World(self.sx, rng, colon)
            ids_seen: dict = {}        # root id -> struct sig / bytes   (oracle S3, per schema)
            sigs_seen: dict = {}
            roots = [w.gen_type(rng.randint(1, 3)) for _ in range(14 if colon else 3)]
            for ti, t in enumerate(roots):
                for fam in (PV1, PV2):
                    pv = rng.choice(fam)
                    v2 = pv >= (2, 0)
                    fl = rng.random() < 0.85
                    nf = '' if rng.random() < 0.8 else rng.choice(['a', '__', 'x'])
                    inl = rng.random() < 0.3
                    rp = f'seed={self.ctx.seed} world={wi} type={ti} pv={pv} follow_links={fl} ' \
                         f'name_filter={nf!r} inline_typenames={inl}'
                    absf = lambda t=t, v2=v2, fl=fl, nf=nf: w.abs(t, v2, follow_links=fl, name_filter=nf)  # noqa: E731
                    annos = None
                    if inl and not v2:
                        try:
                            annos = self.anno_bytes(w, absf())
                        except LookupError:
                            annos = None
                    r = self.schema_case(
                        w, 'describe' + ('+colon' if colon else ''),
                        lambda t=t, pv=pv, fl=fl, nf=nf, inl=inl: st.describe(
                            w.schema, t, w.view_shapes, w.view_meta, protocol_version=pv,
                            follow_links=fl, inline_typenames=inl, name_filter=nf)[0],
                        absf, pv, annos=annos, replay=rp)
                    if r is not None:
                        root, real = r
                        key = (v2, fl, nf, root.id)
                        sig = struct_sig(root)
                        old = ids_seen.setdefault(key, (sig, real, rp, root))
                        if old[0] != sig or old[1] != real:
                            det = {'id': root.id.hex(), 'a': {'case': old[2], 'sig': old[0], 'bytes': old[1].hex()},
                                   'b': {'case': rp, 'sig': sig, 'bytes': real.hex()}}
                            self.ctx.fail(f'oracle:id-clash:{root.id.hex()}',
                                          'equal descriptor ids for different structure / bytes '
                                          '(real encoder on stub types)', det)
                        sigs_seen.setdefault((v2, fl, nf, sig), root.id)
            # ---- history: in-place changes that keep every id (what ALTER does), then the same types again
            if wi % 3 == 0 and not colon:
                muts = []
                for e in w.enums:
                    e.x_enum = (list(reversed(e.x_enum)) if rng.random() < 0.4 else list(e.x_enum)) + ['Added']
                    if rng.random() < 0.6:
                        e.x_name = e.x_display = e.x_name + 'Renamed'
                    muts.append(f'enum {e.id} -> {e.x_name} {e.x_enum}')
                for sc in w.derived:
                    if rng.random() < 0.6:
                        sc.x_name = sc.x_display = sc.x_name + 'Renamed'
                    if len(sc.x_anc) > 2 and rng.random() < 0.5:
                        sc.x_anc = sc.x_anc[1:]
                    muts.append(f'scalar {sc.id} -> {sc.x_name} ancestors {[a.x_name for a in sc.x_anc]}')
                for o in w.objs:
                    if rng.random() < 0.5:
                        o.x_name = o.x_name + 'Renamed'
                        muts.append(f'object type {o.id} -> {o.x_name}')
                for ptrs in list(w.view_shapes.values()):
                    for ptr in ptrs:
                        if ptr.x_name in ('id', '__tid__', '__tname__'):
                            continue
                        if rng.random() < 0.3:
                            ptr.x_name = ptr.x_name + 'r'
                        if rng.random() < 0.3:
                            ptr.x_required = not ptr.x_required
                        if rng.random() < 0.2 and not ptr.x_link:
                            ptr.x_many = not ptr.x_many
                for ti, t in enumerate(roots):
                    for fam in (PV1, PV2):
                        pv = rng.choice(fam)
                        v2 = pv >= (2, 0)
                        inl = rng.random() < 0.3
                        absf = lambda t=t, v2=v2: w.abs(t, v2)  # noqa: E731
                        annos = None
                        if inl and not v2:
                            try:
                                annos = self.anno_bytes(w, absf())
                            except LookupError:
                                annos = None
                        self.schema_case(
                            w, 'history', lambda t=t, pv=pv, inl=inl: st.describe(
                                w.schema, t, w.view_shapes, w.view_meta, protocol_version=pv,
                                inline_typenames=inl)[0], absf, pv, annos=annos,
                            replay=f'seed={self.ctx.seed} world={wi} type={ti} pv={pv} inline_typenames={inl} '
                                   f'AFTER in-place changes in the same process: {muts[:6]}')
            # describe_params / describe_sql_result / describe_input_shape / derive()
            pv = rng.choice(PV1 + PV2)
            v2 = pv >= (2, 0)
            U = self.sx.uuidgen.UUID
            params = [(w.pname() + str(i), w.gen_type(rng.randint(0, 1)), rng.random() < 0.5)
                      for i in range(rng.randint(1, 4))]
            params = [pr for pr in params if not isinstance(pr[1], self.sx.XObj)]

            def abs_params(params=params, v2=v2):
                pre = [w.abs(t, v2) for (_n, t, _r) in params]
                els = [(0, 0x41 if r else 0x6f, n.encode()) for (n, _t, r) in params]
                tid = st._get_object_shape_id('std::FreeObject', [U(c.id) for c in pre], [p[0] for p in params],
                                              [st.enums.Cardinality(e[1]) for e in els])
                return Node('shape', tid.bytes, None, (v2, els), pre, [])
            if params:
                self.schema_case(w, 'describe_params',
                                 lambda: st.describe_params(schema=w.schema, params=params, protocol_version=pv)[0],
                                 abs_params, pv, replay=f'seed={self.ctx.seed} world={wi} params pv={pv}')

            def abs_sql(v2=v2):
                pre = [w.abs(t, v2) for (_n, t, _r) in params]
                tid = st._get_object_shape_id('SQLRow', [U(c.id) for c in pre], [p[0] for p in params])
                return Node('sqlrow', tid.bytes, None, [p[0].encode() for p in params], pre)
            if params:
                if rng.random() < 0.3:      # a repeated column name (`select 1 as a, 2 as a`)
                    params = params + [(params[0][0], w.gen_type(0), True)]
                self.schema_case(w, 'describe_sql_result',
                                 lambda params=params: st.describe_sql_result(
                                     schema=w.schema, row=[(n, t) for (n, t, _r) in params],
                                     protocol_version=pv)[0],
                                 abs_sql, pv, decodable=False, replay=f'seed={self.ctx.seed} world={wi} sqlrow pv={pv}')
            # input shapes (state descriptors)
            C = st.enums.Cardinality
            inner, outer = w.objtype('__derived__::cfg', mt=w.free), w.objtype('__derived__::state', mt=w.free)

            def shape_els(k):
                return tuple((w.pname() + str(i), w.gen_type(1) if rng.random() < 0.7 else w.gen_type(0),
                              rng.choice([C.AT_MOST_ONE, C.ONE, C.MANY, C.AT_LEAST_ONE]))
                             for i in range(k))
            ish = {inner: tuple(e for e in shape_els(rng.randint(0, 3)) if not isinstance(e[1], self.sx.XObj)),
                   }
            ish[outer] = tuple(e for e in shape_els(rng.randint(0, 2)) if not isinstance(e[1], self.sx.XObj)) + \
                (('config', inner, C.AT_MOST_ONE),)

            def real_ish():
                c = st.Context(schema=w.schema, protocol_version=pv)
                st.describe_input_shape(outer, ish, ctx=c)
                return b''.join(c.buffer)
            self.schema_case(w, 'describe_input_shape', real_ish,
                             lambda: w.abs(outer, v2, input_shapes=ish), pv,
                             replay=f'seed={self.ctx.seed} world={wi} input_shape pv={pv}')
            # Context.derive(): two contexts derived from one parent must not see each other
            if len(roots) >= 3:
                t1, t2, t3 = roots[0], roots[1], roots[2]

                def real_derive(second):
                    def f():
                        c0 = st.Context(schema=w.schema, protocol_version=pv, view_shapes=w.view_shapes,
                                        view_shapes_metadata=w.view_meta)
                        st._describe_type(t1, ctx=c0)
                        c1 = c0.derive()
                        c2 = c0.derive()
                        for (t, c, wanted) in ((t2, c1, not second), (t3, c2, second)):
                            try:
                                st._describe_type(t, ctx=c)
                            except Exception:     # noqa: BLE001
                                if wanted:
                                    raise
                        return b''.join((c1 if not second else c2).buffer)
                    return f
                self.schema_case(w, 'derive', real_derive(False), lambda: [w.abs(t1, v2), w.abs(t2, v2)], pv,
                                 replay=f'seed={self.ctx.seed} world={wi} derive-1 pv={pv}')
                self.schema_case(w, 'derive', real_derive(True), lambda: [w.abs(t1, v2), w.abs(t3, v2)], pv,
                                 replay=f'seed={self.ctx.seed} world={wi} derive-2 pv={pv}')

    # ------------------------------------------- stream B: model encoder -> real decoder
    def wire_case(self, tree: Node, v2: bool, stream: str, mutate_rng=None):
        ctx = self.ctx
        pv = (2, 0) if v2 else (1, 0)
        if v2 and ctx.rng.random() < 0.3:
            pv = (3, 0)
        p = '2' if v2 else '1'
        line = f'E {p} {rpn(tree)}'
        self.note_tree(tree)
        self.count('B:' + stream)
        if tree_size(tree) > 1:
            self.distinct.add(line)
        dups = has_dup_names(tree)
        if dups:
            self.count('B:dup-names(dict-collapse)')
        want = rpn(dict_collapse(tree))

        def handler(out):
            f = out.split(' ')
            det = {'tree': line, 'protocol': list(pv)}
            if f[0] != 'ok':
                self.disagree(line[:200], f'model refuses a well-formed tree: {out[:40]}', det)
                return
            b = bytes.fromhex(f[1])
            if f[2] != '1':
                self.disagree(line[:200], 'model decode(encode d) != d on a well-formed tree', det)
            got, perr = self.real_parse(b, pv)
            if got is None:
                self.disagree(line[:200], 'real parse rejects the model encoding: ' + perr, det | {'bytes': f[1]})
            elif rpn(got) != want:
                self.disagree(line[:200], 'real parse of the model encoding gives another tree',
                              det | {'bytes': f[1], 'real': rpn(got), 'expected': want})
            if v2:
                nb = walk_frames(b)
                if nb != int(f[3]):
                    self.disagree(line[:200], f'model length prefixes frame {nb} blocks, table has {f[3]}', det)
            if mutate_rng is not None:
                self.pending_mut.append((b, pv))
        self.ask(line, handler)

    def stream_b(self, n: int):
        rng = self.ctx.rng
        self.pending_mut = []
        for i in range(n):
            for v2 in (False, True):
                pool = []
                t = gen_wire(rng, v2, rng.choice([0, 1, 2, 2, 3, 3, 4]), pool, allow_dups=(i % 25 == 0))
                if tree_size(t) > 400:
                    continue
                self.wire_case(t, v2, 'random', mutate_rng=rng if i % 2 == 0 else None)

    def stream_exhaustive(self, stride: int):
        k = 0
        for v2 in (False, True):
            for i, t in enumerate(gen_exhaustive(v2)):
                if i % stride == self.ctx.seed % stride:
                    self.wire_case(t, v2, 'exhaustive<=2')
                    k += 1
        return k

    # ------------------------------------------- stream C: malformed streams
    def stream_c(self, n: int):
        rng = self.ctx.rng
        src = self.pending_mut
        if not src:
            return
        for i in range(n):
            b, pv = src[i % len(src)]
            m = mutate(rng, b)
            got, perr = self.real_parse(m, pv)
            p = '2' if pv >= (2, 0) else '1'
            line = f'D {p} {m.hex() or "-"}'

            def handler(out, got=got, perr=perr, line=line, pv=pv):
                det = {'line': line, 'protocol': list(pv), 'real': rpn(got) if got else perr, 'model': out[:2000]}
                if out == 'err':
                    self.count('C:both-reject' if got is None else 'C:DISAGREE')
                    if got is not None:
                        self.disagree(line[:200], 'real parse accepts a stream the model decoder rejects', det)
                    return
                if got is None:
                    if 'invalid UTF-8' in perr:
                        self.count('C:utf8-not-modelled')
                        return
                    self.count('C:DISAGREE')
                    self.disagree(line[:200], 'model decoder accepts a stream real parse rejects', det)
                    return
                self.count('C:both-accept')
                mt = out[3:]
                if mt != rpn(got):
                    # the model keeps element lists, the real decoder dicts: compare after collapse
                    if rpn(dict_collapse(parse_rpn(mt))) != rpn(got):
                        self.count('C:DISAGREE')
                        self.disagree(line[:200], 'decoders accept but produce different trees', det)
            self.ask(line, handler)

    # ------------------------------------------- stream D: the id functions
    def stream_d(self, n_random: int):
        st, rng, sx = self.st, self.ctx.rng, self.sx
        U = sx.uuidgen.UUID
        ns = sx.s_obj.TYPE_ID_NAMESPACE
        C = st.enums.Cardinality
        ids = [sx.s_obj.get_known_type_id(n) for n in ('std::int64', 'std::str', 'std::uuid')]
        pool = ['a', 'b', 'c', 'a:b', 'b:c', 'a:b:c', ':', '', 'é', 'a;b', 'x y', 'True', 'None;None', '\\',
                'a\\', '\\:b', 'a\\:b']
        xs = lambda l: ','.join('x' + s.encode().hex() for s in l) if l else '-'  # noqa: E731
        bl = lambda l: 'N' if l is None else (','.join('1' if b else '0' for b in l) or '-')  # noqa: E731
        keys = []
        oids = [U(bytes([7] * 16)), U(bytes([8] * 16)), ids[0]]      # source type ids
        for pair in load_corpus()['id_calls']:          # regression cases first
            for (fn, base, subs, names) in pair:
                sids = [sx.s_obj.get_known_type_id(x) for x in subs]
                if fn == 'c':
                    keys.append(('c', base, sids, list(names)))
                else:
                    keys.append(('s', base, sids, list(names), [C.ONE] * len(sids), [False] * len(sids),
                                 [False] * len(sids), False))
            self.count('D:corpus-pair')
        # exhaustive small part: every name list of length <= 2 over the pool, fixed subtypes
        for k in (1, 2):
            for names in itertools.product(pool, repeat=k):
                subs = [ids[0]] * k
                keys.append(('c', 'tuple', subs, list(names)))
                keys.append(('s', 'default::T', subs, list(names), [C.ONE] * k, [False] * k, [False] * k, False))
                keys.append(('s', 'SQLRow', subs, list(names), None, None, None, False))
            for srcs in [[]] + [list(x) for x in itertools.product(oids, repeat=k)]:
                keys.append(('s', 'default::T', [ids[0]] * k, ['a', 'b'][:k], [C.ONE] * k, [False] * k,
                             [False] * k, False, srcs))
        for ct in ('tuple', 'array', 'range', 'multirange'):
            for k in range(0, 3):
                for subs in itertools.product(ids[:2], repeat=k):
                    keys.append(('c', ct, list(subs), None))
                    keys.append(('c', ct, list(subs), []))
        for i in ids:
            keys.append(('t', i))
            keys.append(('t', st._get_set_type_id(i)))
        for _ in range(n_random):
            k = rng.randint(0, 3)
            subs = [rng.choice(ids) for _ in range(k)]
            names = [rng.choice(pool) for _ in range(k)]
            if rng.random() < 0.4:
                keys.append(('c', rng.choice(['tuple', 'tuple', 'array']), subs,
                             names if rng.random() < 0.8 else None))
            else:
                cards = [rng.choice(list(C)) for _ in range(k)]
                lb = lambda: rng.choice([None, [rng.random() < 0.5 for _ in range(k)]])  # noqa: E731
                keys.append(('s', rng.choice(['default::T', 'default::U', 'std::FreeObject']), subs, names,
                             cards if rng.random() < 0.85 else None, lb(), lb(), rng.random() < 0.5,
                             rng.choice([None, None, [rng.choice(oids) for _ in range(k)]])))
        by_id: dict = {}
        for key in keys:
            if key[0] == 'c':
                real = st._get_collection_type_id(key[1], key[2], key[3])
                line = f'K c x{key[1].encode().hex()} {xs([str(i) for i in key[2]])} ' \
                       f'{"N" if key[3] is None else xs(key[3])}'
                norm = ('c', key[1], tuple(key[2]), tuple(key[3]) if key[3] else None)
                if key[1] == 'tuple' and not key[2]:
                    norm = ('empty-tuple',)
                names = key[3] or []
            elif key[0] == 's':
                _k, base, subs, names, cards, lp, lk, impl = key[:8]
                srcs = key[8] if len(key) > 8 else None
                real = st._get_object_shape_id(base, subs, names, cards, links_props=lp, links=lk,
                                               has_implicit_fields=impl, sources=srcs)
                cs = 'N' if cards is None else (','.join(str(c.value) for c in cards) or '-')
                line = f'K s x{base.encode().hex()} {xs([str(i) for i in subs])} {xs(names)} {cs} ' \
                       f'{bl(lp)} {bl(lk)} {"1" if impl else "0"} ' \
                       f'{"N" if srcs is None else xs([str(i) for i in srcs])}'
                norm = ('s', base, tuple(subs), tuple(names) if names else None,
                        tuple(cards) if cards else None, None if lp is None else tuple(lp),
                        None if lk is None else tuple(lk), impl, tuple(srcs) if srcs else None)
            else:
                real = st._get_set_type_id(key[1])
                line = f'K t x{str(key[1]).encode().hex()}'
                norm = ('t', key[1])
                names = []
            self.count('D:' + key[0])
            grp = by_id.setdefault(real, {})
            grp.setdefault(norm, (key, line))

            def handler(out, real=real, line=line, key=key):
                if out == 'none':
                    want = sx.s_obj.get_known_type_id('empty-tuple')
                else:
                    want = sx.uuidgen.uuid5_bytes(ns, bytes.fromhex(out[3:])) if out.startswith('ok ') else None
                if want != real:
                    self.disagree(line[:200], 'uuid5(model idPreimage) differs from the real id function',
                                  {'line': line, 'model': out, 'real_id': str(real)})
            self.ask(line, handler)
        # uuid text
        for i in ids + [U(bytes(rng.getrandbits(8) for _ in range(16))) for _ in range(20)]:
            self.ask(f'U {i.bytes.hex()}',
                     lambda out, i=i: None if out == 'ok ' + str(i).encode().hex() else
                     self.disagree(f'uuidStr:{i}', 'uuidStr differs from str(uuid)', {'model': out}))
        # equal ids <=> equal (normalised) argument lists
        for real, grp in by_id.items():
            if len(grp) > 1:
                items = sorted(grp.values(), key=lambda kl: kl[1])
                (k1, l1), (k2, l2) = items[0], items[1]
                det = {'level': 'real id function', 'id': str(real), 'call_1': repr(k1), 'call_2': repr(k2),
                       'model_lines': [l1, l2], 'group_size': len(grp)}
                self.ctx.fail(f'id-collision:{l1}|{l2}', 'two different argument lists, one type id', det)
        self.count('D:distinct-ids', len(by_id))


    # ------------------------------------------- level 2: compiled queries
    def stream_l2(self, rec: dict):
        """analysis of the compiled queries (compiled by `l2_compile` BEFORE the stub
        schema classes exist, so that the real compiler runs in an unpolluted process)"""
        ctx, st = self.ctx, self.st
        U = self.sx.uuidgen.UUID
        std_ids = {n: self.sx.s_obj.get_known_type_id(n).bytes for n in World.FUND + ['std::int16']}
        all_facts = []
        for stp in rec['steps']:
            f = dict(stp)
            f['schema_ids'] = std_ids | stp['schema_ids']
            all_facts.append(f)
        seen_ids: dict = {}
        seen_struct: dict = {}
        pairs: dict = {}
        versions: dict = {}
        for (text, exp, colon, pv, opt, data, tid, err, step) in rec['out']:
            if True:
                v2 = pv >= (2, 0)
                facts = all_facts[step]
                rp = {'query': text, 'protocol': list(pv), 'inline_typenames': opt[0], 'inline_typeids': opt[1]}
                okey = 'oracle:l2'
                rootkey = colon[7:] if isinstance(colon, str) and colon.startswith('corpus:') else None
                if step:
                    rp['history'] = {'step': step, 'kind': facts['kind'], 'ddl_applied_in_this_process': facts['ddl']}
                    okey = f'oracle:l2-history:{facts["kind"]}'
                    self.count('L2:after-history:' + facts['kind'])
                if err is not None:
                    self.count('L2:compile-error')
                    if rootkey:
                        ctx.fail(rootkey, 'accepted query dies in the compiler', rp | {'error': err})
                        continue
                    ctx.fail(f'oracle:l2-compile:{text}', 'generated query rejected / compiler failed',
                             rp | {'error': err}, no_input=True)
                    continue
                self.count('L2:compiled')
                self.distinct.add(f'L2 {pv} {text}')
                # annotations (below 2.0 with inline_typenames) follow the descriptors
                got, perr = self.real_parse(data, pv)
                body = data
                if got is None and opt[0] and not v2 and b'\xff' in data:
                    k = self.anno_split(data)
                    if k is not None:
                        body = data[:k]
                        self.count('L2:real-parse-rejects-annotated-stream(observation)')
                        got, perr = self.real_parse(body, pv)
                problems = []
                dups = exp_has_dups(exp)
                if got is None:
                    problems.append('real decoder rejects out_type_data: ' + str(perr))
                else:
                    self.note_tree(got)
                    if got.id != tid:
                        problems.append('out_type_id is not the id of the last descriptor')
                    if dups:
                        # the real decoder keeps shape elements in a dict: a pointer and a link property of
                        # the same name collapse; the description is checked through the model's
                        # documented-format decoder instead
                        self.count('L2:duplicate-element-names(doc-decoder-oracle)')

                        def chk_dups(out, exp=exp, v2=v2, facts=facts, rp=rp, data=data, okey=okey, pv=pv, text=text):
                            f = out.split(' ')
                            bad = ['documented-format decoder rejects out_type_data'] if f[0] != 'ok' else \
                                l2_match(parse_rpn(f[1]), exp, v2, facts)
                            for pr in bad:
                                ctx.fail(f'{okey}:{pv}:{text}', 'compiled query: ' + pr,
                                         rp | {'out_type_data': data.hex(), 'decoded': out[:2000]})
                        self.ask(f'DD {"2" if v2 else "1"} {data.hex()}', chk_dups)
                    else:
                        problems += l2_match(got, exp, v2, facts)
                    if v2 and not dups:
                        problems += l2_reid(got, st, U, None)
                    if v2 and not dups and walk_frames(body) != len({u.id for u in subtrees(got)}):
                        problems.append('length prefixes do not frame one block per distinct descriptor')
                if v2 and got is not None:
                    mg = mangled_collection_name(got, exp)
                    if mg:
                        ctx.fail('collection-name-mangled', 'the protocol >= 2.0 descriptor of a collection type carries '
                                 'the internal mangled name instead of the schema type name (what schema::Type.name '
                                 'reflects: Collection.get_displayname_static)',
                                 rp | {'descriptor_name': mg[0], 'schema_type_name': mg[1]})
                for pr in problems:
                    ctx.fail(rootkey or f'{okey}:{pv}:{text}', 'compiled query: ' + pr,
                             rp | {'out_type_data': data.hex(), 'decoded': rpn(got) if got else None,
                                   'expected': repr(exp)})
                # across schema versions (observation, see notes): same id, other bytes
                ov = versions.setdefault((pv, opt, tid), (step, data))
                if ov[0] != step and ov[1] != data:
                    self.count('L2:cross-version-same-id-different-descriptor(observation)')
                if isinstance(colon, str) and colon.startswith('pair:'):
                    pairs.setdefault((colon[5:], pv), []).append((text, data, tid))
                    colon = 'pair'
                # equal ids => identical descriptors; different structure => different ids
                key = (step, pv, opt, tid)
                old = seen_ids.setdefault(key, (data, text, repr(exp))) if colon != 'pair' else (data,)
                if old[0] != data:
                    det = {'level': 'ACCEPTED QUERIES through the real compiler (level 2)', 'out_type_id': tid.hex(),
                           'query_1': old[1], 'out_type_data_1': old[0].hex(),
                           'query_2': text, 'out_type_data_2': data.hex()} | rp
                    ctx.fail(f'oracle:l2-id-clash:{tid.hex()}', 'two accepted queries, one out_type_id, different '
                             'descriptors', det)
                o2 = seen_struct.setdefault((step, pv, opt, repr(exp)), (tid, data, text)) if colon != 'pair' \
                    else (tid, data)
                if o2[0] != tid or o2[1] != data:
                    ctx.fail(f'oracle:l2-unstable-id:{text}', 'structurally equal queries got different '
                             'descriptors / ids', rp | {'other_query': o2[2]})
                # the model on the real bytes: decode agrees, re-encoding reproduces them
                if got is not None:
                    p = '2' if v2 else '1'
                    want = rpn(got)
                    if body != data:
                        # annotated stream: documented-format decoder gives the same description and the
                        # annotations map the ids of the user-defined scalars / enums to their names
                        id2name = {v: k for k, v in rec['steps'][step]['schema_ids'].items()}

                        def chk_doc(out, want=want, rp=rp, data=data, id2name=id2name, got=got):
                            f = out.split(' ')
                            ok = f[0] == 'ok' and (has_dup_names(got) or f[1] == want)
                            names = {}
                            if f[0] == 'ok' and f[2] != '-':
                                for e in f[2].split(','):
                                    i, t = e.split(':x')
                                    names[bytes.fromhex(i)] = bytes.fromhex(t).decode()
                            used = {u.id for u in subtrees(got) if u.id in id2name}
                            if not ok or names != {i: id2name[i] for i in used}:
                                ctx.fail('oracle:l2-doc-decode:' + rp['query'], 'annotated out_type_data does not '
                                         'decode (documented format) to the description + type names',
                                         rp | {'out_type_data': data.hex(), 'decoded': out[:2000],
                                               'expected_names': {i.hex(): id2name[i] for i in used}})
                        self.ask(f'DD {p} {data.hex()}', chk_doc)
                        self.count('L2:doc-decoder-oracle')
                    self.ask(f'D {p} {body.hex()}',
                             lambda out, want=want, rp=rp, body=body, dups=dups: None if (
                                 out == 'ok ' + want or
                                 (dups and out.startswith('ok ') and
                                  rpn(dict_collapse(parse_rpn(out[3:]))) == want)) else
                             self.disagree('l2-decode:' + rp['query'], 'model decode of out_type_data differs from '
                                           'real parse', rp | {'model': out[:1500], 'real': want[:1500]}))
                    if not has_dup_names(got) and not dups:
                        self.ask(f'E {p} {want}',
                                 lambda out, rp=rp, body=body: None if out.split(' ')[:2] == ['ok', body.hex()] else
                                 self.disagree('l2-encode:' + rp['query'], 'model encode(decoded tree) differs from '
                                               'out_type_data', rp | {'model': out[:1500], 'real': body.hex()}))
        for (text, exp, pv, data, in_tid, err, step) in rec['in']:
            if True:
                v2 = pv >= (2, 0)
                facts = all_facts[step]
                rp = {'query': text, 'protocol': list(pv)}
                if step:
                    rp['history'] = {'step': step, 'kind': facts['kind'], 'ddl_applied_in_this_process': facts['ddl']}
                if err is not None:
                    ctx.fail(f'oracle:l2-compile:{text}', 'parameter query rejected', rp | {'error': err},
                             no_input=True)
                    continue
                got, perr = self.real_parse(data, pv)
                self.count('L2:params')
                problems = []
                if got is None or got.kind != 'shape' or got.id != in_tid:
                    problems.append('input descriptor is not a shape with id in_type_id')
                elif [(e[2].decode(), e[1]) for e in got.payload[1]] != [(n, c) for (n, c, _t) in exp]:
                    problems.append('parameter names / cardinalities differ')
                else:
                    for c, (n, _c, t) in zip(got.pre, exp):
                        problems += l2_match(c, t, v2, facts, '$' + n)
                for pr in problems:
                    ctx.fail(f'oracle:l2-params{"-history:" + facts["kind"] if step else ""}:{pv}:{text}',
                             'input descriptor does not describe the parameters: ' + pr,
                             rp | {'in_type_data': data.hex(), 'decoded': rpn(got) if got else perr})
                if got is not None and not problems:
                    want = rpn(got)
                    self.ask(f'E {"2" if v2 else "1"} {want}',
                             lambda out, rp=rp, data=data: None if out.split(' ')[:2] == ['ok', data.hex()] else
                             self.disagree('l2-params:' + rp['query'], 'model encode differs from in_type_data',
                                           rp | {'model': out[:1500], 'real': data.hex()}))
        # known root causes (corpus witnesses): the two queries of a pair must not share an id
        done = set()
        for (key, pv), items in sorted(pairs.items()):
            tag, key = key, key.split('#')[0]
            if len(items) == 2 and items[0][2] == items[1][2] and items[0][1] != items[1][1] and key not in done:
                done.add(key)
                ctx.fail(key, 'two accepted queries over one schema: one out_type_id, '
                         'different out_type_data',
                         {'protocol': list(pv), 'out_type_id': items[0][2].hex(),
                          'query_1': items[0][0], 'out_type_data_1': items[0][1].hex(),
                          'query_2': items[1][0], 'out_type_data_2': items[1][1].hex(),
                          'per_protocol': {str(k[1]): (v[0][2] == v[1][2], v[0][1] == v[1][1])
                                           for k, v in pairs.items() if k[0] == tag and len(v) == 2}})
            self.count('L2:corpus-pair:' + key)
        # SQL row descriptors
        if rec.get('sql_error'):
            ctx.fail('oracle:sqlrow:call', 'Compiler.compile_sql_descriptors could not be called',
                     {'error': rec['sql_error']}, no_input=True)
        for (cols, pv, data, tid, indata) in rec.get('sql', []):
            names = [c[0] for c in cols]

            def chk_sql(out, cols=cols, names=names, pv=pv, data=data):
                f = out.split(' ')
                got_names = None
                if f[0] == 'ok':
                    t = parse_rpn(f[1])
                    got_names = [x.decode() for x in t.payload] if t.kind == 'sqlrow' else None
                if got_names != names:
                    dup = len(set(names)) != len(names)
                    ctx.fail(f'oracle:sqlrow:{names}',
                             'the SQL_ROW descriptor does not list the columns of the row'
                             + (' (compile_sql_descriptors collects them in a dict: a repeated column name '
                                'loses a column)' if dup else ''),
                             {'columns (name, type id) as PostgreSQL reports them e.g. for '
                              '`select 1 as a, 2 as a`': cols, 'protocol': list(pv),
                              'descriptor': data.hex(), 'described_columns': got_names,
                              'call': 'Compiler.compile_sql_descriptors(user_schema, EMPTY_SCHEMA, protocol, '
                                      '[([int64], columns)])'})
            self.ask(f'DD {"2" if pv >= (2, 0) else "1"} {data.hex()}', chk_sql)
            self.count('L2:sql-row-descriptor')
        self.fresh_compare(rec)

    def fresh_compare(self, rec: dict):
        """history independence: the descriptors produced after the in-place ALTERs must be byte-identical
        to those a FRESH process produces for the same queries on the same (pickled) schema"""
        import hashlib
        fr = rec.get('fresh')
        if not fr:
            return
        try:
            fr['proc'].wait(timeout=1500)
        except Exception as e:      # noqa: BLE001
            fr['proc'].kill()
            raise core.Infra(f'fresh-process describe did not finish: {e}')
        try:
            res = json.load(open(fr['out']))
        except Exception as e:      # noqa: BLE001
            raise core.Infra(f'fresh-process describe failed: {e}: ' + open(fr['log']).read()[-1500:])
        for idx, job in zip(fr['index'], res):
            for (which, i), (dhex, thex, err) in zip(idx, job):
                r = rec[which][i]
                if which == 'out':
                    text, pv, data, tid, step = r[0], r[3], r[5], r[6], r[8]
                else:
                    text, pv, data, tid, step = r[0], r[2], r[3], r[4], r[6]
                self.count('L2:fresh-process-compared')
                if err is not None or r[7 if which == 'out' else 5] is not None:
                    continue
                if dhex != data.hex() or thex != tid.hex():
                    stp = rec['steps'][step]
                    h = hashlib.sha1((text + repr(pv) + which).encode()).hexdigest()[:10]
                    self.ctx.fail(f'history-dependent:{stp["kind"]}:{h}',
                                  'the descriptor depends on what the process described BEFORE the schema was '
                                  'altered: a fresh process gives other bytes for the same query on the same schema',
                                  {'query': text, 'protocol': list(pv), 'which': which + '_type_data',
                                   'ddl_applied_in_this_process': stp['ddl'],
                                   'after_history': data.hex(), 'fresh_process': dhex,
                                   'type_id_after_history': tid.hex(), 'type_id_fresh': thex})

    @staticmethod
    def anno_split(data: bytes):
        """offset where the trailing run of annotation blocks (0xff id text) starts"""
        for k in range(len(data)):
            i = k
            ok = i < len(data)
            while i < len(data):
                if data[i] != 0xff or i + 21 > len(data):
                    ok = False
                    break
                ln = int.from_bytes(data[i + 17:i + 21], 'big')
                i += 21 + ln
            if ok and i == len(data):
                return k
        return None


def internal_name(exp):
    """the generated (mangled) name of the collection type of an expectation, as
    edb/schema/types.py::generate_name builds it; None when not determined"""
    from edb.schema import name as s_name
    k = exp[0]
    if k == 'S':
        return exp[1]
    if k in ('A', 'R', 'MR'):
        sub = internal_name(exp[1])
        return None if sub is None else {'A': 'array', 'R': 'range', 'MR': 'multirange'}[k] + '<' + \
            s_name.mangle_name(sub) + '>'
    if k == 'T':
        subs = [internal_name(t) for t in exp[1]]
        return None if None in subs else 'tuple<' + s_name.mangle_name(', '.join(subs)) + '>'
    if k == 'NT':
        subs = [internal_name(t) for _n, t in exp[1]]
        return None if None in subs else 'tuple<' + s_name.mangle_name(
            ', '.join(f'{n}:{st}' for (n, _t), st in zip(exp[1], subs))) + '>'
    return None


def mangled_collection_name(n: Node, exp):
    """(descriptor name, schema type name) when the root collection descriptor carries the
    internal mangled name and that differs from the name the schema reflects"""
    from edb.schema import name as s_name
    if exp[0] not in ('A', 'R', 'MR', 'T', 'NT') or n.meta is None:
        return None
    internal = internal_name(exp)
    got = n.meta[0].decode()
    if internal is None or got != internal:
        return None
    shown = s_name.unmangle_name(internal)
    return (got, shown) if shown != got else None


def exp_has_dups(exp) -> bool:
    k = exp[0]
    if k == 'SH':
        names = [(e[0], e[4]) for e in exp[2]]
        if len({n for n, _ in names}) != len(names):
            return True
        return any(not isinstance(e[2], str) and exp_has_dups(e[2]) for e in exp[2])
    if k in ('A', 'R', 'MR', 'SET'):
        return exp_has_dups(exp[1])
    if k == 'T':
        return any(exp_has_dups(t) for t in exp[1])
    if k == 'NT':
        return any(exp_has_dups(t) for _n, t in exp[1])
    return False


def ann_spec(entries) -> str:
    if entries is None:
        return 'N'
    return ','.join(f'{i.hex()}:x{t.hex()}' for (i, t) in entries) or '-'


def parse_rpn(s: str) -> Node:
    stack = []
    for tok in s.split(';'):
        k, i, m, pl, a, b = tok.split('|')
        a, b = int(a), int(b)
        post = stack[len(stack) - b:] if b else []
        del stack[len(stack) - b:]
        pre = stack[len(stack) - a:] if a else []
        del stack[len(stack) - a:]
        meta = None
        if m != '-':
            nm, sd = m.split('.')
            meta = (bytes.fromhex(nm), sd == '1')
        nl = lambda x: [] if x == '-' else [bytes.fromhex(t[1:]) for t in x.split(',')]  # noqa: E731

        def el(x):
            if x == '-':
                return []
            out = []
            for t in x.split(','):
                f, c, n = t.split('.')
                out.append((int(f), int(c), bytes.fromhex(n[1:])))
            return out
        if k in ('ntuple', 'enum', 'sqlrow'):
            payload = nl(pl)
        elif k == 'array':
            payload = [] if pl == '-' else [int(x) for x in pl.split(',')]
        elif k == 'compound':
            payload = int(pl)
        elif k == 'ishape':
            payload = el(pl)
        elif k == 'shape':
            e, rest = pl.split('~')
            payload = (e == '1', el(rest))
        else:
            payload = None
        stack.append(Node(k, bytes.fromhex(i), meta, payload, pre, post))
    assert len(stack) == 1
    return stack[0]


def run(ctx: core.Ctx):
    proved = ctx.proof_stage(PROPS, ['EdbVerif.Props.C14', 'Driver.C14'], required=REQUIRED)
    ctx.log('proof stage:', 'ok' if proved else ctx.proof['broken'])
    # assumption behind `NoSep`: a name cannot contain NUL (the real tokenizer rejects U+0000).
    # (before the level-2 stage: its fresh-process helper rebuilds the lexer binary on its own)
    from lib import rustlex
    rustlex.build()
    lx = rustlex.lex_many(['select (`a\x00b` := 1)', 'select `a\x00b`'])
    nul_ok = all(r.error is not None for r in lx)
    if not nul_ok:
        ctx.fail('assumption:nul-in-name', 'the tokenizer accepts U+0000 inside a quoted name: the id strings '
                 'use NUL as part separator', {'lexed': [repr(r) for r in lx]}, no_input=True)
    l2 = None
    if not ctx.replay:
        l2 = l2_compile(ctx, ctx.budget(14, 300))
        ctx.log(f'level 2: {len(l2["out"])} compilations through the real compiler')
    R = Run(ctx)
    R.pending_mut = []
    if nul_ok:
        R.count('assumption:tokenizer-rejects-NUL-in-names')

    if ctx.replay:
        rp = json.load(open(ctx.replay))
        for f in rp['failures']:
            d = f.get('detail') or {}
            for line in ([d['tree']] if 'tree' in d else []) + ([d['line']] if 'line' in d else []) + \
                    list(d.get('model_lines', [])):
                R.ask(line, lambda out, line=line: ctx.log('replay', line[:120], '=>', out[:200]))
        R.stream_d(0)
    else:
        R.stream_a(ctx.budget(180, 3000))
        ctx.log(f'stream A: {sum(v for k, v in R.hist.items() if k.startswith("A:describe"))} describe() cases')
        R.stream_b(ctx.budget(650, 100000))
        n_ex = R.stream_exhaustive(ctx.budget(4, 1))
        ctx.log(f'stream B: random + {n_ex} exhaustive trees')
        R.stream_d(ctx.budget(1000, 30000))
        R.stream_l2(l2)

    out = ctx.driver('C14', R.lines)
    if len(out) != len(R.lines):
        raise core.Infra(f'driver returned {len(out)} lines for {len(R.lines)}')
    n_round1 = len(R.lines)
    for h, o in zip(R.handlers, out):
        h(o)
    ctx.log(f'round 1: {n_round1} lines through the driver; disagreements so far {R.n_dis}')

    if not ctx.replay:
        R.lines, R.handlers = [], []
        R.stream_c(ctx.budget(1500, 40000))
        out = ctx.driver('C14', R.lines)
        if len(out) != len(R.lines):
            raise core.Infra(f'driver returned {len(out)} lines for {len(R.lines)}')
        for h, o in zip(R.handlers, out):
            h(o)
        ctx.log(f'round 2: {len(R.lines)} malformed streams')

    if not proved:
        ctx.proof_broken_verdict()

    n_eval = n_round1 + (len(R.lines) if not ctx.replay else 0)
    ctx.cov.update({
        'evaluations': n_eval,
        'distinct_nontrivial': len(R.distinct),
        'rule': 'A: stub schema types (scalars with ancestor chains, enums, tuples, named tuples, arrays, ranges, '
                'multiranges, views with properties / links / link properties / implicit ids / polymorphic '
                'sources, free objects, union and intersection types) through REAL describe / describe_params / '
                'describe_sql_result / describe_input_shape / Context.derive for protocol (0,13),(1,0),(2,0),(3,0) '
                'x follow_links x name_filter x inline_typenames; B: arbitrary wire-level trees (depth <= 4, shared '
                'sub-descriptors) and all trees of depth <= 2 over a small alphabet (quick: the quarter selected '
                'by the seed); C: byte-mutated streams; D: id function argument lists (all name lists of length '
                '<= 2 over 17 names incl. ":" / "\\" / ";" / empty, plus random); HISTORIES: level 2 - real DDL '
                'through the bridge applies in-place ALTERs that keep ids (enum labels added / reordered, enum / '
                'scalar / object type renamed, scalar re-based, pointer renamed / retyped / cardinality changed, link '
                'property renamed, alias tuple element renamed) in the SAME process between batches of compiled '
                'queries and parameters, descriptors compared with the CURRENT schema and byte for byte with a '
                'FRESH process on the same pickled schema; level 1 - stub types changed in place and described '
                'again. non-trivial = tree with >= 2 nodes; '
                'distinct = distinct driver line',
        'samples': [R.samples] if R.samples else [l[:300] for l in
                                                  (list(R.distinct)[:2] + R.lines[:2])],
        'histogram': dict(sorted(R.hist.items())),
        'descriptor_kinds_hit': dict(sorted(R.kinds.items())),
        'disagreements_model_vs_impl': R.n_dis,
        'exhaustive': False,
        'correspondence': 'REAL sertypes encoder (driven through stub schema objects) vs Lean Desc.enc: bytes; '
                          'REAL sertypes.parse vs Lean Desc.decode: trees / rejection; REAL id functions vs '
                          'uuid5(Lean idPreimage)',
        'real_paths': 'real: describe, _describe_set/_tuple/_array/_range/_multirange/_object_shape/'
                      '_regular_object_type/_compound_object_type/_scalar_type/_regular_scalar/_enum, '
                      'describe_input_shape, _add_annotation, describe_params, describe_sql_result, '
                      '_finish_typedesc, _register_type_id, Context.derive, parse and every _parse_* arm, the three '
                      'id functions, uuidgen.uuid5, cardinality_from_ptr. Stubbed: the schema objects (accessor '
                      'methods only). Not reached: StateSerializerFactory, compiler.py call sites',
    })
    ctx.assumptions += [
        'SHA-1 / uuid5 collision resistance (ids are compared through their preimages)',
        'element names contain no NUL (the EdgeQL tokenizer rejects U+0000); ":" is NOT excluded',
        'stub schema objects answer the accessor methods as a real schema would (names of collection types and '
        'pointer sources are functions of the structure)',
        'UTF-8 validity of names is checked by the real decoder only (not modelled)',
    ]
    ctx.trusted_base += [
        'the Lean model is a pure function of (schema, type / query): that the Python describe() has no memory '
        '(history independence: process-wide caches, module-level state) is NOT a theorem; it is checked by the '
        'history oracle of this run (same process across in-place ALTERs vs current schema vs fresh process)',
        'hand-written model EdbVerif/Model/Desc.lean of the sertypes encoder building blocks, decoder and id '
        'preimages; tied by the differential run above',
        'harness/props/c14.py: stub schema classes, the type -> description abstraction, generators, '
        'canonicalisation (real decoder keeps shape elements in dicts: duplicate names collapse)',
    ]


# ============================================ level 2: real compiled queries
L2_SDL = '''
  scalar type mid extending int64;
  scalar type myint extending mid;
  scalar type Color extending enum<Red, Green>;
  abstract type Named { required name: str; }
  type Person extending Named { multi friends: Person { since: str; name: str }; age: myint; color: Color; }
  type Movie extending Named { multi actors: Person; director: Person; year: int32; }
  type A extending Named { x: int64 }
  type B extending Named { x: int64 }
  alias PT := (a := 1, b := 'x');
'''
ONE, OPT, MANY, ALO = 0x41, 0x6f, 0x6d, 0x4d


class L2Spec:
    """the vocabulary of the level-2 schema as the harness believes it to be NOW: the
    in-place ALTERs of the history stream are applied to the real schema (DDL through
    the bridge) and to this record; expectations are always derived from it"""

    def __init__(self):
        self.enum, self.labels = 'Color', ['Red', 'Green']
        self.myint, self.myint_anc = 'myint', ['default::mid', 'std::int64']
        self.person, self.movie = 'Person', 'Movie'
        self.age, self.since, self.year_t = 'age', 'since', 'std::int32'
        self.name_card, self.director_card = ONE, OPT
        self.alias = ['a', 'b']

    def tn(self, short):
        return 'default::' + short

    def ptrs(self, base):
        """pointer name -> (cardinality, expected type | target type name, is_link)"""
        if base == self.tn(self.person):
            return {'name': (self.name_card, ('S', 'std::str'), False),
                    self.age: (OPT, ('S', self.tn(self.myint)), False),
                    'color': (OPT, ('S', self.tn(self.enum)), False),
                    'friends': (MANY, self.tn(self.person), True)}
        return {'name': (self.name_card, ('S', 'std::str'), False), 'year': (OPT, ('S', self.year_t), False),
                'actors': (MANY, self.tn(self.person), True),
                'director': (self.director_card, self.tn(self.person), True)}

    def bases(self):
        return [self.tn(self.person), self.tn(self.movie)]

    def user_types(self):
        return [self.tn(self.myint), self.tn(self.enum), 'default::mid']

    def facts(self, sch):
        """what l2_match needs about the CURRENT schema"""
        return {'schema_ids': {n: sch.get(n).id.bytes for n in self.user_types()},
                'enum_labels': {self.tn(self.enum): list(self.labels)},
                'ancestors': {self.tn(self.myint): list(self.myint_anc), 'default::mid': ['std::int64']}}

    # ---- in-place ALTERs that keep ids: (kind, ddl text, mutation of this record)
    def history(self):
        def add_label():
            self.labels = self.labels + ['Blue']
        def reorder():
            self.labels = list(reversed(self.labels))
        def ren_enum():
            self.enum = 'Colour'
        def ren_scalar():
            self.myint = 'myint2'
        def rebase():
            self.myint_anc = ['std::int64']
        def ren_obj():
            self.person = 'Human'
        def ren_ptr():
            self.age = 'years'
        def retype():
            self.year_t = 'std::int64'
        def card():
            self.director_card, self.name_card = MANY, OPT
        def ren_lp():
            self.since = 'since2'
        def ren_el():
            self.alias = ['x', 'b']
        return [
            ('enum-add-label', lambda: f'alter scalar type {self.enum} extending enum<{", ".join(self.labels + ["Blue"])}>;', add_label),
            ('enum-reorder-labels', lambda: f'alter scalar type {self.enum} extending enum<{", ".join(reversed(self.labels))}>;', reorder),
            ('enum-rename', lambda: f'alter scalar type {self.enum} rename to Colour;', ren_enum),
            ('scalar-rename', lambda: f'alter scalar type {self.myint} rename to myint2;', ren_scalar),
            ('scalar-rebase', lambda: f'alter scalar type {self.myint} {{ drop extending mid; extending int64 }};', rebase),
            ('objtype-rename', lambda: f'alter type {self.person} rename to Human;', ren_obj),
            ('pointer-rename', lambda: f'alter type {self.person} alter property {self.age} rename to years;', ren_ptr),
            ('pointer-retype', lambda: f'alter type {self.movie} alter property year set type int64 using (<int64>.year);', retype),
            ('pointer-cardinality', lambda: f'alter type {self.movie} alter link director set multi; '
                                            f'alter type Named alter property name set optional;', card),
            ('linkprop-rename', lambda: f'alter type {self.person} alter link friends alter property {self.since} rename to since2;', ren_lp),
            ('alias-tuple-element-rename', lambda: "alter alias PT using ((x := 1, b := 'x'));", ren_el),
        ]

    def probes(self):
        """queries touching everything the history alters, with the CURRENT expectation"""
        E, M, P, Mv = self.tn(self.enum), self.tn(self.myint), self.tn(self.person), self.tn(self.movie)
        e0 = f'{self.enum}.{self.labels[0]}'
        pe = self.ptrs(P)
        pm = self.ptrs(Mv)
        person_sh = ('SH', P, [('name',) + pe['name'][:2] + (False, False), (self.age,) + pe[self.age][:2] + (False, False),
                               ('color',) + pe['color'][:2] + (False, False),
                               ('friends', MANY, ('SET', ('SH', P, [('name',) + pe['name'][:2] + (False, False),
                                                                    (self.since, OPT, ('S', 'std::str'), False, True)])),
                                True, False)])
        dsh = ('SH', P, [('name',) + pe['name'][:2] + (False, False)])
        movie_sh = ('SH', Mv, [('name',) + pm['name'][:2] + (False, False), ('year',) + pm['year'][:2] + (False, False),
                               ('director', self.director_card,
                                ('SET', dsh) if self.director_card in (MANY, ALO) else dsh, True, False),
                               ('actors', MANY, ('SET', ('SH', P, [(self.age,) + pe[self.age][:2] + (False, False)])),
                                True, False)])
        out = [
            (f'select {e0}', ('S', E)),
            (f'select <{self.myint}>1', ('S', M)),
            (f'select (<{self.myint}>1, {e0}, [{e0}], (c := {e0}))',
             ('T', [('S', M), ('S', E), ('A', ('S', E)), ('NT', [('c', ('S', E))])])),
            (f'select {self.person} {{ name, {self.age}, color, friends: {{ name, @{self.since} }} }}', person_sh),
            (f'select {self.movie} {{ name, year, director: {{ name }}, actors: {{ {self.age} }} }}', movie_sh),
            ('select PT', ('NT', [(self.alias[0], ('S', 'std::int64')), (self.alias[1], ('S', 'std::str'))])),
            (f'select Named {{ name, [is {self.movie}].year }}',
             ('SH', 'default::Named', [('name',) + pm['name'][:2] + (False, False),
                                       ('year',) + pm['year'][:2] + (False, False)])),
            (f'select {{ e := {e0}, m := <{self.myint}>1 }}',
             ('SH', 'std::FreeObject', [('e', ONE, ('S', E), False, False), ('m', ONE, ('S', M), False, False)])),
        ]
        params = [
            (f'select (<{self.enum}>$c, <optional {self.myint}>$n, <array<{self.enum}>>$cs)',
             [('c', ONE, ('S', E)), ('n', OPT, ('S', M)), ('cs', ONE, ('A', ('S', E)))]),
        ]
        return out, params


def bq(name: str) -> str:
    import re
    return name if re.fullmatch(r'[a-z_][a-z0-9_]*', name) else '`' + name + '`'


class L2Gen:
    """queries with the description their output descriptor must carry:
    ('S', scalar name) | ('T', [t]) | ('NT', [(name, t)]) | ('A', t) | ('R', t) | ('SET', t) |
    ('SH', base type name, [(name, cardinality, t, is_link, is_linkprop)])"""
    CNAMES = ['a', 'b', 'c', 'a:b', 'b:c', 'x', 'y', 'x:y', 'y:z', 'z', 'first name', 'é']

    def __init__(self, rng, spec=None):
        self.rng = rng
        self.spec = spec or L2Spec()

    def scalar(self):
        sp = self.spec
        return self.rng.choice([
            ('1', ('S', 'std::int64'), ONE), ("'s'", ('S', 'std::str'), ONE), ('true', ('S', 'std::bool'), ONE),
            ('1.5', ('S', 'std::float64'), ONE), (f'<{sp.myint}>1', ('S', sp.tn(sp.myint)), ONE),
            (f'{sp.enum}.{sp.labels[0]}', ('S', sp.tn(sp.enum)), ONE), ('{1, 2}', ('S', 'std::int64'), ALO),
            ('<int64>{}', ('S', 'std::int64'), OPT), ('<int16>1', ('S', 'std::int16'), ONE),
            ('range(1, 5)', ('R', ('S', 'std::int64')), ONE), ('[1, 2]', ('A', ('S', 'std::int64')), ONE),
            ("['a']", ('A', ('S', 'std::str')), ONE), ('<uuid>"00000000-0000-0000-0000-000000000000"',
                                                         ('S', 'std::uuid'), ONE)])

    def names(self, k, colon):
        pool = self.CNAMES if colon else ['a', 'b', 'c', 'x', 'y', 'z', 'first name', 'é']
        out = []
        while len(out) < k:
            n = self.rng.choice(pool)
            if n not in out:
                out.append(n)
        return out

    def single(self, depth, colon):
        """an expression of cardinality ONE"""
        for _ in range(20):
            t = self.expr(depth, colon)
            if t[2] == ONE:
                return t
        return ('1', ('S', 'std::int64'), ONE)

    def expr(self, depth, colon):
        rng = self.rng
        r = rng.random()
        if depth <= 0 or r < 0.25:
            return self.scalar()
        if r < 0.55:
            k = rng.choice([2, 2, 3]) if colon else rng.choice([1, 2, 2, 3])
            els = [self.single(depth - 1, colon) if not colon else ('1', ('S', 'std::int64'), ONE) for _ in range(k)]
            if rng.random() < (0.9 if colon else 0.5):
                ns = self.names(k, colon)
                return ('(' + ', '.join(f'{bq(n)} := {e[0]}' for n, e in zip(ns, els)) + ')',
                        ('NT', [(n, e[1]) for n, e in zip(ns, els)]), ONE)
            if k == 1:
                return (f'({els[0][0]},)', ('T', [els[0][1]]), ONE)
            return ('(' + ', '.join(e[0] for e in els) + ')', ('T', [e[1] for e in els]), ONE)
        if r < 0.65:
            e = self.single(depth - 1, colon)
            if e[1][0] in ('SH', 'A'):
                return self.scalar()
            return (f'[{e[0]}]', ('A', e[1]), ONE)
        if r < 0.8:
            k = rng.randint(1, 3)
            ns = self.names(k, colon)
            els = [self.expr(depth - 1, colon) if not colon else ('1', ('S', 'std::int64'), ONE) for _ in range(k)]
            els = [e if e[1][0] != 'SH' else self.scalar() for e in els]
            return ('{' + ', '.join(f'{bq(n)} := {e[0]}' for n, e in zip(ns, els)) + '}',
                    ('SH', 'std::FreeObject', [(n, e[2], ('SET', e[1]) if e[2] in (MANY, ALO) else e[1], False, False)
                                               for n, e in zip(ns, els)]), ONE)
        return self.shape(rng.choice(self.spec.bases()), depth, colon)

    def shape(self, base, depth, colon, linkprops=False):
        rng = self.rng
        els, txt = [], []
        sp = self.spec
        ptrs = sp.ptrs(base)
        for nm in rng.sample(list(ptrs), rng.randint(1, len(ptrs))):
            card, t, link = ptrs[nm]
            if link:
                if depth <= 0:
                    continue
                sub = self.shape(t, depth - 1, False, linkprops=(base == sp.tn(sp.person) and nm == 'friends'))
                txt.append(f'{nm}: {sub[0][len(t.split("::")[1]) + 1:]}')
                st_ = sub[1]
                els.append((nm, card, ('SET', st_) if card in (MANY, ALO) else st_, True, False))
            else:
                txt.append(nm)
                els.append((nm, card, t, False, False))
        if linkprops and rng.random() < 0.7:
            txt.append('@' + sp.since)
            els.append((sp.since, OPT, ('S', 'std::str'), False, True))
        for n in self.names(rng.randint(0, 2), colon):
            if n in ptrs or n == sp.since:
                continue
            e = self.scalar() if colon or depth <= 0 else self.expr(depth - 1, False)
            if colon or e[1][0] == 'SH':
                e = ('1', ('S', 'std::int64'), ONE)
            txt.append(f'{bq(n)} := {e[0]}')
            els.append((n, e[2], ('SET', e[1]) if e[2] in (MANY, ALO) else e[1], e[1][0] == 'SH' and
                        e[1][1] != 'std::FreeObject', False))
        if not els:
            txt.append('name')
            els.append(('name',) + ptrs['name'][:2] + (False, False))
        # the descriptor lists link properties after the pointers of the object itself
        els = [e for e in els if not e[4]] + [e for e in els if e[4]]
        return (base.split('::')[1] + ' { ' + ', '.join(txt) + ' }', ('SH', base, els), MANY)


def l2_match(n: Node, exp, v2, facts, path='$'):
    """problems (strings) of a decoded description against the expected one"""
    k = exp[0]
    bad = []
    schema_ids, enum_labels = facts['schema_ids'], facts['enum_labels']
    if k == 'S':
        want = schema_ids[exp[1]]
        if n.id != want:
            bad.append(f'{path}: scalar id {n.id.hex()} is not {exp[1]}')
        if exp[1] in enum_labels:
            if n.kind != 'enum' or [x.decode() for x in n.payload] != enum_labels[exp[1]]:
                bad.append(f'{path}: enum labels {n.payload!r}')
        elif n.kind not in ('scalar', 'bscalar'):
            bad.append(f'{path}: {n.kind} where a scalar is expected')
        if v2 and (n.meta is None or n.meta[0].decode() != exp[1]):
            bad.append(f'{path}: type name {n.meta!r} is not {exp[1]}')
        if exp[1] in facts.get('ancestors', {}):
            want_anc = facts['ancestors'][exp[1]]
            if v2:
                got_anc = [c.meta[0].decode() if c.meta else '?' for c in n.post]
                if got_anc != want_anc:
                    bad.append(f'{path}: ancestors {got_anc} of {exp[1]}, schema says {want_anc}')
            elif n.kind == 'scalar' and (len(n.post) != 1 or n.post[0].id != schema_ids[want_anc[-1]]):
                bad.append(f'{path}: base type of {exp[1]} is not {want_anc[-1]}')
    elif k in ('A', 'R', 'MR', 'SET'):
        kind = {'A': 'array', 'R': 'range', 'MR': 'mrange', 'SET': 'set'}[k]
        if n.kind != kind or len(n.pre) != 1:
            bad.append(f'{path}: {n.kind} where {kind} is expected')
        else:
            bad += l2_match(n.pre[0], exp[1], v2, facts, path + '/' + kind)
    elif k == 'T':
        if n.kind != 'tuple' or len(n.pre) != len(exp[1]):
            bad.append(f'{path}: {n.kind}/{len(n.pre)} where a {len(exp[1])}-tuple is expected')
        else:
            for i, (c, e) in enumerate(zip(n.pre, exp[1])):
                bad += l2_match(c, e, v2, facts, f'{path}.{i}')
    elif k == 'NT':
        if n.kind != 'ntuple' or [x.decode() for x in n.payload] != [e[0] for e in exp[1]]:
            bad.append(f'{path}: {n.kind} {n.payload!r} where named tuple {[e[0] for e in exp[1]]} is expected')
        else:
            for c, (nm, e) in zip(n.pre, exp[1]):
                bad += l2_match(c, e, v2, facts, f'{path}.{nm}')
    elif k == 'SH':
        if n.kind != 'shape':
            return [f'{path}: {n.kind} where an object shape is expected']
        free = exp[1] == 'std::FreeObject'
        eph, els = n.payload
        if v2:
            if eph != free:
                bad.append(f'{path}: ephemeral_free_shape={eph} for {exp[1]}')
            if not eph and (not n.post or n.post[0].meta is None or n.post[0].meta[0].decode() != exp[1]):
                bad.append(f'{path}: object type of the shape is not {exp[1]}')
        explicit = [(e, c) for e, c in zip(els, n.pre) if not e[0] & 1]
        implicit = [e[2].decode() for e in els if e[0] & 1]
        if any(x not in ('id', '__tid__', '__tname__') for x in implicit):
            bad.append(f'{path}: implicit elements {implicit}')
        if [e[2].decode() for e, _ in explicit] != [x[0] for x in exp[2]]:
            bad.append(f'{path}: element names/order {[e[2].decode() for e, _ in explicit]} expected '
                       f'{[x[0] for x in exp[2]]}')
        else:
            for (e, c), (nm, card, t, link, lp) in zip(explicit, exp[2]):
                if e[1] != card:
                    bad.append(f'{path}.{nm}: cardinality {e[1]:#x} expected {card:#x}')
                if bool(e[0] & 4) != bool(link) or bool(e[0] & 2) != bool(lp):
                    bad.append(f'{path}.{nm}: flags {e[0]} (link={link}, linkprop={lp})')
                if isinstance(t, str):
                    continue
                bad += l2_match(c, t, v2, facts, f'{path}.{nm}')
    return bad


def l2_reid(n: Node, st, U, base_of, memo=None):
    """re-derive every content-derived id bottom-up with the REAL id functions;
    returns the list of nodes whose carried id differs"""
    bad = []
    C = st.enums.Cardinality
    for u in subtrees(n):
        subs = [U(c.id) for c in u.pre]
        if u.kind == 'set':
            want = {st._get_set_type_id(subs[0]).bytes}
        elif u.kind == 'tuple':
            want = {st._get_collection_type_id('tuple', subs).bytes}
        elif u.kind == 'ntuple':
            want = {st._get_collection_type_id('tuple', subs, [x.decode() for x in u.payload]).bytes}
        elif u.kind in ('array', 'range', 'mrange'):
            want = {st._get_collection_type_id({'mrange': 'multirange'}.get(u.kind, u.kind), subs).bytes}
        elif u.kind == 'shape' and (u.post or u.payload[0]):
            base = 'std::FreeObject' if u.payload[0] else u.post[0].meta[0].decode()
            els = u.payload[1]
            srcs = None
            if u.post and any(x.id != u.post[0].id for x in u.post[1:]):
                srcs = [U(x.id) for x in u.post[1:]]
            want = {st._get_object_shape_id(base, subs, [e[2].decode() for e in els], [C(e[1]) for e in els],
                                            links_props=[bool(e[0] & 2) for e in els],
                                            links=[bool(e[0] & 4) for e in els], has_implicit_fields=b,
                                            sources=srcs).bytes
                    for b in (False, True)}
        else:
            continue
        if u.id not in want:
            bad.append(f'{u.kind} {u.id.hex()} is not the id of its components')
    return bad
