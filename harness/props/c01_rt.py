"""C01 round-trip oracle on the REAL parser stack (bridge) + REAL printer.

    a1 = parse(t); p1 = print(a1); a2 = parse(p1) must succeed, canon(a2) == canon(a1);
    p2 = print(a2) must equal p1 byte for byte.

`canon` is a structural dump of a qlast tree: class name + every field except
`span` (and `system_comment`, a hidden, never-parsed field), recursively.
"""
from __future__ import annotations

import ast as pyast
import enum
import json
import os
import re

from lib import core

ENTRIES = ('block', 'sdl', 'fragment', 'migration', 'extension')


def _mods():
    from edb.edgeql import parser as qlparser, codegen as qlcodegen, ast as qlast
    from edb.common.ast import base as astbase
    return qlparser, qlcodegen, qlast, astbase


class LexerPanic(Exception):
    """the real tokenizer process died on this input (a Rust panic); the process is restarted"""


LEXER_PANICS: list = []          # inputs on which the real tokenizer crashed (reported in the evidence)


def parse(entry: str, text: str):
    try:
        return _parse(entry, text)
    except Exception as e:
        from bridge import native as _native
        if isinstance(e, _native.LexerCrash):
            # bridge.native has already reaped the dead tokenizer process
            if text not in LEXER_PANICS:
                LEXER_PANICS.append(text)
            raise LexerPanic('the tokenizer process crashed on this input') from None
        if not (isinstance(e, core.Infra) and 'edb_lex died' in str(e)):
            raise
        # bridge.native restarts the tokenizer process on its next use -- but only once the dying process
        # (slow: it prints a symbolised backtrace) has been reaped; until then `poll()` is None and every
        # following input would be fed to the corpse.  Reap it here.
        try:
            from bridge import native
            lx = native._LEXER
            with lx.lock:
                if lx.proc is not None:
                    try:
                        lx.proc.kill()
                        lx.proc.wait(timeout=10)
                    except Exception:
                        pass
                    lx.proc = None
        except Exception:
            pass
        if text not in LEXER_PANICS:
            LEXER_PANICS.append(text)
        raise LexerPanic('the tokenizer process crashed on this input') from None


def safe_lex_many(texts):
    """rustlex.lex_many that survives a tokenizer crash: the batch is bisected, the crashing inputs get
    LexResult([], 'PANIC')."""
    from lib import rustlex
    texts = list(texts)
    try:
        return rustlex.lex_many(texts)
    except core.Infra as e:
        if 'edb_lex failed' not in str(e):
            raise
        if len(texts) == 1:
            if texts[0] not in LEXER_PANICS:
                LEXER_PANICS.append(texts[0])
            return [rustlex.LexResult([], 'PANIC')]
        mid = len(texts) // 2
        return safe_lex_many(texts[:mid]) + safe_lex_many(texts[mid:])


def _parse(entry: str, text: str):
    qlparser = _mods()[0]
    if entry == 'block':
        return qlparser.parse_block(text)
    if entry == 'sdl':
        return qlparser.parse_sdl(text)
    if entry == 'fragment':
        return qlparser.parse_fragment(text)
    if entry == 'migration':
        return qlparser.parse_migration_body_block(text)
    if entry == 'extension':
        return qlparser.parse_extension_package_body_block(text)
    raise ValueError(entry)


SET_LIKE_FIELDS = ('kinds', 'access_kinds')      # printed in canonical enum order by design


def canon(x, sort_cmds=False):
    """structural dump (JSON-able) ignoring span/system_comment.

    * `NestedQLBlock.text` (the source slice of a migration / extension body) is layout, not
      structure: dropped, the parsed `commands` next to it are compared;
    * access-policy / trigger / rewrite `kinds` are sets (the printer emits enum order);
    * sort_cmds: `commands` / `declarations` lists compared as multisets (used only for the
      printer's *sorted* SDL mode, where re-ordering is the documented behaviour)."""
    _, _, qlast, astbase = _mods()
    if isinstance(x, qlast.Base):
        out = {'#': type(x).__name__}
        for name, val in astbase.iter_fields(x, include_meta=True):
            if name in ('span', 'system_comment'):
                continue
            if name == 'text' and isinstance(x, qlast.NestedQLBlock):
                continue
            if name in SET_LIKE_FIELDS and isinstance(val, (list, tuple)):
                out[name] = sorted({canon(v) for v in val})
                continue
            if name == 'name' and type(x).__name__.endswith('Rewrite') and isinstance(val, qlast.ObjectRef):
                # the name of a rewrite is derived from its kinds ('Insert/Update'): same set-like treatment
                c = canon(val)
                c['name'] = '/'.join(sorted(c['name'].split('/')))
                out[name] = c
                continue
            c = canon(val, sort_cmds)
            if sort_cmds and name in ('commands', 'declarations') and isinstance(c, list):
                c = sorted(c, key=lambda v: json.dumps(v, sort_keys=True, default=repr))
            out[name] = c
        return out
    if isinstance(x, (list, tuple)):
        return [canon(v, sort_cmds) for v in x]
    if isinstance(x, dict):
        return {'#dict': [[canon(k), canon(v, sort_cmds)] for k, v in x.items()]}
    if isinstance(x, (set, frozenset)):
        return {'#set': sorted((canon(v) for v in x), key=repr)}
    if isinstance(x, enum.Enum):
        return f'{type(x).__name__}.{x.name}'
    if isinstance(x, bytes):
        return {'#bytes': x.hex()}
    if isinstance(x, float):
        return {'#float': repr(x)}
    if x is None or isinstance(x, (str, int, bool)):
        return x
    return {'#repr': repr(x)}


def first_diff(a, b, path='') -> str:
    """human-readable first difference of two canon() values."""
    if type(a) is not type(b):
        return f'{path}: {_short(a)} != {_short(b)}'
    if isinstance(a, dict):
        if a.get('#') != b.get('#'):
            return f'{path}: node {a.get("#")} != {b.get("#")}'
        for k in list(a) + [k for k in b if k not in a]:
            if k not in a or k not in b:
                return f'{path}.{k}: present on one side only'
            if a[k] != b[k]:
                return first_diff(a[k], b[k], f'{path}.{k}')
        return ''
    if isinstance(a, list):
        if len(a) != len(b):
            return f'{path}: length {len(a)} != {len(b)}'
        for i, (x, y) in enumerate(zip(a, b)):
            if x != y:
                return first_diff(x, y, f'{path}[{i}]')
        return ''
    return '' if a == b else f'{path}: {_short(a)} != {_short(b)}'


def _short(x):
    s = repr(x)
    return s if len(s) < 120 else s[:117] + '...'


def printer(entry: str, tree, opts: dict) -> str:
    qlcodegen = _mods()[1]
    opts = {k: v for k, v in opts.items() if not k.startswith('_')}
    if entry in ('migration', 'extension'):
        # (NestedQLBlock, [SetField]) -- printed the way visit_CreateMigration prints a
        # parsed body: fields first, then commands, one per line with ';'
        body, fields = tree
        parts = [qlcodegen.generate_source(c, **opts) + ';' for c in [*fields, *body.commands]]
        return '\n'.join(parts)
    if entry == 'block':
        return '\n'.join(qlcodegen.generate_source(t, **opts) + ';' for t in tree)
    return qlcodegen.generate_source(tree, **opts)


def canon_tree(entry: str, tree, sort_cmds=False):
    if entry in ('migration', 'extension'):
        body, fields = tree
        return [canon(body, sort_cmds), canon(fields, sort_cmds)]
    return canon(tree, sort_cmds)


class RT:
    """result of one round trip"""
    __slots__ = ('status', 'stage', 'p1', 'p2', 'err', 'diff', 'a1')

    def __init__(self, status, stage='', p1=None, p2=None, err='', diff='', a1=None):
        self.status, self.stage, self.p1, self.p2, self.err, self.diff, self.a1 = \
            status, stage, p1, p2, err, diff, a1


def _errstr(e: BaseException) -> str:
    return f'{type(e).__name__}: {str(e)[:300]}'


def roundtrip_tree(entry: str, a1, opts: dict, c1=None) -> RT:
    """print/re-parse/compare starting from a tree."""
    sc = bool(opts.get('_sortcmp'))
    try:
        c1 = canon_tree(entry, a1, sc) if c1 is None else c1
        p1 = printer(entry, a1, opts)
    except Exception as e:      # printer crashed on an AST the parser produced
        return RT('print-crash', 'print1', err=_errstr(e), a1=a1)
    try:
        a2 = parse(entry, p1)
    except Exception as e:
        return RT('reparse-fail', 'parse2', p1=p1, err=_errstr(e), a1=a1)
    c2 = canon_tree(entry, a2, sc)
    if c1 != c2:
        return RT('ast-diff', 'compare', p1=p1, diff=first_diff(c1, c2), a1=a1)
    try:
        p2 = printer(entry, a2, opts)
    except Exception as e:
        return RT('print-crash', 'print2', p1=p1, err=_errstr(e), a1=a1)
    if p2 != p1:
        return RT('text-diff', 'print2', p1=p1, p2=p2, a1=a1)
    return RT('ok', p1=p1, a1=a1)


def roundtrip_text(entry: str, text: str, opts: dict) -> RT:
    try:
        a1 = parse(entry, text)
    except Exception as e:
        return RT('rejected', 'parse1', err=_errstr(e))
    return roundtrip_tree(entry, a1, opts)


# ---------------------------------------------------------------- upstream corpora
def docstring_cases(path: str):
    """(name, source, must_fail) for every test docstring of an upstream syntax test file."""
    src = open(path).read()
    mod = pyast.parse(src)
    for cls in mod.body:
        if not isinstance(cls, pyast.ClassDef):
            continue
        for fn in cls.body:
            if not isinstance(fn, pyast.FunctionDef) or not fn.name.startswith('test_'):
                continue
            doc = pyast.get_docstring(fn, clean=False)
            if doc is None:
                continue
            must_fail = any('must_fail' in pyast.unparse(d) for d in fn.decorator_list)
            # upstream (DocTestMeta): doc.partition('\n% OK %'); both halves are EdgeQL text
            source, _, output = doc.partition('\n% OK %')
            yield (f'{fn.name}#0', source, must_fail)
            if output.strip():
                yield (f'{fn.name}#1', output, must_fail)


def file_cases(root: str, exts=('.edgeql', '.esdl', '.gel')):
    for dp, dn, fns in os.walk(root):
        dn.sort()
        for fn in sorted(fns):
            if fn.endswith(exts):
                p = os.path.join(dp, fn)
                try:
                    yield (os.path.relpath(p, core.REPO), open(p).read())
                except UnicodeDecodeError:
                    continue
