"""C12 — statically inferred result types match evaluated values.

Proof: lean/EdbVerif/Props/C12.lean over Model/Types.lean + Model/TypesQL.lean and the
tables of Gen/Types.lean, which are REGENERATED from the real std schema first.

Tie (all on the real code, through the front-end bridge):
  L1  scalar level — for every pair of universe scalars AND of the user scalars of the harness schema
      (derived, sibling, second-level derived, constrained str, enum) the real
      `casts.get_implicit_cast_distance`, `implicitly_castable_to`,
      `find_common_implicitly_castable_type` vs the model (`dist`, `common`, `cset`);
      random tuple / array types built with the real `Tuple.create` / `Array.create`.
  L2a every operator of the table x every pair of numeric scalars (and a slice of the
      non-numeric pairs), every selected function x every scalar / array argument:
      `compile_ast_to_ir('select <A>{} op <B>{}').stype` vs the model's `resolve`.
  L2b generated MiniQL queries: `ir.stype` vs `inferType`; the output type descriptor of the
      server compiler (decoded with the real `sertypes.parse`) vs `ir.stype` and vs the
      model's shape element types; values of `toy_eval_model` on a matching database,
      classified by Python type, must inhabit the REAL inferred type (oracle S).
"""
from __future__ import annotations

import decimal
import json
import os
import uuid

from lib import core

PROPS = 'EdbVerif/Props/C12.lean'
# scalarTable, distTable, numericTable, compareTable, recursiveTable, resultTags:
# `decide +kernel` over Gen/Types.lean
GEN_TABLE_THEOREMS = 6
REQUIRED = [
    'EdbVerif.C12.common_lub', 'EdbVerif.C12.common_lub_plain', 'EdbVerif.C12.common_value_sound',
    'EdbVerif.C12.common_same_base', 'EdbVerif.C12.tuple_arity', 'EdbVerif.C12.common_set_order_irrelevant',
    'EdbVerif.C12.castDist_shortest_path',
    'EdbVerif.C12.resolve_det',
    'EdbVerif.C12.numeric_table', 'EdbVerif.C12.arith_overloads_closed', 'EdbVerif.C12.C12_sound_partial',
    'EdbVerif.C12.C12_shape',
]

SDL = '''
scalar type myint extending int64 { constraint max_value(100); }
scalar type yourint extending int64 { constraint min_value(-100); }
scalar type posint extending myint { constraint min_value(0); }
scalar type tinystr extending str { constraint max_len_value(3); }
scalar type Color extending enum<Red, Green, Blue>;
type Item {
  required name: str;
  required n16: int16;
  n32: int32;
  required n64: int64;
  f32: float32;
  f64: float64;
  dec: decimal;
  big: bigint;
  flag: bool;
  multi tags: str;
  multi link others: Item;
  link owner: Person;
  mi: myint;
  yi: yourint;
  pi: posint;
  ts: tinystr;
  col: Color;
}
type Person {
  required name: str;
  age: int32;
  multi link items: Item;
}
'''
# object types / pointers in protocol order
OBJ = ['Item', 'Person']
PTRS = {
    0: [('name', ('S', 'str')), ('n16', ('S', 'int16')), ('n32', ('S', 'int32')), ('n64', ('S', 'int64')),
        ('f32', ('S', 'float32')), ('f64', ('S', 'float64')), ('dec', ('S', 'decimal')),
        ('big', ('S', 'bigint')), ('flag', ('S', 'bool')), ('tags', ('S', 'str')),
        ('others', ('O', 0)), ('owner', ('O', 1)),
        ('mi', ('U', 'myint')), ('yi', ('U', 'yourint')), ('pi', ('U', 'posint')), ('ts', ('U', 'tinystr')),
        ('col', ('U', 'Color'))],
    1: [('name', ('S', 'str')), ('age', ('S', 'int32')), ('items', ('O', 0))],
}
NUMERIC = ['int16', 'int32', 'int64', 'float32', 'float64', 'bigint', 'decimal']
# user scalars of SDL: name -> {'id', 'chain', 'base' (Lean ident of the concrete std base | None), 'enum'};
# filled from the REAL harness schema by gen.types.user_scalars.  ('U', name) is a user scalar type.
USER: dict = {}
# what a value of a user scalar must satisfy beyond inhabiting its base (the schema's constraints)
CONSTRAINT = {
    'myint': lambda v: v <= 100,
    'yourint': lambda v: v >= -100,
    'posint': lambda v: 0 <= v <= 100,
    'tinystr': lambda v: len(v) <= 3,
}


# ------------------------------------------------------------------ type <-> protocol
def ty_enc(t) -> str:
    k = t[0]
    if k == 'S':
        return f'S {t[1]}'
    if k == 'U':
        u = USER[t[1]]
        if u['enum'] is not None:
            return f"E {u['id']}"
        return f"D {len(u['chain'])} " + ' '.join(map(str, u['chain'])) + f" {u['base']}"
    if k == 'O':
        return f'O {t[1]}'
    if k == 'A':
        return 'A ' + ty_enc(t[1])
    if k == 'T':
        return f'T {len(t[1])}' + ''.join(' ' + ty_enc(x) for x in t[1])
    if k == 'N':
        # the Lean model has unnamed tuples only: element names are ERASED for the model (they are
        # checked on the real side: descriptor vs stype, operand-castability oracle, value oracle)
        return f'T {len(t[1])}' + ''.join(' ' + ty_enc(x) for _, x in t[1])
    raise ValueError(t)


SCALAR_QL: dict = {}      # Lean identifier -> qualified name, filled from the generated tables


def scalar_ql(ident: str) -> str:
    return SCALAR_QL.get(ident, 'std::' + ident)


def ty_ql(t) -> str:
    k = t[0]
    if k == 'S':
        return scalar_ql(t[1])
    if k == 'U':
        return 'default::' + t[1]
    if k == 'O':
        return 'default::' + OBJ[t[1]]
    if k == 'A':
        return f'array<{ty_ql(t[1])}>'
    if k == 'T':
        return 'tuple<' + ', '.join(ty_ql(x) for x in t[1]) + '>'
    if k == 'N':
        return 'tuple<' + ', '.join(f'{n}: {ty_ql(x)}' for n, x in t[1]) + '>'
    raise ValueError(t)


def ty_show(t) -> str:
    """full display (with tuple element names) for reports"""
    k = t[0]
    if k == 'N':
        return 'tuple<' + ', '.join(f'{n}: {ty_show(x)}' for n, x in t[1]) + '>'
    if k == 'T':
        return 'tuple<' + ', '.join(ty_show(x) for x in t[1]) + '>'
    if k == 'A':
        return f'array<{ty_show(t[1])}>'
    return ty_ql(t)


# messages of the rejections that are typing decisions (everything else a query can be rejected for
# — scope, multiplicity of computed links, … — is outside C12 and is only tallied)
TYPING_REJECTION = __import__('re').compile(
    r'cannot be applied to operands|does not exist|could not determine array type|cannot cast|'
    r'nested arrays are not supported|incompatible types|is ambiguous|is not unique|could not resolve|'
    r'cannot determine common type|expression returns value of indeterminate type')


class Unsupported(Exception):
    pass


def real_ty(t, schema, gen):
    """a real schema type -> protocol Ty (raises Unsupported outside the model's universe)"""
    from edb.schema import types as s_types, scalars as s_scalars, objtypes as s_objtypes
    if isinstance(t, s_types.Tuple):
        if t.is_named(schema):
            return ('N', [(n, real_ty(x, schema, gen)) for n, x in t.iter_subtypes(schema)])
        return ('T', [real_ty(x, schema, gen) for x in t.get_subtypes(schema)])
    if isinstance(t, s_types.Array):
        return ('A', real_ty(t.get_element_type(schema), schema, gen))
    if isinstance(t, s_scalars.ScalarType):
        n = str(t.get_name(schema))
        if n in gen['universe']:
            return ('S', gen['ident'][n])
        if n.startswith('default::') and n[9:] in USER:
            return ('U', n[9:])
        raise Unsupported(n)
    if isinstance(t, s_objtypes.ObjectType):
        _, m = t.material_type(schema)
        n = str(m.get_name(schema))
        if n.startswith('default::') and n[9:] in OBJ:
            return ('O', OBJ.index(n[9:]))
        raise Unsupported(n)
    raise Unsupported(type(t).__name__)


def desc_ty(d, gen):
    """a decoded output type descriptor -> (protocol Ty, shape element types or None)"""
    from edb.server.compiler import sertypes
    if isinstance(d, sertypes.ShapeDesc):
        n = d.type.name if d.type is not None else None
        if n is None or not n.startswith('default::') or n[9:] not in OBJ:
            raise Unsupported(f'shape of {n}')
        els = {k: desc_ty(v, gen)[0] for k, v in d.fields.items() if not (d.flags[k] & 1)}
        return ('O', OBJ.index(n[9:])), els
    if isinstance(d, sertypes.TupleDesc):
        return ('T', [desc_ty(x, gen)[0] for x in d.fields]), None
    if isinstance(d, sertypes.NamedTupleDesc):
        return ('N', [(n, desc_ty(x, gen)[0]) for n, x in d.fields.items()]), None
    if isinstance(d, sertypes.ArrayDesc):
        return ('A', desc_ty(d.subtype, gen)[0]), None
    if isinstance(d, (sertypes.BaseScalarDesc, sertypes.EnumDesc)):
        if d.name in gen['universe']:
            return ('S', gen['ident'][d.name]), None
        if d.name and d.name.startswith('default::') and d.name[9:] in USER:
            return ('U', d.name[9:]), None
        raise Unsupported(d.name)
    raise Unsupported(type(d).__name__)


# ------------------------------------------------------------------ queries: print + encode
def balance(elems):
    """expr.py::_balance: the UNION tree the compiler builds for a set constructor"""
    if len(elems) == 1:
        return elems[0]
    mid = len(elems) // 2
    return ('ca', 'op_union', [balance(elems[:mid]), balance(elems[mid:])])


def q_enc(q) -> str:
    k = q[0]
    if k in ('li', 'ln'):
        return f'{k} {q[1]}'
    if k in ('lf', 'ld'):
        return f'{k} {q[1]} {q[2]}'
    if k == 'ls':
        return f'ls {q[1] or "-"}'
    if k == 'lb':
        return f'lb {1 if q[1] else 0}'
    if k == 'em':
        return 'em ' + ty_enc(q[1])
    if k in ('tu', 'ar'):
        return f'{k} {len(q[1])}' + ''.join(' ' + q_enc(x) for x in q[1])
    if k == 'nt':       # named tuple literal: names erased for the model
        return f'tu {len(q[1])}' + ''.join(' ' + q_enc(x) for _, x in q[1])
    if k == 'set':
        return q_enc(balance(q[1]))
    if k == 'ca':
        return f'ca {q[1]} {len(q[2])}' + ''.join(' ' + q_enc(x) for x in q[2])
    if k == 'cs':
        return f'cs {ty_enc(q[1])} {q_enc(q[2])}'
    if k == 'va':
        return f'va {q[1]}'
    if k in ('fo', 'fi'):
        return f'{k} {q_enc(q[1])} {q_enc(q[2])}'
    if k == 'ob':
        return f'ob {q[1]}'
    if k == 'pa':
        return f'pa {q_enc(q[1])} {q[2]}'
    if k == 'sh':
        return f'sh {q_enc(q[1])} {len(q[2])}' + ''.join(' ' + q_enc(x) for x in q[2])
    raise ValueError(q)


def frac(n, d) -> str:
    """n/(d+1) as a decimal literal (d+1 is a power of ten or 2, 4, 5, 8 in the generator)"""
    v = decimal.Decimal(n) / decimal.Decimal(d + 1)
    s = format(v, 'f')
    return s if '.' in s else s + '.0'


INFIX = {'op_plus': '+', 'op_minus': '-', 'op_times': '*', 'op_div': '/', 'op_floordiv': '//',
         'op_mod': '%', 'op_pow': '^', 'op_eq': '=', 'op_ne': '!=', 'op_lt': '<', 'op_le': '<=',
         'op_gt': '>', 'op_ge': '>=', 'op_opteq': '?=', 'op_optne': '?!=', 'op_concat': '++',
         'op_and': 'and', 'op_or': 'or', 'op_union': 'union', 'op_coalesce': '??', 'op_in': 'in',
         'op_not_in': 'not in', 'op_except': 'except', 'op_intersect': 'intersect',
         'op_like': 'like', 'op_ilike': 'ilike'}
PREFIX = {'op_not': 'not', 'op_exists': 'exists', 'op_distinct': 'distinct',
          'op_plus': '+', 'op_minus': '-'}


def fn_ql(ident: str) -> str:
    n = ident[3:]
    # std functions unqualified: toy_eval_model keys its primitives by the bare name
    return 'math::' + n[5:] if n.startswith('math_') else n


def q_ql(q, names=()) -> str:
    """EdgeQL text; `names` = variable names, innermost first"""
    k = q[0]
    if k == 'li':
        return str(q[1]) if q[1] >= 0 else f'(-{-q[1]})'
    if k == 'ln':
        return f'{q[1]}n' if q[1] >= 0 else f'(-{-q[1]}n)'
    if k == 'lf':
        s = frac(abs(q[1]), q[2])
        return s if q[1] >= 0 else f'(-{s})'
    if k == 'ld':
        s = frac(abs(q[1]), q[2]) + 'n'
        return s if q[1] >= 0 else f'(-{s})'
    if k == 'ls':
        return "'" + q[1] + "'"
    if k == 'lb':
        return 'true' if q[1] else 'false'
    if k == 'em':
        return f'<{ty_ql(q[1])}>{{}}'
    if k == 'tu':
        xs = [q_ql(x, names) for x in q[1]]
        return '(' + ', '.join(xs) + (',)' if len(xs) == 1 else ')')
    if k == 'nt':
        return '(' + ', '.join(f'{n} := {q_ql(x, names)}' for n, x in q[1]) + ')'
    if k == 'ar':
        return '[' + ', '.join(q_ql(x, names) for x in q[1]) + ']'
    if k == 'set':
        return '{' + ', '.join(q_ql(x, names) for x in q[1]) + '}'
    if k == 'ca':
        f, args = q[1], [q_ql(x, names) for x in q[2]]
        if f == 'op_if':
            return f'(({args[0]}) if ({args[1]}) else ({args[2]}))'
        if f in PREFIX and len(args) == 1:
            return f'({PREFIX[f]} ({args[0]}))'
        if f in INFIX and len(args) == 2:
            return f'(({args[0]}) {INFIX[f]} ({args[1]}))'
        if f.startswith('fn_'):
            return f'{fn_ql(f)}(' + ', '.join(f'({a})' for a in args) + ')'
        raise ValueError(q)
    if k == 'cs':
        return f'(<{ty_ql(q[1])}>({q_ql(q[2], names)}))'
    if k == 'va':
        return names[q[1]]
    if k == 'fo':
        v = f'x{len(names)}'
        return f'(for {v} in ({q_ql(q[1], names)}) union ({q_ql(q[2], (v,) + names)}))'
    if k == 'fi':
        v = f'x{len(names)}'
        return (f'(for {v} in ({q_ql(q[1], names)}) union '
                f'(select {v} filter ({q_ql(q[2], (v,) + names)})))')
    if k == 'ob':
        return f'(select {OBJ[q[1]]})'
    if k == 'pa':
        src = q[1]
        # pointer names are resolved by the generator-provided source type
        return f'({q_ql(src, names)}).{q[3]}'
    if k == 'sh':
        v = f'x{len(names)}'
        els = ', '.join(f'e{i} := ({q_ql(e, (v,) + names)})' for i, e in enumerate(q[2]))
        return f'(for {v} in ({q_ql(q[1], names)}) union ({v} {{ {els} }}))'
    raise ValueError(q)


# ------------------------------------------------------------------ generator
class Gen:
    """Bottom-up random generator with APPROXIMATE type tracking (only used to steer towards
    mostly-well-typed queries; the truth is whatever the two compilers say)."""

    def __init__(self, rng, edges):
        self.rng = rng
        self.up = {}
        for a, b in edges:
            self.up.setdefault(a, set()).add(b)

    def reach(self, a):
        seen, todo = {a}, [a]
        while todo:
            x = todo.pop()
            for y in self.up.get(x, ()):
                if y not in seen:
                    seen.add(y)
                    todo.append(y)
        return seen

    def lub(self, a, b):
        if a == b:
            return a
        common = self.reach(a) & self.reach(b)
        for c in common:
            if common <= self.reach(c):
                return c
        return None

    def lub_ty(self, a, b):
        if a is None or b is None or a[0] != b[0]:
            return None
        if a[0] == 'S':
            c = self.lub(a[1], b[1])
            return ('S', c) if c else None
        if a[0] == 'O':
            return a if a == b else None
        if a[0] == 'A':
            c = self.lub_ty(a[1], b[1])
            return ('A', c) if c else None
        if len(a[1]) != len(b[1]):
            return None
        cs = [self.lub_ty(x, y) for x, y in zip(a[1], b[1])]
        return None if None in cs else ('T', cs)

    # leaves -----------------------------------------------------------------
    def num_leaf(self, env, want=None):
        r = self.rng
        t = want or r.choice(NUMERIC)
        # a variable / property of that type
        opts = []
        for i, vt in enumerate(env):
            if vt == ('S', t):
                opts.append((('va', i), vt))
            if vt[0] == 'O':
                for p, (pn, pt) in enumerate(PTRS[vt[1]]):
                    if pt == ('S', t) and pn != 'tags':
                        opts.append((('pa', ('va', i), p, pn), pt))
        if r.random() < 0.45:
            for p, (pn, pt) in enumerate(PTRS[0]):
                if pt == ('S', t):
                    opts.append((('pa', ('ob', 0), p, pn), pt))
        if t == 'int64' and r.random() < 0.35:
            # properties of user scalars derived from int64 (approximate type: the base)
            for p, pn in ((12, 'mi'), (13, 'yi'), (14, 'pi')):
                opts.append((('pa', ('ob', 0), p, pn), ('S', 'int64')))
        if opts and r.random() < 0.6:
            return r.choice(opts)
        n = r.choice([0, 1, 2, 3, 7, 10, -1, -4])
        if t == 'int64':
            return ('li', n), ('S', t)
        if t == 'float64':
            return ('lf', n * r.choice([1, 5, 25]), r.choice([0, 1, 9])), ('S', t)
        if t == 'bigint':
            return ('ln', n), ('S', t)
        if t == 'decimal':
            return ('ld', n * r.choice([1, 5]), r.choice([0, 9, 99])), ('S', t)
        if t in ('int16', 'int32'):
            return ('cs', ('S', t), ('li', abs(n))), ('S', t)
        return ('cs', ('S', t), ('lf', abs(n) * 5, 1)), ('S', t)       # float32

    def num(self, d, env):
        r = self.rng
        if d <= 0 or r.random() < 0.25:
            return self.num_leaf(env)
        c = r.random()
        if c < 0.5:
            op = r.choice(['op_plus', 'op_minus', 'op_times', 'op_div', 'op_floordiv', 'op_mod', 'op_pow',
                           'op_plus', 'op_times'])
            (a, ta), (b, tb) = self.num(d - 1, env), self.num(d - 1, env)
            t = self.lub_ty(ta, tb)
            if t and op in ('op_div', 'op_pow') and t[1] in ('int16', 'int32', 'int64'):
                t = ('S', 'float64')
            return ('ca', op, [a, b]), t
        if c < 0.56:
            a, ta = self.num(d - 1, env)
            return ('ca', r.choice(['op_minus', 'op_plus', 'fn_math_abs']), [a]), ta
        if c < 0.66:
            a, ta = self.num(d - 1, env)
            f = r.choice(['fn_sum', 'fn_min', 'fn_max', 'fn_math_mean'])
            return ('ca', f, [a]), (ta if f in ('fn_min', 'fn_max') else None)
        if c < 0.72:
            a, _ = self.anyq(d - 1, env)
            return ('ca', 'fn_count', [a]), ('S', 'int64')
        if c < 0.77:
            a, _ = (self.string(d - 1, env) if r.random() < 0.5 else self.array(d - 1, env))
            return ('ca', 'fn_len', [a]), ('S', 'int64')
        if c < 0.84:
            (a, ta), (b, tb) = self.num(d - 1, env), self.num(d - 1, env)
            cnd, _ = self.boolean(d - 1, env)
            return ('ca', 'op_if', [a, cnd, b]), self.lub_ty(ta, tb)
        if c < 0.90:
            (a, ta), (b, tb) = self.num(d - 1, env), self.num(d - 1, env)
            return ('ca', 'op_coalesce', [a, b]), self.lub_ty(ta, tb)
        if c < 0.95:
            xs = [self.num(d - 1, env) for _ in range(r.randint(2, 4))]
            t = xs[0][1]
            for _, tx in xs[1:]:
                t = self.lub_ty(t, tx)
            return ('set', [x for x, _ in xs]), t
        a, ta = self.array(d - 1, env, elem='num')
        return ('ca', 'fn_array_unpack', [a]), (ta[1] if ta else None)

    def string(self, d, env):
        r = self.rng
        if d <= 0 or r.random() < 0.35:
            opts = [(('ls', r.choice(['a', 'bc', 'Foo', ''])), ('S', 'str'))]
            for i, vt in enumerate(env):
                if vt == ('S', 'str'):
                    opts.append((('va', i), vt))
                if vt[0] == 'O':
                    opts.append((('pa', ('va', i), 0, 'name'), ('S', 'str')))
            opts.append((('pa', ('ob', r.choice([0, 1])), 0, 'name'), ('S', 'str')))
            opts.append((('pa', ('ob', 0), 9, 'tags'), ('S', 'str')))
            if r.random() < 0.25:
                opts.append((('pa', ('ob', 0), 15, 'ts'), ('S', 'str')))
            return r.choice(opts)
        c = r.random()
        if c < 0.4:
            (a, _), (b, _) = self.string(d - 1, env), self.string(d - 1, env)
            return ('ca', 'op_concat', [a, b]), ('S', 'str')
        if c < 0.6:
            a, _ = self.string(d - 1, env)
            return ('ca', r.choice(['fn_str_lower', 'fn_str_upper']), [a]), ('S', 'str')
        if c < 0.8:
            a, _ = (self.num(d - 1, env) if r.random() < 0.7 else self.boolean(d - 1, env))
            return ('cs', ('S', 'str'), a), ('S', 'str')
        (a, _), (b, _) = self.string(d - 1, env), self.string(d - 1, env)
        return ('ca', r.choice(['op_coalesce', 'op_union']), [a, b]), ('S', 'str')

    def boolean(self, d, env):
        r = self.rng
        if d <= 0 or r.random() < 0.2:
            opts = [(('lb', r.random() < 0.5), ('S', 'bool')),
                    (('pa', ('ob', 0), 8, 'flag'), ('S', 'bool'))]
            for i, vt in enumerate(env):
                if vt == ('O', 0):
                    opts.append((('pa', ('va', i), 8, 'flag'), ('S', 'bool')))
            return r.choice(opts)
        c = r.random()
        B = ('S', 'bool')
        if c < 0.45:
            op = r.choice(['op_eq', 'op_ne', 'op_lt', 'op_le', 'op_gt', 'op_ge', 'op_opteq', 'op_optne'])
            k = r.random()
            if k < 0.6:
                (a, _), (b, _) = self.num(d - 1, env), self.num(d - 1, env)
            elif k < 0.75:
                (a, _), (b, _) = self.string(d - 1, env), self.string(d - 1, env)
            elif k < 0.9:
                (a, _), (b, _) = self.tup(d - 1, env), self.tup(d - 1, env)
            else:
                (a, _), (b, _) = self.array(d - 1, env), self.array(d - 1, env)
            return ('ca', op, [a, b]), B
        if c < 0.6:
            (a, _), (b, _) = self.boolean(d - 1, env), self.boolean(d - 1, env)
            return ('ca', r.choice(['op_and', 'op_or']), [a, b]), B
        if c < 0.68:
            a, _ = self.boolean(d - 1, env)
            return ('ca', 'op_not', [a]), B
        if c < 0.78:
            a, _ = self.anyq(d - 1, env)
            return ('ca', 'op_exists', [a]), B
        if c < 0.92:
            (a, _), (b, _) = ((self.num(d - 1, env), self.num(d - 1, env)) if r.random() < 0.7
                              else (self.string(d - 1, env), self.string(d - 1, env)))
            return ('ca', r.choice(['op_in', 'op_not_in']), [a, b]), B
        a, _ = self.boolean(d - 1, env)
        return ('ca', r.choice(['fn_all', 'fn_any']), [a]), B

    def tup(self, d, env):
        r = self.rng
        n = r.randint(1, 3)
        xs = [self.scalarish(d - 1, env) for _ in range(n)]
        ts = [t for _, t in xs]
        return ('tu', [x for x, _ in xs]), (None if None in ts else ('T', ts))

    def array(self, d, env, elem=None):
        r = self.rng
        c = r.random()
        if d > 0 and c < 0.2:
            a, ta = (self.num(d - 1, env) if (elem == 'num' or r.random() < 0.7) else self.string(d - 1, env))
            return ('ca', 'fn_array_agg', [a]), (('A', ta) if ta else None)
        if d > 0 and c < 0.35:
            (a, ta), (b, tb) = self.array(d - 1, env, elem), self.array(d - 1, env, elem)
            return ('ca', 'op_concat', [a, b]), self.lub_ty(ta, tb)
        kind = elem or r.choice(['num', 'num', 'str', 'tup'])
        n = r.randint(1, 3)
        if kind == 'num':
            xs = [self.num(d - 1, env) for _ in range(n)]
        elif kind == 'str':
            xs = [self.string(d - 1, env) for _ in range(n)]
        else:
            xs = [self.tup(d - 1, env) for _ in range(n)]
        t = xs[0][1]
        for _, tx in xs[1:]:
            t = self.lub_ty(t, tx)
        return ('ar', [x for x, _ in xs]), (('A', t) if t else None)

    def scalarish(self, d, env):
        c = self.rng.random()
        if c < 0.55:
            return self.num(d, env)
        if c < 0.8:
            return self.string(d, env)
        if c < 0.9:
            return self.boolean(d, env)
        return self.obj(d, env)

    def obj(self, d, env):
        r = self.rng
        opts = []
        for i, vt in enumerate(env):
            if vt[0] == 'O':
                opts.append((('va', i), vt))
        if d <= 0 or r.random() < 0.3:
            t = r.choice([0, 0, 1])
            opts.append((('ob', t), ('O', t)))
            return r.choice(opts)
        c = r.random()
        a, ta = self.obj(d - 1, env)
        if ta is None:
            return a, ta
        if c < 0.35:
            links = [(p, pn, pt) for p, (pn, pt) in enumerate(PTRS[ta[1]]) if pt[0] == 'O']
            p, pn, pt = r.choice(links)
            return ('pa', a, p, pn), pt
        if c < 0.65:
            cnd, _ = self.boolean(d - 1, [ta] + env)
            return ('fi', a, cnd), ta
        if c < 0.8:
            b, tb = self.obj(d - 1, env)
            if ta != tb:
                # two different object types give a union type / common ancestor: outside the flat calculus
                return a, ta
            return ('ca', r.choice(['op_union', 'op_except', 'op_intersect', 'op_coalesce']), [a, b]), ta
        if c < 0.9:
            return ('ca', 'op_distinct', [a]), ta
        b, tb = self.obj(d - 1, [ta] + env)
        return ('fo', a, b), tb

    def anyq(self, d, env):
        r = self.rng
        c = r.random()
        if c < 0.3:
            return self.num(d, env)
        if c < 0.42:
            return self.string(d, env)
        if c < 0.52:
            return self.boolean(d, env)
        if c < 0.66:
            return self.tup(d, env)
        if c < 0.78:
            return self.array(d, env)
        if c < 0.86:
            return self.obj(d, env)
        if c < 0.93 and d > 0:
            a, ta = self.anyq(d - 1, env)
            if ta is None:
                return a, ta
            b, tb = self.anyq(d - 1, [ta] + env)
            return ('fo', a, b), tb
        if d > 0:
            (a, ta), (b, tb) = self.anyq(d - 1, env), self.anyq(d - 1, env)
            return ('ca', r.choice(['op_union', 'op_coalesce', 'op_distinct']), [a, b][:None]), self.lub_ty(ta, tb)
        return self.num(d, env)

    def top(self, d):
        r = self.rng
        c = r.random()
        if c < 0.15:
            a, ta = self.obj(d - 1, [])
            if ta is not None:
                els = []
                for _ in range(r.randint(1, 3)):
                    e, te = self.anyq(d - 1, [ta])
                    if te is None or te[0] == 'O':
                        # a computed link must be provably distinct (a multiplicity rule, not a typing rule)
                        e = ('ca', 'op_distinct', [e])
                    els.append(e)
                return ('sh', a, els)
        if c < 0.25:
            # a wrapper with a FOR over objects
            t = r.choice([0, 1])
            b, _ = self.anyq(d - 1, [('O', t)])
            return ('fo', ('ob', t), b)
        return self.anyq(d, [])[0]


def directed_queries():
    """Small mixed-type queries every one of which toy_eval_model can evaluate: each typing rule that
    computes a common type (set / array constructor, UNION, ??, IF-ELSE, tuple UNION) and each
    arithmetic operator, on operands of different numeric kinds whose VALUES differ in Python type
    (int / float / Decimal).  A compiler that types such an expression by one operand only, or not
    element-wise, reports a type some produced value does not inhabit."""
    X = ('va', 0)
    ops = [('li', 1), ('lf', 5, 1), ('pa', X, 6, 'dec'), ('pa', X, 1, 'n16'), ('pa', X, 4, 'f32'),
           ('pa', X, 2, 'n32'), ('pa', X, 3, 'n64'), ('pa', X, 5, 'f64')]
    flag = ('pa', X, 8, 'flag')
    out = []
    for a in ops:
        for b in ops:
            if a == b:
                continue
            bodies = [
                ('set', [a, b]), ('ca', 'op_union', [a, b]), ('ca', 'op_coalesce', [a, b]),
                ('ca', 'op_if', [a, flag, b]), ('ar', [a, b]),
                ('ca', 'op_union', [('tu', [a, ('ls', 'a')]), ('tu', [b, ('ls', 'b')])]),
                ('ca', 'op_union', [('ar', [a]), ('ar', [b])]),
                ('ca', 'fn_array_agg', [('set', [a, b])]),
                ('ca', 'fn_min', [('set', [a, b])]),
                ('ca', 'op_coalesce', [('tu', [a]), ('tu', [b])]),
            ]
            for op in ('op_plus', 'op_minus', 'op_times', 'op_div', 'op_floordiv'):
                bodies.append(('ca', op, [a, b]))
            for body in bodies:
                out.append(('fo', ('ob', 0), body))
    return out


def user_scalar_queries():
    """Every common-type context x ordered pairs of {derived, sibling, base, second-level derived}
    (and tinystr / str): the common type of two different scalars with the same concrete base is the
    base, never one of the derived scalars.  Operands are properties (toy-evaluable; their stored values
    satisfy the constraints of their own type only) and literals that violate every constraint."""
    X = ('va', 0)
    ints = [('pa', X, 12, 'mi'), ('pa', X, 13, 'yi'), ('pa', X, 14, 'pi'), ('pa', X, 3, 'n64'), ('li', 1000),
            ('li', -500)]
    strs = [('pa', X, 15, 'ts'), ('pa', X, 0, 'name'), ('ls', 'long')]
    flag = ('pa', X, 8, 'flag')
    out = []

    def contexts(a, b, flag=flag):
        return [
            ('ar', [a, b]), ('set', [a, b]), ('ca', 'op_union', [a, b]), ('ca', 'op_coalesce', [a, b]),
            ('ca', 'op_if', [a, flag, b]),
            ('ca', 'op_union', [('tu', [a, ('ls', 'a')]), ('tu', [b, ('ls', 'b')])]),
            ('ca', 'fn_array_agg', [('set', [a, b])]),
            ('tu', [('set', [a, b]), ('li', 0)]), ('ar', [('set', [a, b])]),
            ('ca', 'op_union', [('ar', [a]), ('ar', [b])]),
            ('ca', 'fn_min', [('set', [a, b])]), ('ca', 'op_distinct', [('set', [a, b])]),
            ('ar', [a, b, a]), ('set', [a, b, a]),
        ]
    for pool in (ints, strs):
        for a in pool:
            for b in pool:
                if a[0] in ('li', 'ls') and b[0] in ('li', 'ls'):
                    continue
                for body in contexts(a, b):
                    out.append(('fo', ('ob', 0), body))
    # type level only (explicit casts are outside toy_eval_model): the same contexts on cast operands,
    # arithmetic / comparison / functions on user scalars, casts between user scalars, enums
    MI, YI, PI, TS = ('U', 'myint'), ('U', 'yourint'), ('U', 'posint'), ('U', 'tinystr')
    c = lambda t, n: ('cs', t, ('li', n))
    cast_ops = [c(MI, 1), c(YI, 2), c(PI, 3), ('li', 4), ('em', MI), ('em', PI)]
    for a in cast_ops:
        for b in cast_ops:
            for body in contexts(a, b, ('lb', True))[:7]:
                out.append(body)
            for op in ('op_plus', 'op_div', 'op_eq', 'op_lt', 'op_in'):
                out.append(('ca', op, [a, b]))
    for a in cast_ops[:3]:
        for f in ('fn_sum', 'fn_min', 'fn_max', 'fn_count', 'fn_math_abs', 'fn_array_agg', 'op_distinct',
                  'op_exists', 'op_minus', 'fn_enumerate'):
            out.append(('ca', f, [a]))
        for t in (MI, YI, PI, ('S', 'int64'), ('S', 'float64'), ('S', 'str'), ('S', 'int16')):
            out.append(('cs', t, a))
        out.append(('ca', 'op_plus', [a, ('lf', 5, 1)]))
        out.append(('set', [a, ('lf', 5, 1)]))
    out.append(('cs', MI, ('lf', 5, 1)))
    out.append(('cs', TS, ('ls', 'ab')))
    out.append(('ca', 'op_concat', [('cs', TS, ('ls', 'ab')), ('ls', 'cd')]))
    out.append(('ca', 'op_concat', [('cs', TS, ('ls', 'ab')), ('cs', TS, ('ls', 'c'))]))
    out.append(('ca', 'fn_len', [('cs', TS, ('ls', 'ab'))]))
    col = ('pa', ('ob', 0), 16, 'col')
    out += [col, ('set', [col, col]), ('ar', [col, col]), ('ca', 'op_eq', [col, col]),
            ('ca', 'op_union', [col, ('ls', 'Red')]), ('ca', 'fn_min', [col]), ('ca', 'fn_count', [col]),
            ('ca', 'op_coalesce', [col, col]), ('ca', 'fn_array_agg', [col])]
    return out


def tuple_queries():
    """Every polymorphic context x ordered pairs of tuple types that differ only in ARITY (prefix), only
    in element NAMES (named / differently named / unnamed), or both — also nested in arrays and tuples.
    Returns (query, meta): meta = (operand queries, where in the result type the operands' common type
    sits) for the operand-castability oracle, evaluated with the REAL `implicitly_castable_to`."""
    X = ('va', 0)
    n64, f64, n32 = ('pa', X, 3, 'n64'), ('pa', X, 5, 'f64'), ('pa', X, 2, 'n32')
    flag = ('pa', X, 8, 'flag')
    arity = [('tu', [('li', 1), ('li', 2)]), ('tu', [('li', 1), ('li', 2), ('li', 3)]),
             ('tu', [n64, ('li', 2)]), ('tu', [f64, f64]), ('tu', [('lf', 15, 9), ('lf', 25, 9), ('lf', 35, 9)]),
             ('tu', [('li', 1)]), ('tu', [n32, ('li', 0)]), ('tu', [n64, n64, n64]),
             ('em', ('T', [('S', 'int64'), ('S', 'int64')]))]
    named = [('nt', [('a', ('li', 1)), ('b', ('li', 2))]), ('nt', [('c', ('li', 3)), ('d', ('li', 4))]),
             ('nt', [('a', n64), ('b', ('li', 5))]), ('tu', [('li', 7), ('li', 8)]),
             ('nt', [('a', n32), ('b', ('li', 0))]), ('nt', [('b', ('li', 1)), ('a', ('li', 2))]),
             ('em', ('N', [('a', ('S', 'int64')), ('b', ('S', 'int64'))]))]
    both = [('nt', [('a', ('li', 1)), ('b', ('li', 2)), ('c', ('li', 3))]), ('nt', [('c', n32)]),
            ('nt', [('a', ('li', 1)), ('b', ('li', 2))]), ('tu', [('li', 1), ('li', 2), ('li', 3)])]
    out = []

    def ctxs(a, b):
        sab = ('set', [a, b])
        return [
            (('ca', 'op_coalesce', [a, b]), [a, b], 'R'),
            (('ca', 'op_if', [a, flag, b]), [a, b], 'R'),
            (('ca', 'op_union', [a, b]), [a, b], 'R'),
            (sab, [a, b], 'R'),
            (('ca', 'op_distinct', [sab]), [a, b], 'R'),
            (('ar', [a, b]), [a, b], 'elem'),
            (('ca', 'op_concat', [('ar', [a]), ('ar', [b])]), [a, b], 'elem'),
            (('ca', 'fn_array_agg', [sab]), [a, b], 'elem'),
            (('ca', 'fn_min', [sab]), [a, b], 'R'),
            (('tu', [sab, ('li', 0)]), [a, b], 'first'),
            (('ar', [sab]), [a, b], 'elem'),
            (('ca', 'op_coalesce', [('tu', [a, ('li', 0)]), ('tu', [b, ('li', 0)])]),
             [('tu', [a, ('li', 0)]), ('tu', [b, ('li', 0)])], 'R'),
            (('ca', 'op_coalesce', [('ar', [a]), ('ar', [b])]), [('ar', [a]), ('ar', [b])], 'R'),
            (('ca', 'op_union', [('ar', [a]), ('ar', [b])]), [('ar', [a]), ('ar', [b])], 'R'),
            (('ca', 'op_eq', [a, b]), [a, b], 'bool'),
            (('ca', 'op_ne', [a, b]), [a, b], 'bool'),
            (('ca', 'op_opteq', [a, b]), [a, b], 'bool'),
            (('ca', 'op_lt', [a, b]), [a, b], 'bool'),
            (('ca', 'op_in', [a, ('set', [b, b])]), [a, b], 'bool'),
        ]
    for pool in (arity, named, both):
        for a in pool:
            for b in pool:
                if a == b:
                    continue
                for body, ops, where in ctxs(a, b):
                    out.append((('fo', ('ob', 0), body), ([('fo', ('ob', 0), o) for o in ops], where)))
    return out


# ------------------------------------------------------------------ tuples in SUBTYPE positions
# `Collection._issubclass` (edb/schema/types.py) zips the element types of the two collections and
# checks neither the arity nor the element names.  It decides (1) whether an overloaded pointer may
# narrow the inherited target (`pointers._merge_types`), (2) whether a call argument needs no cast for a
# non-polymorphic parameter (`polyres._get_cast_distance`), (3) whether a function body has the declared
# return type (`functions.py`).  The streams below put tuple types of differing arity / element types /
# nesting in those positions and evaluate, on the REAL schema objects, "the type that actually flows is
# implicitly castable to the type that is declared / inferred" (names erased: storage is positional).
def erase_names(t):
    k = t[0]
    if k == 'N':
        return ('T', [erase_names(x) for _, x in t[1]])
    if k == 'T':
        return ('T', [erase_names(x) for x in t[1]])
    if k == 'A':
        return ('A', erase_names(t[1]))
    return t


def lit_of(t) -> str:
    """an EdgeQL literal of exactly that type"""
    k = t[0]
    if k == 'S':
        return {'int64': '1', 'str': "'x'", 'float64': '2.5', 'bool': 'true'}[t[1]]
    if k == 'T':
        xs = [lit_of(x) for x in t[1]]
        return '(' + ', '.join(xs) + (',)' if len(xs) == 1 else ')')
    if k == 'N':
        return '(' + ', '.join(f'{n} := {lit_of(x)}' for n, x in t[1]) + ')'
    if k == 'A':
        return '[' + lit_of(t[1]) + ']'
    raise ValueError(t)


def py_of(t):
    """the Python value toy_eval_model would produce for lit_of(t)"""
    k = t[0]
    if k == 'S':
        return {'int64': 1, 'str': 'x', 'float64': 2.5, 'bool': True}[t[1]]
    if k == 'T':
        return tuple(py_of(x) for x in t[1])
    if k == 'N':
        return {n: py_of(x) for n, x in t[1]}
    if k == 'A':
        return [py_of(t[1])]
    raise ValueError(t)


def subtype_type_pool():
    I, S_, F = ('S', 'int64'), ('S', 'str'), ('S', 'float64')
    return [('T', [I]), ('T', [I, S_]), ('T', [I, S_, F]), ('T', [F]), ('N', [('a', I)]), ('N', [('b', I)]),
            ('N', [('a', I), ('b', S_)]), ('A', ('T', [I])), ('A', ('T', [I, S_])),
            ('T', [('T', [I]), S_]), ('T', [('T', [I, S_]), S_]), ('T', [I, I])]


def fix_arity(q):
    """`op_distinct` is unary: the generator's anyq builds it with two operands"""
    k = q[0]
    if k == 'ca':
        args = [fix_arity(x) for x in q[2]]
        if q[1] == 'op_distinct':
            args = args[:1]
        return ('ca', q[1], args)
    if k in ('tu', 'ar', 'set'):
        return (k, [fix_arity(x) for x in q[1]])
    if k == 'nt':
        return (k, [(n, fix_arity(x)) for n, x in q[1]])
    if k == 'cs':
        return ('cs', q[1], fix_arity(q[2]))
    if k in ('fo', 'fi'):
        return (k, fix_arity(q[1]), fix_arity(q[2]))
    if k == 'pa':
        return ('pa', fix_arity(q[1]), q[2], q[3])
    if k == 'sh':
        return ('sh', fix_arity(q[1]), [fix_arity(x) for x in q[2]])
    return q


def size(q) -> int:
    k = q[0]
    if k == 'nt':
        return 1 + sum(size(x) for _, x in q[1])
    if k in ('tu', 'ar', 'set'):
        return 1 + sum(size(x) for x in q[1])
    if k == 'ca':
        return 1 + sum(size(x) for x in q[2])
    if k == 'cs':
        return 1 + size(q[2])
    if k in ('fo', 'fi'):
        return 1 + size(q[1]) + size(q[2])
    if k == 'pa':
        return 1 + size(q[1])
    if k == 'sh':
        return 1 + size(q[1]) + sum(size(x) for x in q[2])
    return 1


def constructs(q, acc):
    k = q[0]
    acc[k if k != 'ca' else q[1]] = acc.get(k if k != 'ca' else q[1], 0) + 1
    if k == 'nt':
        for _, x in q[1]:
            constructs(x, acc)
        return acc
    for x in (q[1] if k in ('tu', 'ar', 'set') else q[2] if k in ('ca', 'sh') else []):
        constructs(x, acc)
    if k in ('fo', 'fi'):
        constructs(q[1], acc), constructs(q[2], acc)
    if k in ('cs',):
        constructs(q[2], acc)
    if k in ('pa', 'sh'):
        constructs(q[1], acc)
    return acc


def toy_ok(q) -> bool:
    """inside what edb/tools/toy_eval_model.py can evaluate faithfully enough"""
    k = q[0]
    if k in ('ln', 'ld', 'em', 'sh'):
        return False                    # no bigint/decimal constants, no typed empty set; shapes: Obj only
    if k == 'cs':
        return q[1] in (('S', 'str'), ('S', 'int64'), ('S', 'int32')) and toy_ok(q[2])
    if k == 'ca':
        if q[1] in ('op_except', 'op_intersect', 'fn_str_lower', 'fn_str_upper', 'fn_math_abs',
                    'op_like', 'op_ilike'):
            return False
        return all(toy_ok(x) for x in q[2])
    if k in ('tu', 'ar', 'set'):
        return all(toy_ok(x) for x in q[1])
    if k == 'nt':
        return all(toy_ok(x) for _, x in q[1])
    if k in ('fo', 'fi'):
        return toy_ok(q[1]) and toy_ok(q[2])
    if k == 'pa':
        return toy_ok(q[1])
    return True


def uses_big_div(q) -> bool:
    """`/`, `^`, mean with a bigint operand: the toy model computes in Python int/float where
    EdgeDB computes in decimal"""
    k = q[0]
    if k == 'nt':
        return any(uses_big_div(x) for _, x in q[1])
    sub = (q[1] if k in ('tu', 'ar', 'set') else q[2] if k == 'ca' else
           [q[1], q[2]] if k in ('fo', 'fi') else [q[2]] if k == 'cs' else [q[1]] if k == 'pa' else [])

    def has_big(x):
        if x[0] == 'pa' and x[3] == 'big':
            return True
        if x[0] == 'nt':
            return any(has_big(y) for _, y in x[1])
        s = (x[1] if x[0] in ('tu', 'ar', 'set') else x[2] if x[0] == 'ca' else
             [x[1], x[2]] if x[0] in ('fo', 'fi') else [x[2]] if x[0] == 'cs' else [x[1]] if x[0] == 'pa' else [])
        return any(has_big(y) for y in s)
    if k == 'ca' and q[1] in ('op_div', 'op_pow', 'fn_math_mean') and any(has_big(x) for x in q[2]):
        return True
    return any(uses_big_div(x) for x in sub)


# ------------------------------------------------------------------ toy database
def bsid(n):
    return uuid.UUID(f'ffffffff-ffff-ffff-ffff-{n:012x}')


def toy_db(model):
    D = decimal.Decimal
    L = model.bslink
    data = [
        {'id': bsid(1), '__type__': 'Item', 'name': 'a', 'n16': 1, 'n32': 2, 'n64': 3, 'f32': 1.5,
         'f64': 2.25, 'dec': D('1.10'), 'big': 10 ** 20, 'flag': True, 'tags': ['x', 'y'],
         'others': [L(2), L(3)], 'owner': L(11), 'mi': 5, 'yi': 500, 'pi': 3, 'ts': 'ab', 'col': 'Red'},
        {'id': bsid(2), '__type__': 'Item', 'name': 'b', 'n16': -2, 'n64': 0, 'f64': 0.5,
         'dec': D('7'), 'flag': False, 'tags': [], 'others': [L(1)], 'owner': L(11),
         'mi': 50, 'yi': -7, 'ts': 'xyz', 'col': 'Blue'},
        {'id': bsid(3), '__type__': 'Item', 'name': 'c', 'n16': 7, 'n32': 5, 'n64': 9, 'f32': 0.25,
         'big': 3, 'tags': ['z'], 'others': [], 'yi': 101, 'pi': 100},
        {'id': bsid(11), '__type__': 'Person', 'name': 'p', 'age': 30, 'items': [L(1), L(2)]},
        {'id': bsid(12), '__type__': 'Person', 'name': 'q', 'items': []},
    ]
    return model.mk_db(data, {})


def db_line() -> str:
    """the same database for the Lean evaluator"""
    def num(s, v):
        f = decimal.Decimal(str(v)).as_integer_ratio()
        return f'nu {s} {f[0]} {f[1] - 1}'
    items = {
        1: dict(name='a', n16=1, n32=2, n64=3, f32=1.5, f64=2.25, dec='1.10', big=10 ** 20, flag=True,
                tags=['x', 'y'], others=[2, 3], owner=[11], mi=5, yi=500, pi=3, ts='ab', col='Red'),
        2: dict(name='b', n16=-2, n64=0, f64=0.5, dec='7', flag=False, tags=[], others=[1], owner=[11],
                mi=50, yi=-7, ts='xyz', col='Blue'),
        3: dict(name='c', n16=7, n32=5, n64=9, f32=0.25, big=3, tags=['z'], others=[], yi=101, pi=100),
    }
    persons = {11: dict(name='p', age=30, items=[1, 2]), 12: dict(name='q', items=[])}
    out = []
    for t, objs in ((0, items), (1, persons)):
        for i, o in objs.items():
            fs = []
            for pn, pt in PTRS[t]:
                v = o.get(pn)
                vs = [] if v is None else (v if isinstance(v, list) else [v])
                if pt[0] == 'O':
                    enc = [f'ob {pt[1]} {x}' for x in vs]
                elif pt[0] == 'U':
                    u = USER[pt[1]]
                    if u['enum'] is not None:
                        enc = [f"en {u['id']} {u['enum'].index(x)}" for x in vs]
                    else:
                        tag = f"de {len(u['chain'])} " + ' '.join(map(str, u['chain'])) + f" {u['base']} "
                        enc = [tag + (f'ls {x}' if u['base'] == 'str' else num(u['base'], x)) for x in vs]
                elif pt[1] == 'str':
                    enc = [f'ls {x}' for x in vs]
                elif pt[1] == 'bool':
                    enc = [f'lb {1 if x else 0}' for x in vs]
                else:
                    enc = [num(pt[1], x) for x in vs]
                fs.append(f'{len(enc)}' + ''.join(' ' + e for e in enc))
            out.append(f'{t} {i} {len(fs)} ' + ' '.join(fs))
    return f'db {len(out)} ' + ' '.join(out)


def schema_line() -> str:
    return f'schema {len(OBJ)} ' + ' '.join(
        f'{len(PTRS[t])} ' + ' '.join(ty_enc(pt) for _, pt in PTRS[t]) for t in range(len(OBJ)))


def inhabits(v, t, model, db) -> bool:
    """Python value of the toy evaluator inhabits the EdgeQL type, at the toy model's granularity:
    int16/32/64/bigint are all `int`, float32/64 are `float`; the toy model applies no implicit
    casts, so an `int` also inhabits float* / decimal."""
    k = t[0]
    if k == 'U':
        u = USER[t[1]]
        if u['enum'] is not None:
            return isinstance(v, str) and v in u['enum']
        # a member of a user scalar: a member of its base that satisfies the scalar's constraints
        # (the toy model does not keep the scalar's identity; its constraints are what tells a
        # plain int64 / sibling / str value that is NOT a member from one that is)
        return inhabits(v, ('S', u['base']), model, db) and CONSTRAINT[t[1]](v)
    if k == 'S':
        s = t[1]
        if s == 'bool':
            return isinstance(v, bool)
        if isinstance(v, bool):
            return False
        if s in ('int16', 'int32', 'int64', 'bigint'):
            return isinstance(v, int)
        if s in ('float32', 'float64'):
            return isinstance(v, (float, int))
        if s == 'decimal':
            return isinstance(v, (decimal.Decimal, int))
        if s == 'str':
            return isinstance(v, str)
        if s == 'uuid':
            return isinstance(v, uuid.UUID)
        return False
    if k == 'T':
        # arity is part of the type: a 3-tuple does not inhabit tuple<int64, int64>.  The toy model
        # applies no implicit casts, so a named tuple value (a dict) is accepted under an unnamed type
        # (named -> unnamed is an implicit cast), element-wise in order.
        vs = list(v.values()) if isinstance(v, dict) else v
        return isinstance(vs, (tuple, list)) and isinstance(v, (tuple, dict)) and len(vs) == len(t[1]) and all(
            inhabits(x, y, model, db) for x, y in zip(vs, t[1]))
    if k == 'N':
        # element names are part of the type: the toy model represents a named tuple as a dict; a dict
        # with OTHER names does not inhabit it (named -> differently named is not an implicit cast), a
        # plain tuple of the right arity does (unnamed -> named is)
        if isinstance(v, dict):
            return list(v.keys()) == [n for n, _ in t[1]] and all(
                inhabits(v[n], y, model, db) for n, y in t[1])
        return isinstance(v, tuple) and len(v) == len(t[1]) and all(
            inhabits(x, y, model, db) for x, (_, y) in zip(v, t[1]))
    if k == 'A':
        return isinstance(v, list) and all(inhabits(x, t[1], model, db) for x in v)
    if k == 'O':
        return isinstance(v, model.Obj) and db.data[v.id]['__type__'] == OBJ[t[1]]
    return False


def pykind(v, model) -> str:
    if isinstance(v, bool):
        return 'bool'
    if isinstance(v, tuple):
        return '(' + ','.join(pykind(x, model) for x in v) + ')'
    if isinstance(v, dict):
        return '(' + ','.join(f'{k_}:={pykind(x, model)}' for k_, x in v.items()) + ')'
    if isinstance(v, list):
        return '[' + ','.join(sorted({pykind(x, model) for x in v})) + ']'
    if isinstance(v, model.Obj):
        return 'Obj'
    return type(v).__name__


# ------------------------------------------------------------------------------- run
def run(ctx: core.Ctx):
    from bridge import env
    from gen import types as gen_types
    env.setup()
    std = env.std_schema()
    try:
        gen = gen_types.generate(std)
    except gen_types.GenError as e:
        # the std schema no longer has the expected form: broken correspondence, not infra
        ctx.fail('gen:shape', 'table extraction shape check failed', {'error': str(e)}, no_input=True)
        ctx.cov.update({'evaluations': 0, 'distinct_nontrivial': 0, 'rule': 'n/a', 'samples': []})
        return
    gen['ident'] = {u: gen_types.lean_ident(u) for u in gen['universe']}
    SCALAR_QL.update({v: k for k, v in gen['ident'].items()})
    ctx.log(f"Gen/Types.lean: {len(gen['universe'])} scalars, {len(gen['edges'])} implicit edges, "
            f"{len(gen['callables'])} overloads, changed={gen['changed']}; std schema {env.std_info()}")

    proved = ctx.proof_stage(PROPS, ['EdbVerif.Props.C12', 'Driver.C12'], required=REQUIRED,
                             gen_obligations=GEN_TABLE_THEOREMS)
    ctx.log('proof stage:', 'ok' if proved else ctx.proof['broken'][:3])

    from edb import errors as edb_errors
    from edb.schema import casts as s_casts, types as s_types
    from edb.server.compiler import sertypes
    from edb.tools import toy_eval_model as model

    sch = env.load_schema(SDL)
    try:
        us = gen_types.user_scalars(sch, gen['universe'])
    except gen_types.GenError as e:
        ctx.fail('gen:shape', 'user scalar extraction shape check failed', {'error': str(e)}, no_input=True)
        ctx.cov.update({'evaluations': 0, 'distinct_nontrivial': 0, 'rule': 'n/a', 'samples': []})
        return
    USER.clear()
    USER.update({n[9:]: {**u, 'base': (gen['ident'][u['base']] if u['base'] else None)} for n, u in us.items()})
    if set(USER) != {'myint', 'yourint', 'posint', 'tinystr', 'Color'}:
        raise core.Infra(f'unexpected user scalars {sorted(USER)}')
    idents = [gen['ident'][u] for u in gen['universe']]
    sobj = {gen['ident'][u]: std.get(u) for u in gen['universe']}

    lines = [schema_line(), db_line()]
    expect = ['ok', 'ok']          # real-side answers, same index as lines
    meta = [('setup', None), ('setup', None)]
    oracle_fail = []

    def add(line, real, kind, info=None):
        lines.append(line)
        expect.append(real)
        meta.append((kind, info))

    # ---------------------------------------------------------------- L1: scalars, all pairs
    # std universe + the user scalars of the harness schema (derived, sibling, second level, enum)
    scal = [(('S', i_), sobj[i_], i_) for i_ in idents] + \
           [(('U', n), sch.get('default::' + n), n) for n in USER]

    def converts(A, tc, C):
        """value inclusion, decided on the REAL schema objects: every value of A is a value of C without
        a run-time check — same type, A derived from the user scalar C, or C a std scalar the topmost
        concrete base of A is implicitly castable to"""
        if A == C:
            return True
        if tc[0] == 'U':
            return A.issubclass(sch, C)
        top = A.get_topmost_concrete_base(sch)
        return s_casts.get_implicit_cast_distance(sch, top, C) >= 0

    for ta, A, a in scal:
        for tb, B, b in scal:
            std_pair = ta[0] == 'S' and tb[0] == 'S'
            d2 = A.get_implicit_cast_distance(B, sch)
            c = A.implicitly_castable_to(B, sch)
            if std_pair:
                d = s_casts.get_implicit_cast_distance(sch, A, B)
                if d != d2:
                    ctx.fail(f'l1:dist:{a}:{b}', 'ScalarType.get_implicit_cast_distance differs from casts.*',
                             {'a': a, 'b': b, 'casts': d, 'type': d2}, no_input=True)
            add(f'dist {ty_enc(ta)} {ty_enc(tb)}', f"d={'none' if d2 < 0 else d2} c={1 if c else 0}",
                'l1-dist', (a, b))
            s2, ct = A.find_common_implicitly_castable_type(B, sch)
            tc = None if ct is None else real_ty(ct, s2, gen)
            cn = None if tc is None else tc[1]
            add(f'common {ty_enc(ta)} {ty_enc(tb)}', 'none' if ct is None else ty_enc(tc), 'l1-common', (a, b))
            if std_pair:
                add(f'cset {a} {b}', '' if ct is None else cn, 'l1-cset', (a, b))
            # oracle on the real function: an upper bound, the least one, and one both operands CONVERT to
            if ct is not None:
                if not (A.implicitly_castable_to(ct, sch) and B.implicitly_castable_to(ct, sch)):
                    oracle_fail.append((f'oracle:common-ub:{a}:{b}', 'common type is not an upper bound',
                                        {'a': a, 'b': b, 'common': cn}))
                if not (converts(A, tc, ct) and converts(B, tc, ct)):
                    oracle_fail.append((f'oracle:common-conv:{a}:{b}',
                                        'an operand is not a subtype of / implicitly convertible to the common type '
                                        '(a user-derived scalar was returned for a value that is not an instance of it)',
                                        {'a': a, 'b': b, 'common': cn,
                                         'call': f'{a}.find_common_implicitly_castable_type({b})'}))
                for _tu, U, u in scal:
                    if (A.implicitly_castable_to(U, sch) and B.implicitly_castable_to(U, sch)
                            and not ct.implicitly_castable_to(U, sch)):
                        oracle_fail.append((f'oracle:common-least:{a}:{b}', 'common type is not the least upper bound',
                                            {'a': a, 'b': b, 'common': cn, 'smaller_or_incomparable_ub': u}))
            else:
                for _tu, U, u in scal:
                    if A.implicitly_castable_to(U, sch) and B.implicitly_castable_to(U, sch):
                        oracle_fail.append((f'oracle:common-missing:{a}:{b}', 'an upper bound exists but no common type found',
                                            {'a': a, 'b': b, 'ub': u}))
    n_l1 = len(lines) - 2
    ctx.log(f'L1 scalar pairs done ({n_l1} lines)')

    # ---------------------------------------------------------------- L1: collection types
    rng = ctx.rng

    def rand_ty(d):
        c = rng.random()
        if d <= 0 or c < 0.5:
            if rng.random() < 0.2:
                return ('U', rng.choice(sorted(USER)))
            return ('S', rng.choice(idents[:9] if rng.random() < 0.85 else idents))
        if c < 0.8:
            return ('T', [rand_ty(d - 1) for _ in range(rng.randint(0, 3))])
        e = rand_ty(d - 1)
        return ('A', e) if e[0] != 'A' else e

    def perturb(t):
        """a type that is 'near' t: same shape, scalars moved along / across the cast graph"""
        if t[0] == 'U':
            r_ = rng.random()
            return t if r_ < 0.4 else (('U', rng.choice(sorted(USER))) if r_ < 0.7 else
                                       ('S', USER[t[1]]['base'] or 'str'))
        if t[0] == 'S':
            if t[1] in ('int64', 'str') and rng.random() < 0.25:
                return ('U', rng.choice(['myint', 'yourint', 'posint'] if t[1] == 'int64' else ['tinystr']))
            return ('S', rng.choice(NUMERIC)) if t[1] in NUMERIC and rng.random() < 0.7 else \
                (t if rng.random() < 0.8 else ('S', rng.choice(idents)))
        if t[0] == 'A':
            return ('A', perturb(t[1]))
        ts = [perturb(x) for x in t[1]]
        if rng.random() < 0.05:
            ts = ts[:-1] if ts else [('S', 'int64')]
        return ('T', ts)

    def mk_real(schema, t):
        if t[0] == 'S':
            return schema, sobj[t[1]]
        if t[0] == 'U':
            return schema, schema.get('default::' + t[1])
        if t[0] == 'A':
            schema, e = mk_real(schema, t[1])
            return s_types.Array.create(schema, element_type=e, dimensions=[-1])
        if t[0] == 'O':
            return schema, schema.get('default::' + OBJ[t[1]])
        els = {}
        for i, x in enumerate(t[1]):
            schema, e = mk_real(schema, x[1] if t[0] == 'N' else x)
            els[x[0] if t[0] == 'N' else str(i)] = e
        return s_types.Tuple.create(schema, element_types=els, named=(t[0] == 'N'))

    n_coll = 0
    for _ in range(ctx.budget(250, 5000)):
        ta = rand_ty(2)
        tb = perturb(ta) if rng.random() < 0.85 else rand_ty(2)
        try:
            s2, A = mk_real(sch, ta)
            s2, B = mk_real(s2, tb)
            d = A.get_implicit_cast_distance(B, s2)
            c = A.implicitly_castable_to(B, s2)
            s3, ct = A.find_common_implicitly_castable_type(B, s2)
            real_c = 'none' if ct is None else ty_enc(real_ty(ct, s3, gen))
        except Exception as e:   # the real code raised: record as its answer
            d, c, real_c = -2, False, 'error:' + type(e).__name__
        add(f'dist {ty_enc(ta)} {ty_enc(tb)}', f"d={'none' if d < 0 else d} c={1 if c else 0}", 'l1-cdist', (ta, tb))
        add(f'common {ty_enc(ta)} {ty_enc(tb)}', real_c, 'l1-ccommon', (ta, tb))
        n_coll += 1

    # ---------------------------------------------------------------- L2a: operator / function tables
    def compile_ty(text):
        """('ok', Ty, ir) | ('none', ErrorClass, None) from the REAL compiler"""
        try:
            ir = env.compile_to_ir(sch, text)
        except edb_errors.EdgeDBError as e:
            msg = type(e).__name__ + ': ' + str(e)[:160]
            if isinstance(e, edb_errors.InvalidTypeError) or TYPING_REJECTION.search(str(e)):
                return 'none', msg, None         # rejected by a typing rule
            return 'rejected-other', msg, None   # scoping / multiplicity / schema rules: not C12's business
        except Exception as e:      # not a user-facing rejection: the real code crashed
            return 'crash', type(e).__name__ + ': ' + str(e)[:160], None
        try:
            return 'ok', real_ty(ir.stype, ir.schema, gen), ir
        except Unsupported as e:
            return 'unsupported', str(e), ir

    def res_line(r):
        if r[0] == 'crash':
            return 'crash ' + r[1]
        if r[0] == 'rejected-other':
            return 'unsupported'
        return 'none' if r[0] == 'none' else ('ok ' + ty_enc(r[1]) if r[0] == 'ok' else 'unsupported')

    callable_names = sorted({c['name'] for c in gen['callables']})
    fn_id = {n: gen_types.fn_ident(n) for n in callable_names}
    binops = [n for n in callable_names if fn_id[n] in INFIX and fn_id[n] not in ('op_like', 'op_ilike')]
    n_tab = 0
    tab_hist = {'ok': 0, 'none': 0, 'crash': 0, 'rejected-other': 0}

    def table_case(fid, tys):
        nonlocal n_tab
        args = [('em', t) for t in tys]
        text = 'select ' + q_ql(('ca', fid, args))
        r = compile_ty(text)
        real = res_line(r)
        if real == 'unsupported':
            return
        tab_hist[r[0]] += 1
        add(f'resolve {fid} {len(tys)} ' + ' '.join(ty_enc(t) for t in tys), real, 'tab', (fid, tys, text))
        n_tab += 1

    for n in binops:
        for a in NUMERIC:
            for b in NUMERIC:
                table_case(fn_id[n], [('S', a), ('S', b)])
    # the non-numeric part of the universe: a seeded slice in quick, everything in thorough
    others = [(a, b) for a in idents for b in idents if not (a in NUMERIC and b in NUMERIC)]
    for n in binops:
        picks = others if not ctx.quick() else rng.sample(others, 24)
        for a, b in picks:
            table_case(fn_id[n], [('S', a), ('S', b)])
        # collections: arrays and tuples of numeric types
        for _ in range(ctx.budget(12, 200)):
            a, b = rng.choice(NUMERIC), rng.choice(NUMERIC)
            if rng.random() < 0.5:
                table_case(fn_id[n], [('A', ('S', a)), ('A', ('S', b))])
            else:
                table_case(fn_id[n], [('T', [('S', a), ('S', 'str')]), ('T', [('S', b), ('S', 'str')])])
    for n in callable_names:
        fid = fn_id[n]
        if fid in ('op_plus', 'op_minus', 'op_not', 'op_exists', 'op_distinct') or (
                fid.startswith('fn_') and fid not in ('fn_str_repeat', 'fn_contains', 'fn_round', 'fn_array_join')):
            for a in idents:
                table_case(fid, [('S', a)])
                if a in NUMERIC or a == 'str':
                    table_case(fid, [('A', ('S', a))])
    for a in NUMERIC + ['str', 'bool']:
        for b in NUMERIC + ['str']:
            table_case('op_if', [('S', a), ('S', 'bool'), ('S', b)])
            table_case('fn_contains', [('A', ('S', a)), ('S', b)])
    table_case('fn_str_repeat', [('S', 'str'), ('S', 'int16')])
    table_case('fn_round', [('S', 'int16')])
    table_case('fn_round', [('S', 'decimal'), ('S', 'int32')])
    table_case('fn_array_join', [('A', ('S', 'str')), ('S', 'str')])

    ctx.log(f'L2a table cases done ({n_tab})')
    # ---------------------------------------------------------------- L2b: generated queries
    g = Gen(rng, [(gen['ident'][a], gen['ident'][b]) for a, b in gen['edges']])
    queries = []
    qmeta = {}      # EdgeQL text of a directed tuple query -> (operand queries, position of their common type)
    if ctx.replay:
        rp = json.load(open(ctx.replay))
        for f in rp['failures']:
            d = f.get('detail')
            if isinstance(d, dict) and isinstance(d.get('query'), list):
                queries.append(_untuple(d['query']))
                if 'meta' in d:
                    ops_, where_ = d['meta']
                    qmeta[q_ql(queries[-1])] = ([_untuple(o) for o in ops_], where_)
    else:
        seen = set()
        dq = directed_queries()
        uq = user_scalar_queries()
        for q in (dq if not ctx.quick() else rng.sample(dq, 120)) + \
                (uq if not ctx.quick() else rng.sample(uq, 300)):
            if q_enc(q) in seen:
                continue
            seen.add(q_enc(q))
            queries.append(q)
        tq = tuple_queries()
        for q, m in (tq if not ctx.quick() else rng.sample(tq, 260)):
            text_ = q_ql(q)
            if text_ in qmeta:
                continue
            qmeta[text_] = m
            seen.add(q_enc(q))
            queries.append(q)
        n_directed = len(queries)
        target = n_directed + ctx.budget(450, 10000)
        tries = 0
        while len(queries) < target and tries < target * 20:
            tries += 1
            q = fix_arity(g.top(rng.choice([1, 2, 2, 3, 3, 4])))
            if size(q) > 40:
                continue
            key = q_enc(q)
            if key in seen:
                continue
            seen.add(key)
            queries.append(q)

    ctx.log(f'{len(queries)} queries generated')
    sctx = env.server_context(sch)
    ctx.log('server compiler context ready')
    tdb = toy_db(model)
    n_q = {'ok': 0, 'none': 0, 'unsupported': 0, 'crash': 0, 'rejected-other': 0}
    other_rej = {}
    n_desc = n_toy = n_toy_vals = n_shape = n_operand_checks = 0
    sql_crashes = {}
    toy_skipped = {'not-toy-evaluable': 0, 'toy-error': 0, 'bigint-division': 0, 'complex-result(runtime error in PostgreSQL)': 0}
    kinds_hist = {}
    cons_hist = {}
    q_info = []
    import time as _t
    tm = {'ir': 0.0, 'server': 0.0, 'toy': 0.0}
    for q in queries:
        text = 'select ' + q_ql(q)
        _t0 = _t.time()
        r = compile_ty(text)
        tm['ir'] += _t.time() - _t0
        n_q[r[0]] += 1
        constructs(q, cons_hist)
        if r[0] == 'rejected-other':
            k2 = r[1].split(':')[0] + ': ' + ' '.join(r[1].split(': ', 1)[1].split()[:6])
            other_rej.setdefault(k2, text)
        if r[0] in ('unsupported', 'rejected-other'):
            continue
        add('infer ' + q_enc(q), res_line(r), 'q', (q, text))
        if r[0] != 'ok':
            continue
        rt = r[1]
        if q_ql(q) in qmeta:
            # --- operand oracle on the REAL code: the compiler accepted a polymorphic context; every operand
            # type must be implicitly castable (real `implicitly_castable_to`) to the type the operands were
            # unified to — arity and element names included; for bool-valued contexts the operands must
            # have a common type (real `find_common_implicitly_castable_type`)
            ops, where = qmeta[q_ql(q)]
            n_operand_checks += 1
            try:
                target = (rt if where == 'R' else rt[1] if where == 'elem' else
                          (rt[1][0][1] if rt[0] == 'N' else rt[1][0]) if where == 'first' else None)
                otys = []
                for o in ops:
                    ro = compile_ty('select ' + q_ql(o))
                    if ro[0] != 'ok':
                        raise Unsupported('operand does not compile alone')
                    otys.append(ro[1])
                s2 = sch
                robjs = []
                for t_ in otys:
                    s2, o_ = mk_real(s2, t_)
                    robjs.append(o_)
                if where == 'bool':
                    s3, ct = robjs[0].find_common_implicitly_castable_type(robjs[1], s2)
                    if ct is None:
                        oracle_fail.append((f'oracle:operands-no-common:{text}',
                                            'accepted although the operand types have no common type',
                                            {'query': q, 'text': text, 'meta': [ops, where],
                                             'operand_types': [ty_show(t_) for t_ in otys]}))
                else:
                    s2, T_ = mk_real(s2, target)
                    for t_, o_ in zip(otys, robjs):
                        if not o_.implicitly_castable_to(T_, s2):
                            oracle_fail.append((f'oracle:operand-not-castable:{text}',
                                                'an operand type is not implicitly castable to the reported result type '
                                                '(tuple arity / element names): its values do not belong to the inferred type',
                                                {'query': q, 'text': text, 'meta': [ops, where],
                                                 'operand_type': ty_show(t_),
                                                 'unified_type': ty_show(target), 'stype': ty_show(rt)}))
                            break
            except Unsupported:
                pass
        add('eval ' + q_enc(q), None, 'q-eval', (q, text, rt))
        # --- descriptor (the server compiler also generates SQL, ~0.1 s per query: every shape, and a
        # seeded third of the other queries)
        _t0 = _t.time()
        do_desc = q[0] == 'sh' or rng.random() < 0.34
        try:
            if not do_desc:
                raise Unsupported('not sampled')
            grp = env.server_compile(sctx, text)
            unit = grp.units[0] if hasattr(grp, 'units') else grp[0]
            desc = sertypes.parse(unit.out_type_data, sctx.protocol_version)
            dt, els = desc_ty(desc, gen)
            n_desc += 1
            if dt != rt:
                oracle_fail.append((f'oracle:descriptor:{q_enc(q)}',
                                    'type in the output descriptor differs from the inferred type',
                                    {'query': q, 'text': text, 'stype': ty_show(rt), 'descriptor': ty_show(dt)}))
            if q[0] == 'sh' and els is not None:
                n_shape += 1
                want = {f'e{i}': None for i in range(len(q[2]))}
                got = {k: ty_enc(v) for k, v in els.items()}
                if set(got) != set(want):
                    oracle_fail.append((f'oracle:shape-fields:{q_enc(q)}', 'descriptor shape fields differ from the query',
                                        {'query': q, 'text': text, 'fields': sorted(got)}))
                add('shape ' + q_enc(q), f'ok {len(q[2])} ' + ' '.join(got.get(f'e{i}', '?') for i in range(len(q[2]))),
                    'q-shape', (q, text))
        except Unsupported:
            pass
        except edb_errors.InternalServerError as e:
            # a crash of the SQL generator, not a typing matter (C13's area): tallied and reported in the notes
            c_ = e.__cause__ or e.__context__
            k_ = type(c_).__name__ if c_ is not None else 'InternalServerError'
            sql_crashes.setdefault(k_, text)
        except Exception as e:
            oracle_fail.append((f'oracle:descriptor-error:{q_enc(q)}', 'server compiler failed on a query the compiler typed',
                                {'query': q, 'text': text, 'error': type(e).__name__ + ': ' + str(e)[:200]}))
        tm['server'] += _t.time() - _t0
        # --- values
        _t0 = _t.time()
        if not toy_ok(q):
            toy_skipped['not-toy-evaluable'] += 1
            continue
        if uses_big_div(q):
            toy_skipped['bigint-division'] += 1
            continue
        try:
            vals = model.toplevel_query(model.parse(text), tdb)
        except Exception:
            toy_skipped['toy-error'] += 1
            continue
        tm['toy'] += _t.time() - _t0

        def _has_complex(v):
            if isinstance(v, complex):
                return True
            if isinstance(v, (list, tuple, set, frozenset)):
                return any(_has_complex(x) for x in v)
            if isinstance(v, dict):
                return any(_has_complex(x) for x in v.values())
            return False
        if any(_has_complex(v) for v in vals):
            # Python's `**` returns a complex number for a negative base and a fractional exponent;
            # PostgreSQL raises "a negative number raised to a non-integer power yields a complex result":
            # the query has no value there, so there is nothing to compare with the inferred type
            toy_skipped['complex-result(runtime error in PostgreSQL)'] += 1
            continue
        n_toy += 1
        n_toy_vals += len(vals)
        for v in vals:
            kd = pykind(v, model)
            kinds_hist[kd] = kinds_hist.get(kd, 0) + 1
            if not inhabits(v, rt, model, tdb):
                oracle_fail.append((f'oracle:value:{q_enc(q)}',
                                    'a value of the reference evaluator does not inhabit the inferred type',
                                    {'query': q, 'text': text, 'stype': ty_show(rt), 'value_kind': kd}))
                break
        q_info.append((text, ty_enc(rt)))

    # ---------------------------------------------------------------- tuples in subtype positions
    from edb.common import ast as edb_ast
    from edb.ir import ast as irast, typeutils as irtyputils
    sub_stats = {'override': [0, 0], 'funcarg': [0, 0], 'funcret': [0, 0], 'overload': [0, 0]}   # accepted, flagged
    arity_instances = []

    def castable_erased(s_, actual, declared):
        s_, A_ = mk_real(s_, erase_names(actual))
        s_, D_ = mk_real(s_, erase_names(declared))
        return A_.implicitly_castable_to(D_, s_)

    def try_schema(sdl_):
        try:
            return env.load_schema(sdl_)
        except edb_errors.EdgeDBError:
            return None

    def subtype_case(site, P, Q, key, sdl_=None, query=None):
        """P declared, Q actual.  Returns after recording an oracle failure when the real code lets a value of
        type Q flow under the declared / inferred type P although Q is not implicitly castable to P."""
        detail = {'site': site, 'declared': ty_show(P), 'actual': ty_show(Q)}
        if site == 'override':
            sdl_ = sdl_ or f'type A {{ p: {ty_ql(P)}; }} type B extending A {{ overloaded p: {ty_ql(Q)}; }}'
            s_ = try_schema(sdl_)
            if s_ is None:
                return
            sub_stats[site][0] += 1
            query = query or 'select A.p'
            r_ = None
            try:
                ir_ = env.compile_to_ir(s_, query)
                r_ = real_ty(ir_.stype, ir_.schema, gen)
            except Exception:
                pass
            if castable_erased(sch, Q, P):
                return
            detail.update({'sdl': sdl_, 'query': query, 'stype': ty_show(r_) if r_ else None,
                           'stored_value_of_B.p': repr(py_of(Q)),
                           'value_inhabits_stype': bool(r_) and inhabits(py_of(Q), erase_names(r_), model, tdb),
                           'what': "insert B { p := " + lit_of(Q) + " } is accepted and `" + query +
                                   "` yields that value under the inferred type"})
        elif site == 'funcarg':
            sdl_ = sdl_ or f'function fa(x: {ty_ql(P)}) -> {ty_ql(P)} using (x);'
            s_ = try_schema(sdl_)
            if s_ is None:
                return
            query = query or f'select fa({lit_of(Q)})'
            try:
                ir_ = env.compile_to_ir(s_, query)
            except edb_errors.EdgeDBError:
                return
            sub_stats[site][0] += 1
            r_ = real_ty(ir_.stype, ir_.schema, gen)
            # the type of the argument as it is PASSED (after the casts finalize_args inserted)
            bad = None
            for call in edb_ast.find_children(ir_.expr, irast.FunctionCall):
                if str(call.func_shortname) != 'default::fa':
                    continue
                a0 = list(call.args.values())[0]
                s3, at = irtyputils.ir_typeref_to_type(ir_.schema, a0.expr.typeref)
                passed = real_ty(at, s3, gen)
                if not castable_erased(sch, passed, P):
                    bad = passed
            if bad is None:
                return
            detail.update({'sdl': sdl_, 'query': query, 'stype': ty_show(r_), 'passed_argument_type': ty_show(bad),
                           'value': repr(py_of(Q)),
                           'value_inhabits_stype': inhabits(py_of(Q), erase_names(r_), model, tdb),
                           'what': 'the identity function returns its argument: the value does not belong to the inferred type'})
        elif site == 'funcret':
            sdl_ = sdl_ or f'function fr() -> {ty_ql(P)} using ({lit_of(Q)});'
            s_ = try_schema(sdl_)
            if s_ is None:
                return
            sub_stats[site][0] += 1
            query = query or 'select fr()'
            ir_ = env.compile_to_ir(s_, query)
            r_ = real_ty(ir_.stype, ir_.schema, gen)
            if castable_erased(sch, Q, P):
                return
            detail.update({'sdl': sdl_, 'query': query, 'stype': ty_show(r_), 'value': repr(py_of(Q)),
                           'value_inhabits_stype': inhabits(py_of(Q), erase_names(r_), model, tdb)})
        else:   # overload
            if erase_names(P) == erase_names(Q):
                return      # overloads that differ in element names only: positional, not an arity matter
            sdl_ = sdl_ or (f'function fo(x: {ty_ql(P)}) -> int64 using (1); '
                            f'function fo(x: {ty_ql(Q)}) -> int64 using (2);')
            s_ = try_schema(sdl_)
            if s_ is None:
                return
            sub_stats[site][0] += 1
            query = query or f'select fo({lit_of(P)})'
            try:
                env.compile_to_ir(s_, query)
                return
            except edb_errors.EdgeDBError as e:
                if 'is not unique' not in str(e):
                    return
                detail.update({'sdl': sdl_, 'query': query, 'error': str(e)[:120],
                               'what': 'both overloads were accepted by the DDL, yet a call whose argument has exactly '
                                       'one of the declared types is ambiguous'})
        sub_stats[site][1] += 1
        detail['instance'] = key
        arity_instances.append(detail)

    # corpus witnesses first (hand-minimised; always run)
    cpath = os.path.join(core.VERIF, 'corpus', 'C12', 'arity.case')
    n_corpus = 0
    if os.path.exists(cpath):
        for ln in open(cpath):
            if ln.strip():
                w = json.loads(ln)
                subtype_case(w['site'], _untuple(w['declared']), _untuple(w['actual']),
                             f"corpus:{w['name']}",
                             sdl_=w['sdl'], query=w['query'])
                n_corpus += 1
    if not ctx.replay:
        pool = subtype_type_pool()
        pairs = [(P, Q) for P in pool for Q in pool if P != Q]
        if ctx.quick():
            pairs = rng.sample(pairs, 28)
        for P, Q in pairs:
            for site in ('override', 'funcarg', 'funcret', 'overload'):
                subtype_case(site, P, Q, f'{site}:{ty_show(P)}:{ty_show(Q)}')
    if arity_instances:
        # ONE root-cause key (matched against known_findings.json); the instances are in the detail
        oracle_fail.append(('oracle:collection-subclass-arity',
                            'a tuple of another arity / element type is accepted where a tuple type is declared '
                            '(Collection._issubclass zips the element types without comparing their number)',
                            {'count': len(arity_instances), 'instances': arity_instances[:16]}))
    ctx.log(f'subtype positions: {n_corpus} corpus witnesses, accepted/flagged per site {sub_stats}')

    ctx.log('query loop seconds: ' + ', '.join(f'{k}={v:.1f}' for k, v in tm.items()))
    ctx.log(f'real side done: {n_l1} scalar lines, {n_coll} collection pairs, {n_tab} table cases {tab_hist}, '
            f'{len(queries)} queries {n_q}, {n_desc} descriptors, {n_toy} toy evaluations ({n_toy_vals} values)')

    # ---------------------------------------------------------------- model side
    out = ctx.driver('C12', lines)
    if len(out) != len(lines):
        raise core.Infra(f'driver returned {len(out)} lines for {len(lines)}')

    n_dis = 0
    dis_hist = {}
    agree_bad = 0
    for line, real, (kind, info), m in zip(lines, expect, meta, out):
        if m == 'bad-op':
            raise core.Infra(f'driver rejected line: {line[:200]}')
        if kind == 'q-eval':
            # the model's evaluator on the same database: every run-time type tag must be the type the
            # REAL compiler inferred (an executable instance of C12_sound, tied to the real stype)
            q, text, rt = info
            if m.startswith('ok '):
                tags = [x for x in m.split(' ; ', 1)[1].split(' | ') if x]
                if any(t != ty_enc(rt) for t in tags):
                    n_dis += 1
                    dis_hist[kind] = dis_hist.get(kind, 0) + 1
                    ctx.fail(f'corr:eval:{line}', 'model evaluator produced a value whose tag differs from the real inferred type',
                             {'query': q, 'text': text, 'stype': ty_enc(rt), 'model': m}, no_input=True)
            continue
        mm = m
        if kind == 'q' and m.startswith('ok '):
            mm, _, flag = m.rpartition(' c=')
            if flag != '1' and real.startswith('ok '):
                ctx.fail(f'corr:incalc:{line}', 'accepted query outside the model calculus: a primitive\'s result type '
                         'differs from the declared return type, or an argument is not castable to its parameter',
                         {'query': info[0], 'text': info[1], 'model': m}, no_input=True)
        if kind == 'tab':
            # resolve prints `ok <ret> ; <ptys> ; <primRet agrees>`
            if m.startswith('ok '):
                parts = m.split(' ; ')
                mm = parts[0]
                if parts[2] == '0':
                    agree_bad += 1
                    ctx.fail(f'corr:primret:{line}', 'model: primitive result type differs from the declared return type',
                             {'line': line, 'model': m}, no_input=True)
            elif m.startswith('ambiguous'):
                mm = 'none'
        if mm != real:
            n_dis += 1
            dis_hist[kind] = dis_hist.get(kind, 0) + 1
            detail = {'line': line, 'real': real, 'model': m}
            if kind in ('q', 'q-shape'):
                detail.update({'query': info[0], 'text': info[1]})
            elif kind == 'tab':
                detail['text'] = info[2]
            ctx.fail(f'corr:{kind}:{line}', 'model and implementation disagree', detail, no_input=True)
    for key, what, detail in oracle_fail:
        ctx.fail(key, what, detail)
    if not proved:
        ctx.proof_broken_verdict()

    distinct = {l for l, (k, _) in zip(lines, meta) if k in ('tab', 'q', 'l1-cdist', 'l1-ccommon')}
    nontrivial = sum(1 for l, (k, i) in zip(lines, meta)
                     if l in distinct and (k != 'q' or size(i[0]) >= 3))
    ctx.cov.update({
        'evaluations': len(lines) - 2,
        'distinct_nontrivial': nontrivial,
        'rule': 'distinct protocol lines; non-trivial = operator/function table case, collection type pair, or '
                'generated query with >= 3 AST nodes (scalar-pair lines are exhaustive and counted separately)',
        'samples': [f'{t}  ::  {ty}' for t, ty in q_info[:3] + q_info[len(q_info) // 2:len(q_info) // 2 + 2]],
        'scalar_pairs_exhaustive': len(idents) ** 2,
        'collection_type_pairs': n_coll,
        'table_cases': n_tab, 'table_outcomes': tab_hist,
        'numeric_operator_pairs_exhaustive': len(binops) * len(NUMERIC) ** 2,
        'queries': len(queries), 'directed_mixed_type_queries': (0 if ctx.replay else n_directed),
        'query_outcomes_real': n_q, 'rejected_for_non_typing_reasons': other_rej,
        'descriptors_compared': n_desc, 'shape_descriptors_compared': n_shape,
        'tuple_operand_castability_checks': n_operand_checks,
        'tuple_subtype_positions_accepted_flagged': sub_stats, 'corpus_witnesses': n_corpus,
        'sql_generator_internal_errors_on_typed_queries': sql_crashes,
        'toy_evaluations': n_toy, 'toy_values_classified': n_toy_vals, 'toy_skipped': toy_skipped,
        'toy_value_kinds': dict(sorted(kinds_hist.items(), key=lambda kv: -kv[1])[:25]),
        'construct_histogram': dict(sorted(cons_hist.items(), key=lambda kv: -kv[1])),
        'disagreements_model_vs_impl': n_dis, 'disagreement_kinds': dis_hist,
        'generated_tables': {'scalars': len(gen['universe']), 'implicit_edges': len(gen['edges']),
                             'overloads': len(gen['callables']), 'regenerated_changed': gen['changed']},
        'std_schema': env.std_info(),
        'exhaustive': False,
        'correspondence': 'real schema/compiler (std schema bootstrapped through the bridge) vs Lean '
                          'EdbVerif.Types.{castDist,implCastable,commonType,commonS,resolve,inferType,inferShape,eval}',
    })
    ctx.assumptions += [
        'toy_eval_model evaluates with Python numbers: int16/int32/int64/bigint are all `int`, float32/float64 `float`; '
        'it applies no implicit casts, so an `int` is accepted as inhabiting float*/decimal; value-level agreement is '
        'checked at that granularity only',
        'queries using bigint/decimal literals, typed empty sets, casts other than str/int32/int64, shapes, EXCEPT/INTERSECT, '
        'str_lower/upper, math::abs are outside toy_eval_model and are checked at type level only; `/`, `^`, mean on a '
        'bigint operand are excluded from the value check (Python computes in float where EdgeDB computes in decimal)',
        'the object schema of the model is flat (no inheritance); named tuples, ranges, enums, parameters with defaults, '
        'variadic and named-only parameters are outside the model (such overloads are carried as never-matching)',
        'set iteration order inside casts.find_common_castable_type is not controllable from the harness; the model '
        'computes ALL order-dependent results and the proof shows the set is a singleton on the generated table',
    ]
    ctx.trusted_base += [
        'hand-written models EdbVerif/Model/Types.lean (casts.py, types.py, scalars.py, polyres.py, func.py selection '
        'logic) and Model/TypesQL.lean (reference evaluator = specification of the value semantics)',
        'harness/gen/types.py (extraction of the tables from the real std schema) and its shape checks',
        'harness/bridge (parser bridge, std bootstrap, server compiler context) and harness/props/c12.py '
        '(generator, printers, type/descriptor canonicalisation, Python-kind classifier)',
    ]


def _untuple(x):
    """JSON round trip turns tuples into lists: rebuild the generator's tuple-shaped AST"""
    if isinstance(x, list):
        if x and isinstance(x[0], str) and x[0] in ('li', 'ln', 'lf', 'ld', 'ls', 'lb', 'em', 'tu', 'ar', 'set', 'ca',
                                                    'cs', 'va', 'fo', 'fi', 'ob', 'pa', 'sh', 'S', 'O', 'A', 'T',
                                                    'nt', 'U', 'N'):
            return tuple(_untuple(y) for y in x)
        return [_untuple(y) for y in x]
    return x
