"""Scope-collision schemas for C03 (stored expressions whose local names collide with
schema names).

A *scope schema* is built by DDL (not SDL) in two user modules that contain the
SAME object names (`default::User`, `other::User`, `f`, `g`, `Other`, `Holder`): each
statement is written with UNQUALIFIED names and applied in a session whose current
module is the module being populated — the situation in which name normalisation
(edb/edgeql/compiler/normalization.py) has to qualify every schema reference in the
stored text, and in which an unqualified leftover silently means something else when
the DESCRIBE text is replayed under the other module.

Every stored-expression position is covered: computed property / multi property /
link, default, alias, global, function body (+ a parameter named like a type),
constraint `expression on` (pointer, object), abstract constraint `using`, index
expression, access-policy `using`, trigger body and `when`, rewrite.

Expression templates: WITH aliases named like a type / a std function / a user
function referenced inside their own definition, nested WITH, later aliases using
earlier ones, FOR variables named like types, GROUP … USING aliases (incl. one named
like the type), SELECT result aliases, shape elements named like types, type
positions (`is`, casts).  All (position, expression) pairs below are accepted by the
unchanged tree (probed; a rejection is reported as `loader-rejects:*`).
"""
from __future__ import annotations

import re

BASE_SDL = '''
module default {
  type User { property name -> str; property active -> bool; property age -> int64; link friend -> User; }
  type Other { property name -> str; }
  function f(x: str) -> str { volatility := 'Immutable'; using (x ++ '!'); }
  global g -> str;
  type Holder { property tag -> str; property name -> str; }
}
module other {
  type User { property name -> str; property active -> bool; property age -> int64; link friend -> User;
              property extra -> str; }
  type Other { property name -> str; property extra -> str; }
  function f(x: str) -> str { volatility := 'Immutable'; using (x ++ '?'); }
  global g -> str;
  type Holder { property tag -> str; property name -> str; }
}
'''
MODULES = ('default', 'other')

INT = {
    'with-self-type': "(with User := (select User filter .active) select count(User))",
    'with-self-stdfunc': "(with count := count(User) select count)",
    'nested-with': "(with User := (with User := (select User filter .active) select User) select count(User))",
    'for-var-type': "count((for User in User union (User.name)))",
    'group-using': "count((group User using name := .name by name))",
    'group-using-type': "count((group User using User := .name by User))",
    'with-chain': "(with A := (select User), B := (select A filter .active) select count(B))",
    'shape-names-types': "count((select User { Other := .name, User := count(Other) }))",
    'with-self-len': "(with len := len('abc') select len)",
    'is-type': "count((select User filter User is User))",
    'with-other': "count((with Other := (select Other filter .name = 'a') select Other))",
    'result-alias': "count((select U := User filter U.active))",
    'for-with-rebinding': "count((for x in User union (with User := x select User.name)))",
}
STR = {
    'with-self-userfunc': "(with f := f('a') select f)",
    'with-self-stdfunc-str': "(with str_upper := str_upper('a') select str_upper)",
    'userfunc-and-cast': "(with x := 'a' select f(x) ++ <str>count(User))",
    'global-ref': "f((global g) ?? 'z')",
}
BOOL = {
    'with-self-exists': "(with User := (select User filter .active) select exists User)",
    'with-count': "(with n := count(Other) select n >= 0)",
}
OBJ = {
    'subquery-with': "(select User filter .name in (with Other := (select Other) select Other.name))",
    'with-self-shape': "(with User := (select User filter .active) select User { Other := .name })",
    'with-self-plain': "(with User := (select User filter .active) select User)",
}
# rejected by the unchanged tree (position restrictions), probed once
REJECTED = {
    ('cprop', 'with-self-stdfunc'), ('cprop', 'with-self-len'), ('cprop', 'with-self-userfunc'),
    ('cprop', 'with-self-stdfunc-str'), ('default', 'with-self-stdfunc'), ('default', 'with-self-len'),
    ('default', 'with-self-userfunc'), ('default', 'with-self-stdfunc-str'),
    ('rewrite', 'with-self-userfunc'), ('rewrite', 'with-self-stdfunc-str'),
    ('global', 'group-using'), ('global', 'group-using-type'), ('alias', 'group-using'),
    ('alias', 'group-using-type'), ('clink', 'with-self-shape'), ('clink', 'with-self-plain'),
}


def _positions():
    """position -> [(expression key, DDL statement template)]; `@` is replaced by a fresh number"""
    pos = {}

    def add(p, k, stmt):
        if (p, k) not in REJECTED:
            pos.setdefault(p, []).append((k, stmt))

    for k, e in {**INT, **STR}.items():
        ty = 'int64' if k in INT else 'str'
        add('cprop', k, f"alter type Holder {{ create property x@ := {e} }};")
        add('global', k, f"create global gx@ := {e};")
        add('alias', k, f"create alias Ax@ := {e};")
        add('func', k, f"create function fx@(y: str) -> {ty} using ({e});")
        add('default', k, f"alter type Holder {{ create property x@ -> {ty} {{ set default := {e} }} }};")
    for k, e in STR.items():
        add('rewrite', k, f"alter type Holder {{ create property x@ -> str {{ create rewrite insert using ({e}) }} }};")
    for k, e in INT.items():
        add('trigger', k, f"alter type Holder {{ create trigger tx@ after insert for each do (select {e}) }};")
    for k, e in BOOL.items():
        add('policy', k, f"alter type Holder {{ create access policy px@ allow all using ({e}) }};")
        add('trigger-when', k,
            f"alter type Holder {{ create trigger tx@ after update for each when ({e}) do (select 1) }};")
    for k, e in OBJ.items():
        add('clink', k, f"alter type Holder {{ create multi link x@ := {e} }};")
        add('alias', k, f"create alias Ax@ := {e};")
        add('global', k, f"create global gx@ := {e};")
    add('cmulti', 'for-var-type', "alter type Holder { create multi property x@ := (for User in User union (User.name)) };")
    add('constraint', 'with-len',
        "alter type Holder { create property x@ -> str { create constraint expression on "
        "((with l := len(__subject__) select l < 100)) } };")
    add('constraint', 'with-self-userfunc',
        "alter type Holder { create property x@ -> str { create constraint expression on "
        "((with f := f(__subject__) select f != 'zz')) } };")
    add('object-constraint', 'with-len',
        "alter type Holder { create constraint expression on ((with l := len(.tag) select l < 10@)) };")
    add('object-constraint', 'with-self-userfunc',
        "alter type Holder { create constraint expression on ((with f := f(.tag) select f != 'q@')) };")
    add('abstract-constraint', 'with-len',
        "create abstract constraint cx@(v: int64) { using ((with l := len(__subject__) select l <= v)) };")
    add('index', 'with-stdfunc', "alter type Holder { create index on ((with l := str_lower(.name) select (l, '@'))) };")
    add('index', 'with-self-userfunc', "alter type Holder { create index on ((with f := f(.name) select (f, '@'))) };")
    add('func-param', 'param-named-like-type', "create function fx@(User: str) -> str using (User ++ '!');")
    add('func-param', 'body-with-param',
        "create function fx@(x: str) -> int64 using ((with User := (select User filter .name = x) select count(User)));")
    add('trigger-dml', 'insert', "alter type Holder { create trigger tx@ after insert for each do "
                                 "(insert Other { name := __new__.name }) };")
    add('trigger-dml', 'with-new',
        "alter type Holder { create trigger tx@ after insert for each do "
        "(with Other := (select Other filter .name = __new__.name) select count(Other)) };")
    return pos


POSITIONS = _positions()

# the unchanged tree leaves these unqualified (an alias of the same name is visible at a
# position an alias cannot bind): kept apart as a corpus witness
KNOWN_DEFECT_STMTS = [
    ("func@alias", "alter type Holder { create property kd1 := (with f := 'a' select f(f)) };"),
    ("type@alias", "alter type Holder { create property kd2 := (with str := 'a' select <str>str) };"),
]


def scope_script(rng, per_position: int | None, split: bool = False):
    """-> [(module, statement, position, expression key)].  per_position=None: everything.
    split: every position once, positions dealt alternately to the two modules (quick tier)."""
    out = []
    n = 0
    flip = rng.randint(0, 1)
    for mi, mod in enumerate(MODULES):
        for pi, (p, alts) in enumerate(POSITIONS.items()):
            if split and (pi + flip) % 2 != mi:
                continue
            chosen = alts if per_position is None else rng.sample(alts, min(per_position, len(alts)))
            for k, stmt in chosen:
                n += 1
                out.append((mod, stmt.replace('@', str(n)), p, k))
    return out


def known_defect_script():
    return [('default', stmt, 'cprop', k) for k, stmt in KNOWN_DEFECT_STMTS]


def script_text(script):
    return '\n'.join(f'# module {m}\n{s}' for m, s, _p, _k in script)


def parse_script_text(text):
    out = []
    mod = None
    for line in text.split('\n'):
        m = re.match(r'# module (\S+)$', line)
        if m:
            mod = m.group(1)
        elif line.strip():
            out.append((mod, line, '?', '?'))
    return out


# ---------------------------------------------------------------------------------------------
# Dependent-validity schemas: an expression that is only well-formed BECAUSE of a property of
# another declaration (an exclusive constraint makes a filter a singleton; required-ness; the
# cardinality of a pointer declared later).  Loading such SDL needs the declaration that provides
# the property to be applied BEFORE the expression is compiled (edb/edgeql/declarative.py orders
# the commands); DESCRIBE prints declarations alphabetically, so the owner of the expression is
# named to sort before (`A…`) or after (`Z…`) the type it leans on (`M…`).  Every pair has its own
# referenced type, so that no other declaration (functions print first in a module) pulls the
# constraint in earlier.

# kind -> (declarations of the referenced type, singleton expression over it)
DEP_REFS = {
    'prop-exclusive': ("type {R} {{ required property name: str {{ constraint exclusive; }}; property tag: str; }}",
                       "(select {QR} filter .name = 'x')"),
    'object-exclusive-on': ("type {R} {{ required property name: str; constraint exclusive on (.name); "
                            "property tag: str; }}", "(select {QR} filter .name = 'x')"),
    'tuple-exclusive': ("type {R} {{ required property a: str; required property b: int64; "
                        "constraint exclusive on ((.a, .b)); property tag: str; }}",
                        "(select {QR} filter .a = 'x' and .b = 1)"),
    'link-exclusive': ("type {T}; type {R} {{ required link owner: {T} {{ constraint exclusive; }}; "
                       "property tag: str; }}", "(select {QR} filter .owner = (select {QT} limit 1))"),
    'inherited-exclusive': ("abstract type {N} {{ required property name: str {{ constraint exclusive; }}; }} "
                            "type {R} extending {N} {{ property tag: str; }}", "(select {QR} filter .name = 'x')"),
    'delegated-exclusive': ("abstract type {N} {{ required property name: str {{ delegated constraint exclusive; }}; }} "
                            "type {R} extending {N} {{ property tag: str; }}", "(select {QR} filter .name = 'x')"),
    'user-scalar-exclusive': ("scalar type {C} extending str; type {R} {{ required property name: {C} "
                              "{{ constraint exclusive; }}; property tag: str; }}",
                              "(select {QR} filter .name = <{QC}>'x')"),
}
# position -> declarations of the owner; E = the singleton expression
DEP_POS = {
    'link-default': "type {O} {{ property tag: str; link dflt: {QR} {{ default := E; }}; }}",
    'property-default': "type {O} {{ property tag: str; property d: str {{ default := (E).tag; }}; }}",
    'rewrite': "type {O} {{ property tag: str; property r: str {{ rewrite insert using ((E).tag); }}; }}",
    'computed-single-link': "type {O} {{ property tag: str; single link c := E; }}",
    'computed-link-inferred': "type {O} {{ property tag: str; link c := E; }}",
    'computed-single-property': "type {O} {{ property tag: str; single property cp := (E).tag; }}",
    'policy': "type {O} {{ property tag: str; access policy p allow all using (((E).tag ?= .tag)); }}",
    'trigger-when': "type {O} {{ property tag: str; trigger t after insert for each "
                    "when (((E).tag ?= __new__.tag)) do (select 1); }}",
    'trigger-body': "type {O} {{ property tag: str; trigger t after insert for each do "
                    "(select assert((E).tag ?!= __new__.tag)); }}",
    'function-object': "type {O}; function {F}() -> optional {QR} using (E);",
    'function-scalar': "type {O}; function {F}() -> optional str using ((E).tag);",
    'global-single': "type {O}; single global {G} := E;",
    'global-inferred': "type {O}; global {G} := (E).tag;",
    'alias': "type {O}; alias {A} := E;",
    'required-computed': "type {O} {{ property tag: str; required single link c := assert_exists(E); }}",
}
# expressions of a type that lean on its OWN pointers declared later in the text
# (pointers first in the ORIGINAL text, so that it also loads member by member as DDL; DESCRIBE prints
# constraints and indexes first and the pointers alphabetically: `both` < `flag` < `rq` around `a`, `b`)
SELF_DEP = ("type {O} {{ required property a: str; required property b: int64; required property flag: bool; "
            "required property rq := .a; single property both := .a ++ <str>.b; "
            "constraint exclusive on (.a) except (.flag); index on ((.a, .b)); "
            "constraint expression on (.b > 0 or .flag); }}")


# On the UNCHANGED tree the ordering pass does not put an OBJECT-level constraint
# (`constraint exclusive on (…)`) before a default or a function body that leans on it (only
# constraints declared ON the pointer are pulled in, by a name-prefix scan): kept apart as the
# corpus witness `dep-object-constraint`, excluded from the generated schemas.
OBJECT_LEVEL = ('object-exclusive-on', 'tuple-exclusive')


def dep_known_bad(kind, pos, before):
    if kind not in OBJECT_LEVEL:
        return False
    return pos.startswith('function-') or (pos in ('link-default', 'property-default') and before)


def dep_known_bad_schema():
    """two pairs of the known-bad class (owner printed before the referenced type / function)"""
    names0 = dict(R='M0Ref', T='M0Tgt', N='M0Named', C='M0Code', O='A0Own', F='fn0', G='gl0', A='Al0',
                  QR='M0Ref', QT='M0Tgt', QN='M0Named', QC='M0Code')
    names1 = {k: v.replace('0', '1') for k, v in names0.items()}
    r0, e0 = DEP_REFS['object-exclusive-on']
    r1, e1 = DEP_REFS['tuple-exclusive']
    decls = [r0.format(**names0), r1.format(**names1),
             DEP_POS['link-default'].replace('E', e0.format(**names0)).format(**names0),
             DEP_POS['function-object'].replace('E', e1.format(**names1)).format(**names1)]
    return 'module default {\n  ' + '\n  '.join(decls) + '\n}'


def dep_schema(rng, positions=None, ref_kinds=None, allow_known_bad=False):
    """-> (SDL text, [(position, ref kind, 'before'|'after', owner module, ref module)])"""
    positions = list(positions or DEP_POS)
    kinds = list(ref_kinds or DEP_REFS)
    decls = {m: [] for m in MODULES}
    owners = {m: [] for m in MODULES}
    info = []
    flip = rng.randint(0, 1)
    for k, pos in enumerate(positions):
        kind = rng.choice(kinds)
        before = (k + flip) % 2 == 0
        om = rng.choice(MODULES)
        rm = om if rng.random() < 0.6 else rng.choice(MODULES)
        # DESCRIBE prints the modules alphabetically too: across modules the module order decides
        printed_first = before if om == rm else (om < rm)
        if not allow_known_bad and dep_known_bad(kind, pos, printed_first):
            kind = rng.choice([x for x in kinds if x not in OBJECT_LEVEL] or ['prop-exclusive'])
        names = {'R': f'M{k}Ref', 'T': f'M{k}Tgt', 'N': f'M{k}Named', 'C': f'M{k}Code',
                 'O': f'{"A" if before else "Z"}{k}Own', 'F': f'fn{k}', 'G': f'gl{k}', 'A': f'Al{k}'}
        q = {('Q' + key): (val if rm == om and rng.random() < 0.5 else f'{rm}::{val}')
             for key, val in names.items() if key in 'RTNC'}
        rdecl, expr = DEP_REFS[kind]
        # inside the referenced module its own names may stay unqualified
        decls[rm].append(rdecl.format(**names, **{k2: v2.split('::')[-1] for k2, v2 in q.items()}))
        e = expr.format(**names, **q)
        owners[om].append(DEP_POS[pos].replace('E', e).format(**names, **q))
        info.append((pos, kind, 'before' if printed_first else 'after', om, rm))
    owners['default'].append(SELF_DEP.format(O='ASelfDep'))
    owners['other'].append(SELF_DEP.format(O='ZSelfDep'))
    # original text: ALL referenced declarations (of every module) first, then the owners — module blocks
    # may repeat in SDL.  apply_sdl regroups the declarations by module, so whether this text loads still
    # depends on the ordering pass (the harness then falls back to applying the declarations one by one
    # as DDL in this document order); DESCRIBE re-orders alphabetically.
    blocks = [(m, decls[m]) for m in MODULES] + [(m, owners[m]) for m in MODULES]
    text = '\n'.join(f'module {m} {{\n  ' + '\n  '.join(ds) + '\n}' for m, ds in blocks if ds)
    return text, info
