"""Scope-collision schemas for C03 (stored expressions whose local names collide with
schema names).

A *scope schema* is built by DDL (not SDL) in two user modules that contain the
SAME object names (`default::User`, `other::User`, `f`, `g`, `Other`, `Holder`): each
statement is written with UNQUALIFIED names and applied in a session whose current
module is the module being populated — the situation in which name normalisation
(edb/edgeql/compiler/normalization.py) has to qualify every schema reference in the
stored text, and in which an unqualified leftover silently means something else when
the DESCRIBE text is replayed under the other module.

Every stored-expression position is covered: computed property / multi property /
link, default, alias, global, function body (+ a parameter named like a type),
constraint `expression on` (pointer, object), abstract constraint `using`, index
expression, access-policy `using`, trigger body and `when`, rewrite.

Expression templates: WITH aliases named like a type / a std function / a user
function referenced inside their own definition, nested WITH, later aliases using
earlier ones, FOR variables named like types, GROUP … USING aliases (incl. one named
like the type), SELECT result aliases, shape elements named like types, type
positions (`is`, casts).  All (position, expression) pairs below are accepted by the
unchanged tree (probed; a rejection is reported as `loader-rejects:*`).
"""
from __future__ import annotations

import re

BASE_SDL = '''
module default {
  type User { property name -> str; property active -> bool; property age -> int64; link friend -> User; }
  type Other { property name -> str; }
  function f(x: str) -> str { volatility := 'Immutable'; using (x ++ '!'); }
  global g -> str;
  type Holder { property tag -> str; property name -> str; }
}
module other {
  type User { property name -> str; property active -> bool; property age -> int64; link friend -> User;
              property extra -> str; }
  type Other { property name -> str; property extra -> str; }
  function f(x: str) -> str { volatility := 'Immutable'; using (x ++ '?'); }
  global g -> str;
  type Holder { property tag -> str; property name -> str; }
}
'''
MODULES = ('default', 'other')

INT = {
    'with-self-type': "(with User := (select User filter .active) select count(User))",
    'with-self-stdfunc': "(with count := count(User) select count)",
    'nested-with': "(with User := (with User := (select User filter .active) select User) select count(User))",
    'for-var-type': "count((for User in User union (User.name)))",
    'group-using': "count((group User using name := .name by name))",
    'group-using-type': "count((group User using User := .name by User))",
    'with-chain': "(with A := (select User), B := (select A filter .active) select count(B))",
    'shape-names-types': "count((select User { Other := .name, User := count(Other) }))",
    'with-self-len': "(with len := len('abc') select len)",
    'is-type': "count((select User filter User is User))",
    'with-other': "count((with Other := (select Other filter .name = 'a') select Other))",
    'result-alias': "count((select U := User filter U.active))",
    'for-with-rebinding': "count((for x in User union (with User := x select User.name)))",
}
STR = {
    'with-self-userfunc': "(with f := f('a') select f)",
    'with-self-stdfunc-str': "(with str_upper := str_upper('a') select str_upper)",
    'userfunc-and-cast': "(with x := 'a' select f(x) ++ <str>count(User))",
    'global-ref': "f((global g) ?? 'z')",
}
BOOL = {
    'with-self-exists': "(with User := (select User filter .active) select exists User)",
    'with-count': "(with n := count(Other) select n >= 0)",
}
OBJ = {
    'subquery-with': "(select User filter .name in (with Other := (select Other) select Other.name))",
    'with-self-shape': "(with User := (select User filter .active) select User { Other := .name })",
    'with-self-plain': "(with User := (select User filter .active) select User)",
}
# rejected by the unchanged tree (position restrictions), probed once
REJECTED = {
    ('cprop', 'with-self-stdfunc'), ('cprop', 'with-self-len'), ('cprop', 'with-self-userfunc'),
    ('cprop', 'with-self-stdfunc-str'), ('default', 'with-self-stdfunc'), ('default', 'with-self-len'),
    ('default', 'with-self-userfunc'), ('default', 'with-self-stdfunc-str'),
    ('rewrite', 'with-self-userfunc'), ('rewrite', 'with-self-stdfunc-str'),
    ('global', 'group-using'), ('global', 'group-using-type'), ('alias', 'group-using'),
    ('alias', 'group-using-type'), ('clink', 'with-self-shape'), ('clink', 'with-self-plain'),
}


def _positions():
    """position -> [(expression key, DDL statement template)]; `@` is replaced by a fresh number"""
    pos = {}

    def add(p, k, stmt):
        if (p, k) not in REJECTED:
            pos.setdefault(p, []).append((k, stmt))

    for k, e in {**INT, **STR}.items():
        ty = 'int64' if k in INT else 'str'
        add('cprop', k, f"alter type Holder {{ create property x@ := {e} }};")
        add('global', k, f"create global gx@ := {e};")
        add('alias', k, f"create alias Ax@ := {e};")
        add('func', k, f"create function fx@(y: str) -> {ty} using ({e});")
        add('default', k, f"alter type Holder {{ create property x@ -> {ty} {{ set default := {e} }} }};")
    for k, e in STR.items():
        add('rewrite', k, f"alter type Holder {{ create property x@ -> str {{ create rewrite insert using ({e}) }} }};")
    for k, e in INT.items():
        add('trigger', k, f"alter type Holder {{ create trigger tx@ after insert for each do (select {e}) }};")
    for k, e in BOOL.items():
        add('policy', k, f"alter type Holder {{ create access policy px@ allow all using ({e}) }};")
        add('trigger-when', k,
            f"alter type Holder {{ create trigger tx@ after update for each when ({e}) do (select 1) }};")
    for k, e in OBJ.items():
        add('clink', k, f"alter type Holder {{ create multi link x@ := {e} }};")
        add('alias', k, f"create alias Ax@ := {e};")
        add('global', k, f"create global gx@ := {e};")
    add('cmulti', 'for-var-type', "alter type Holder { create multi property x@ := (for User in User union (User.name)) };")
    add('constraint', 'with-len',
        "alter type Holder { create property x@ -> str { create constraint expression on "
        "((with l := len(__subject__) select l < 100)) } };")
    add('constraint', 'with-self-userfunc',
        "alter type Holder { create property x@ -> str { create constraint expression on "
        "((with f := f(__subject__) select f != 'zz')) } };")
    add('object-constraint', 'with-len',
        "alter type Holder { create constraint expression on ((with l := len(.tag) select l < 10@)) };")
    add('object-constraint', 'with-self-userfunc',
        "alter type Holder { create constraint expression on ((with f := f(.tag) select f != 'q@')) };")
    add('abstract-constraint', 'with-len',
        "create abstract constraint cx@(v: int64) { using ((with l := len(__subject__) select l <= v)) };")
    add('index', 'with-stdfunc', "alter type Holder { create index on ((with l := str_lower(.name) select (l, '@'))) };")
    add('index', 'with-self-userfunc', "alter type Holder { create index on ((with f := f(.name) select (f, '@'))) };")
    add('func-param', 'param-named-like-type', "create function fx@(User: str) -> str using (User ++ '!');")
    add('func-param', 'body-with-param',
        "create function fx@(x: str) -> int64 using ((with User := (select User filter .name = x) select count(User)));")
    add('trigger-dml', 'insert', "alter type Holder { create trigger tx@ after insert for each do "
                                 "(insert Other { name := __new__.name }) };")
    add('trigger-dml', 'with-new',
        "alter type Holder { create trigger tx@ after insert for each do "
        "(with Other := (select Other filter .name = __new__.name) select count(Other)) };")
    return pos


POSITIONS = _positions()

# the unchanged tree leaves these unqualified (an alias of the same name is visible at a
# position an alias cannot bind): kept apart as a corpus witness
KNOWN_DEFECT_STMTS = [
    ("func@alias", "alter type Holder { create property kd1 := (with f := 'a' select f(f)) };"),
    ("type@alias", "alter type Holder { create property kd2 := (with str := 'a' select <str>str) };"),
]


def scope_script(rng, per_position: int | None, split: bool = False):
    """-> [(module, statement, position, expression key)].  per_position=None: everything.
    split: every position once, positions dealt alternately to the two modules (quick tier)."""
    out = []
    n = 0
    flip = rng.randint(0, 1)
    for mi, mod in enumerate(MODULES):
        for pi, (p, alts) in enumerate(POSITIONS.items()):
            if split and (pi + flip) % 2 != mi:
                continue
            chosen = alts if per_position is None else rng.sample(alts, min(per_position, len(alts)))
            for k, stmt in chosen:
                n += 1
                out.append((mod, stmt.replace('@', str(n)), p, k))
    return out


def known_defect_script():
    return [('default', stmt, 'cprop', k) for k, stmt in KNOWN_DEFECT_STMTS]


def script_text(script):
    return '\n'.join(f'# module {m}\n{s}' for m, s, _p, _k in script)


def parse_script_text(text):
    out = []
    mod = None
    for line in text.split('\n'):
        m = re.match(r'# module (\S+)$', line)
        if m:
            mod = m.group(1)
        elif line.strip():
            out.append((mod, line, '?', '?'))
    return out
