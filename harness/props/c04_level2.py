"""C04, level 2: real DDL through the REAL schema engine (edb.schema.ddl / delta.py)
on top of the front-end bridge.

Generated DDL scripts (create / alter / rename / drop of types, properties, links,
link properties, constraints, indexes, annotations, abstract types with inheritance,
scalar types, functions, aliases, globals — and on purpose FAILING commands: drop of a
referenced object, duplicate create, rename onto an existing name, commands on
objects that do not exist) are applied statement by statement THE WAY THE SERVER DOES:
a first, non-canonical pass (`delta_and_schema_from_ddl`) and then a replay of the
returned canonical delta on the pre-statement schema with a fresh `CommandContext`
(`server/compiler/ddl.py::_process_delta`); the replayed schema — the one the server
stores — must be structurally equal to the first-pass schema.  A fixed corpus of
rename scripts (pointers, link properties, an abstract annotation renamed across
modules, an abstract constraint, types with descendants; then DROP / CREATE of the old
and new names) runs first on every run.  After every statement the real (replayed)
schema is audited with the declarative invariant:

* delta audit (every statement): for every object whose data tuple changed, appeared
  or disappeared and for every object it referred or refers to — `get_referrers_ex`
  is exactly the inverse of the reference fields (the inverse is maintained
  independently from the data tuples), every new reference resolves, nobody refers to
  a dropped object, the dropped object is reachable through no lookup, name lookups
  (`get`, `get_global`, `get_functions`) agree with the data, old names are gone;
* refdict consistency (every statement for the touched objects, every object in the full
  audit): refdict collections (`ObjectType.pointers`, `.annotations`, `.constraints`,
  `.indexes`, `Link.pointers`, …) are name-keyed lookups held in object data — every
  cached key equals the key the collection type computes from the member's CURRENT
  name, looking that key up through the owner returns the member, members have the
  refdict's class, and every object that names an owner (`source` / `subject`) is listed
  in that owner's collection (no orphans);
* endpoint properties: every concrete link has `@source` / `@target` and they point where
  the link points (own and inherited links);
* sweep: after the last statement of a script every user type is `DROP TYPE`d in random
  order until nothing more can be dropped; each accepted drop is audited like any other
  statement (a stale but still resolvable reference becomes a dangling one here);
* garbage collection of implicit types (tuples, arrays of tuples, ranges, union targets)
  shared by several users: collected exactly when the last user goes — never earlier (a
  sibling pointer would dangle), never later (an unreferenced non-std implicit type is
  reported; `array<scalar>` is kept on purpose);
* a ChainedSchema stream: the corpus and a role script on the three-layer schema the
  server works with, audited through the chained public API;
* full audit (base schema, end of every script): the same over ALL objects of the
  schema (std library included, ~6000 objects), both directions of all three name
  indexes and of the reverse-reference index;
* rejected statement => the schema value is unchanged (content fingerprint of the six
  indexes);
* every schema value obtained along a script keeps its fingerprint to the end.

Trace validation: the raw `FlatSchema` operations performed by the engine are logged
(methods wrapped) and (1) checked against the guard `rawOK` of the Lean theorem
`store_inv` — that real command trees stay inside the guard is exactly what the
model-level proof assumes — and (2) replayed through the Lean model, comparing the
outcome and the touched object's record, names and outgoing reverse references.
"""
from __future__ import annotations

import hashlib
import time

from lib import core

BASES = [
    '''
    abstract type Named { required property name -> str { constraint exclusive; } index on (.name); }
    abstract annotation note;
    abstract constraint posval { using (__subject__ > 0); }
    scalar type Short extending str { constraint max_len_value(12); }
    type User extending Named {
        multi link friends -> User { property since -> int64; };
        property nick -> Short;
        annotation title := 'a user';
        annotation note := 'noted';
    }
    type Post {
        required link author -> User { property weight -> int64; };
        property title -> str { constraint max_len_value(10); annotation note := 'the title'; }
        property rank -> int64 { constraint posval; }
    }
    function inc(x: int64) -> int64 using (x + 1);
    ''',
    '''
    abstract type Base { property tag -> str; }
    abstract type Timed { property at -> int64 { annotation title := 'when'; } }
    type Doc extending Base, Timed { property body -> str; index on (.body); }
    type Folder extending Base { multi link docs -> Doc; link parent -> Folder; }
    global cur -> str;
    alias Docs := Doc { body };
    ''',
    # inheritance MERGE: the same pointer comes from parents with different targets / types
    '''
    type T2; type T3 extending T2; type T4 extending T3;
    scalar type S1 extending str; scalar type S2 extending S1;
    type A { link l -> T2; property p -> S1; }
    type A2 { link l -> T3 { property note -> str; }; property p -> S2; }
    abstract type PA { link m -> T2; }
    abstract type PA2 { link m -> T3; }
    type B extending A;
    type C extending A { overloaded link l -> T3; overloaded property p -> S2; }
    type D extending PA, PA2 { overloaded link m -> T4; }
    ''',
    # implicit collection types (tuple / named / nested tuple, array<tuple>, range, multirange,
    # union link targets) shared by SIBLING pointers, link properties, other types, a global,
    # a function parameter and an alias: they are garbage-collected by conditional drops
    '''
    type A; type B;
    type Doc {
        property tags -> tuple<str, str>; property labels -> tuple<str, str>; property marks -> tuple<str, str>;
        property nt -> tuple<a: str, b: int64>; property nt2 -> tuple<a: str, b: int64>;
        property nest -> tuple<str, tuple<int64, str>>; property nest2 -> tuple<str, tuple<int64, str>>;
        property arr -> array<tuple<str, int64>>; property arr2 -> array<tuple<str, int64>>;
        property rng -> range<int64>; property mr -> multirange<int64>; property mr2 -> multirange<int64>;
        multi link rel -> A { property w -> tuple<int64, int64>; property w2 -> tuple<int64, int64>; };
        link u -> A | B; link u2 -> A | B;
        property shared -> tuple<bool, str>;
    }
    type Doc2 { property shared -> tuple<bool, str>; property solo -> tuple<float64, str>; }
    global gt -> tuple<bool, bool>;
    function ft(x: tuple<bool, bool>) -> bool using (x.0);
    alias AT := (select Doc { tags, nt });
    ''',
]

COLL_POOL = ['tuple<str, str>', 'tuple<a: str, b: int64>', 'tuple<str, tuple<int64, str>>',
             'array<tuple<str, int64>>', 'range<int64>', 'multirange<int64>', 'tuple<int64, int64>',
             'tuple<bool, str>', 'tuple<bool, bool>', 'tuple<float64, str>', 'array<tuple<str, str>>']


def collection_corpus(rng, thorough: bool):
    """fixed scripts on base #3: users of one implicit type are dropped / re-typed / renamed one
    at a time in every order (quick: every order for the 3 tuple<str,str> siblings, one random
    order for each other group), ending with the checks of the sweep"""
    import itertools
    out = []
    # the shortest witness of a premature collection: two siblings, drop one
    out.append((3, ['alter type Doc drop property marks;', 'alter type Doc drop property tags;',
                    'alter type Doc alter property labels set type tuple<str, int64> using (<tuple<str, int64>>{});']))
    # OBSERVATION on the unchanged tree (key drop-global-leaks-implicit-type): DROP GLOBAL never
    # collects the global's implicit collection type when the global was its last user — a
    # leak (the type stays, unreferenced), not a dangling reference
    out.append((3, ['drop function ft(x: tuple<bool, bool>);', 'drop global gt;'],
                'drop-global-leaks-implicit-type', 'nosweep'))
    # the same from scratch: two commands
    out.append((1, ['create type Memo { create property tags -> tuple<str, str>; '
                    'create property labels -> tuple<str, str>; };',
                    'alter type Memo drop property tags;',
                    'alter type Memo drop property labels;'], None, 'nosweep'))
    groups = {
        'tuple<str,str> siblings': ['alter type Doc drop property tags;', 'alter type Doc drop property labels;',
                                    'alter type Doc drop property marks;'],
        'named tuple': ['alter type Doc drop property nt;', 'alter type Doc drop property nt2;', 'drop alias AT;'],
        'nested tuple': ['alter type Doc drop property nest;',
                         "alter type Doc alter property nest2 set type str using ('x');"],
        'array<tuple>': ['alter type Doc alter property arr rename to arr9;', 'alter type Doc drop property arr2;',
                         'alter type Doc drop property arr9;'],
        'multirange': ['alter type Doc drop property mr;', 'alter type Doc drop property mr2;',
                       'alter type Doc drop property rng;'],
        'link properties': ['alter type Doc alter link rel drop property w;',
                            'alter type Doc alter link rel alter property w2 rename to w3;',
                            'alter type Doc alter link rel drop property w3;'],
        'union targets': ['alter type Doc drop link u;', 'alter type Doc alter link u2 set type A using (.u2[is A]);'],
        'cross-type': ['alter type Doc drop property shared;', 'alter type Doc2 drop property shared;',
                       'alter type Doc2 drop property solo;'],
        'global + function': ['drop global gt;', 'drop function ft(x: tuple<bool, bool>);',
                              'create global gt2 -> tuple<bool, bool>;', 'drop global gt2;'],
    }
    for name, stmts in groups.items():
        perms = list(itertools.permutations(stmts))
        if not thorough and name != 'tuple<str,str> siblings':
            perms = rng.sample(perms, 1)
        for pm in perms:
            out.append((3, list(pm) + ['drop type Doc;', 'drop type Doc2;'], None, 'nosweep'))
    return out



# fixed scripts, run first on every run: renames of refdict members and of what they are
# named after (the owner's name-keyed collection must follow), then DROP / CREATE of the
# old and the new names
CORPUS = [
    # FINDING on the unchanged tree (key drop-owned-leaves-target-prop-stale): DROP OWNED resets the
    # link's target through AlterOwned -> inherit_fields but leaves the implicit `@target` property
    # on the old target; endpoint properties never block a drop, so DROP TYPE of the old target is
    # accepted and leaves a dangling reference
    (2, ['alter type C alter link l drop owned;',
         'drop type T4;',
         'drop type D;',
         'drop type T4;',
         'drop type A2;',
         'drop type T3;'], 'drop-owned-leaves-target-prop-stale'),
    # re-basing: the inherited link changes its target by MERGE, then the old parent and the old
    # target type are dropped
    (2, ['alter type B { drop extending A; extending A2 last; };',
         'alter type C alter property p drop owned;',
         'drop type C;',
         'drop type A;',
         'drop type D;',
         'drop type PA;',
         'drop type T2;']),
    (2, ['alter type B extending A2 last;',
         'alter type B drop extending A;',
         'drop type C;',
         'drop type A;',
         'alter type D drop extending PA;',
         'drop type PA;',
         'alter type D alter link m drop owned;',
         'drop type T2;']),
    (0, ['alter type Post { alter property title rename to headline; };',
         'alter type Post { create property title -> str; };',
         'alter type Post { drop property headline; };',
         'alter type Post { alter link author rename to writer; };',
         'alter type Post { alter link writer { alter property weight rename to w2; }; };',
         'alter type Post { alter link writer { drop property weight; }; };',
         'alter type Post { alter link writer { drop property w2; }; };']),
    (0, ['alter type Named { alter property name rename to label; };',
         'alter type User { drop property label; };',
         'alter type User { create property name -> str; };',
         'alter type Named { drop property label; };',
         'alter type User { alter link friends { alter property since rename to since2; }; };',
         'alter type User { alter link friends { create property since -> int64; }; };']),
    (0, ['alter abstract annotation note rename to other::note2;',
         "alter type Post { create annotation other::note2 := 'x'; };",
         'create abstract annotation note;',
         "alter type User { create annotation note := 'y'; };",
         'drop abstract annotation other::note2;',
         'alter type User { drop annotation other::note2; };',
         'alter abstract constraint posval rename to posval2;',
         'alter type Post { alter property rank { drop constraint posval; }; };',
         'alter type Post { alter property rank { drop constraint posval2; }; };',
         'drop abstract constraint posval2;']),
    (1, ['alter type Base rename to Base2;',
         'alter type Base2 { alter property tag rename to label; };',
         'alter type Doc { drop property label; };',
         'alter type Folder { alter link docs rename to papers; };',
         'alter type Timed { alter property at rename to stamp; };',
         'alter type Doc rename to Paper;',
         'alter type Paper { alter property body rename to text; };',
         'drop alias Docs;',
         'alter type Paper { drop property text; };',
         'drop type Base2;']),
]


# ------------------------------------------------------------------ generator
class Sym:
    """the generator's own picture of what exists (only to aim the statements;
    it is updated from the outcome of the real engine, never trusted)"""

    def __init__(self, base: int):
        self.base = base
        if base == 0:
            self.types = {
                'Named': {'abstract': True, 'bases': [], 'props': {'name': 'str'}, 'links': {}},
                'User': {'abstract': False, 'bases': ['Named'], 'props': {'nick': 'Short'},
                         'links': {'friends': 'User'}},
                'Post': {'abstract': False, 'bases': [], 'props': {'title': 'str', 'rank': 'int64'},
                         'links': {'author': 'User'}},
            }
            self.scalars, self.funcs, self.annos = ['Short'], ['inc'], ['note']
            self.aliases, self.globals_ = [], []
            self.aconstraints = ['posval']
            self.linkprops = {('User', 'friends'): ['since'], ('Post', 'author'): ['weight']}
        elif base == 3:
            mk = lambda props, links: {'abstract': False, 'bases': [], 'props': props, 'links': links}
            self.types = {
                'A': mk({}, {}), 'B': mk({}, {}),
                'Doc': mk({'tags': 'tuple<str, str>', 'labels': 'tuple<str, str>', 'marks': 'tuple<str, str>',
                           'nt': 'tuple<a: str, b: int64>', 'nt2': 'tuple<a: str, b: int64>',
                           'nest': 'tuple<str, tuple<int64, str>>', 'nest2': 'tuple<str, tuple<int64, str>>',
                           'arr': 'array<tuple<str, int64>>', 'arr2': 'array<tuple<str, int64>>',
                           'rng': 'range<int64>', 'mr': 'multirange<int64>', 'mr2': 'multirange<int64>',
                           'shared': 'tuple<bool, str>'}, {'rel': 'A', 'u': 'A | B', 'u2': 'A | B'}),
                'Doc2': mk({'shared': 'tuple<bool, str>', 'solo': 'tuple<float64, str>'}, {}),
            }
            self.scalars, self.funcs, self.annos = [], [], []
            self.aliases, self.globals_ = ['AT'], ['gt']
            self.aconstraints = []
            self.linkprops = {('Doc', 'rel'): ['w', 'w2']}
            self.cfuncs = {'ft': 'tuple<bool, bool>'}
        elif base == 2:
            mk = lambda bases, props, links, abstract=False: {
                'abstract': abstract, 'bases': bases, 'props': props, 'links': links}
            self.types = {
                'T2': mk([], {}, {}), 'T3': mk(['T2'], {}, {}), 'T4': mk(['T3'], {}, {}),
                'A': mk([], {'p': 'S1'}, {'l': 'T2'}), 'A2': mk([], {'p': 'S2'}, {'l': 'T3'}),
                'PA': mk([], {}, {'m': 'T2'}, True), 'PA2': mk([], {}, {'m': 'T3'}, True),
                'B': mk(['A'], {}, {}), 'C': mk(['A'], {'p': 'S2'}, {'l': 'T3'}),
                'D': mk(['PA', 'PA2'], {}, {'m': 'T4'}),
            }
            self.scalars, self.funcs, self.annos = ['S1', 'S2'], [], []
            self.aliases, self.globals_ = [], []
            self.aconstraints = []
            self.linkprops = {('A2', 'l'): ['note']}
        else:
            self.types = {
                'Base': {'abstract': True, 'bases': [], 'props': {'tag': 'str'}, 'links': {}},
                'Timed': {'abstract': True, 'bases': [], 'props': {'at': 'int64'}, 'links': {}},
                'Doc': {'abstract': False, 'bases': ['Base', 'Timed'], 'props': {'body': 'str'}, 'links': {}},
                'Folder': {'abstract': False, 'bases': ['Base'], 'props': {},
                           'links': {'docs': 'Doc', 'parent': 'Folder'}},
            }
            self.scalars, self.funcs, self.annos = [], [], []
            self.aliases, self.globals_ = ['Docs'], ['cur']
            self.aconstraints = []
            self.linkprops = {}
        self.constraints = {}      # (type, prop) -> [text]
        self.indexes = {}          # type -> [prop]
        self.tannos = {}           # type -> [anno]
        self.counter = 0
        self.followups = []        # statements queued to poke at the old / new names after a rename

    def fresh(self, prefix):
        self.counter += 1
        return f'{prefix}{self.counter}'


def gen_merge_stmt(sym: Sym, rng):
    """statements around inheritance MERGE: re-basing types whose parents give the same
    pointer different targets / types, overloading and DROP OWNED, then dropping the old
    parent and the old target"""
    T = sorted(sym.types)
    if not T:
        return gen_stmt(sym, rng, merge=False)
    t = rng.choice(T)
    tt = sym.types[t]
    k = rng.random()
    others = [x for x in T if x != t]
    if k < 0.22 and others:
        # re-base in one statement
        new = rng.choice(others)
        if tt['bases'] and rng.random() < 0.8:
            old = rng.choice(tt['bases'])

            def e(s):
                s.types[t]['bases'] = [b for b in s.types[t]['bases'] if b != old] + [new]
            return 're-base', f'alter type {t} {{ drop extending {old}; extending {new} last; }};', e
        return 'add base', f'alter type {t} extending {new} last;', lambda s: s.types[t]['bases'].append(new)
    if k < 0.34 and tt['bases']:
        old = rng.choice(tt['bases'])
        return 'drop base', f'alter type {t} drop extending {old};', lambda s: s.types[t]['bases'].remove(old)
    if k < 0.52:
        # DROP OWNED / SET OWNED of a pointer (own or inherited name)
        names = set(tt['props']) | set(tt['links'])
        for b in tt['bases']:
            if b in sym.types:
                names |= set(sym.types[b]['props']) | set(sym.types[b]['links'])
        if names:
            n = rng.choice(sorted(names))
            is_link = n in tt['links'] or any(n in sym.types[b]['links'] for b in tt['bases'] if b in sym.types)
            kind = 'link' if is_link else 'property'
            if rng.random() < 0.7:
                def e(s):
                    s.types[t]['props'].pop(n, None)
                    s.types[t]['links'].pop(n, None)
                return 'drop owned', f'alter type {t} alter {kind} {n} drop owned;', e
            return 'set owned', f'alter type {t} alter {kind} {n} set owned;', lambda s: None
    if k < 0.66:
        # overload an inherited pointer with a narrower target / type
        cands = []
        for b in tt['bases']:
            if b in sym.types:
                cands += [('link', n, g) for n, g in sym.types[b]['links'].items()]
                cands += [('property', n, g) for n, g in sym.types[b]['props'].items()]
        if cands:
            kind, n, g = rng.choice(cands)
            if kind == 'link':
                subs = [x for x in T if x == g or g in sym.types[x]['bases']
                        or any(g in sym.types.get(bb, {'bases': []})['bases'] for bb in sym.types[x]['bases'])]
                tgt = rng.choice(subs or [g])
                return ('overload link',
                        f'alter type {t} {{ alter link {n} {{ set owned; set type {tgt} using (.{n}[is {tgt}]); }}; }};',
                        lambda s: s.types[t]['links'].__setitem__(n, tgt))
            ty = 'S2' if g in ('S1', 'S2') and 'S2' in sym.scalars else g
            return ('overload property',
                    f'alter type {t} {{ alter property {n} {{ set owned; set type {ty}; }}; }};',
                    lambda s: s.types[t]['props'].__setitem__(n, ty))
    if k < 0.78:
        def e(s):
            s.types.pop(t)
            for x in s.types.values():
                x['bases'] = [b for b in x['bases'] if b != t]
        return 'drop type', f'drop type {t};', e
    if k < 0.86 and others:
        n = sym.fresh('T')
        b = rng.sample(others, min(len(others), rng.choice([1, 2])))
        return ('create type', f"create type {n} extending {', '.join(b)};",
                lambda s: s.types.__setitem__(n, {'abstract': False, 'bases': b, 'props': {}, 'links': {}}))
    if k < 0.93 and tt['links']:
        n = rng.choice(sorted(tt['links']))
        tgt = rng.choice(T)
        return ('set link type', f'alter type {t} alter link {n} set type {tgt} using (.{n}[is {tgt}]);',
                lambda s: s.types[t]['links'].__setitem__(n, tgt))
    return gen_stmt(sym, rng, merge=False)


def gen_coll_stmt(sym: Sym, rng):
    """statements around SHARED implicit collection types: more users of a type from a small
    pool (sibling properties, link properties, other types, globals, function parameters,
    aliases), then dropping / re-typing / renaming them one at a time"""
    T = sorted(sym.types)
    if not T:
        return gen_stmt(sym, rng, merge=False)
    t = rng.choice([x for x in T if sym.types[x]['props'] or rng.random() < 0.3] or T)
    tt = sym.types[t]
    cprops = sorted(p for p, ty in tt['props'].items() if ty in COLL_POOL)
    k = rng.random()
    ty = rng.choice(COLL_POOL)
    if k < 0.22:
        p = sym.fresh('c')
        return 'create collection property', f'alter type {t} {{ create property {p} -> {ty}; }};', \
            lambda s: s.types[t]['props'].__setitem__(p, ty)
    if k < 0.47 and cprops:
        p = rng.choice(cprops)
        return 'drop collection property', f'alter type {t} drop property {p};', \
            lambda s: s.types[t]['props'].pop(p, None)
    if k < 0.57 and cprops:
        p = rng.choice(cprops)
        if rng.random() < 0.5:
            return ('retype collection property', f"alter type {t} alter property {p} set type str using ('x');",
                    lambda s: s.types[t]['props'].__setitem__(p, 'str'))
        return ('retype collection property',
                f'alter type {t} alter property {p} set type {ty} using (<{ty}>{{}});',
                lambda s: s.types[t]['props'].__setitem__(p, ty))
    if k < 0.63 and cprops:
        p = rng.choice(cprops)
        n = sym.fresh('c')
        return ('rename collection property', f'alter type {t} alter property {p} rename to {n};',
                lambda s: s.types[t]['props'].__setitem__(n, s.types[t]['props'].pop(p)))
    if k < 0.75 and sym.linkprops:
        (lt, l) = rng.choice(sorted(sym.linkprops))
        if lt in sym.types and l in sym.types[lt]['links']:
            have = sym.linkprops[(lt, l)]
            if have and rng.random() < 0.55:
                w = rng.choice(have)
                return ('drop collection link property', f'alter type {lt} alter link {l} drop property {w};',
                        lambda s: s.linkprops[(lt, l)].remove(w))
            w = sym.fresh('w')
            return ('create collection link property',
                    f'alter type {lt} alter link {l} create property {w} -> {ty};',
                    lambda s: s.linkprops[(lt, l)].append(w))
    if k < 0.82:
        if sym.globals_ and rng.random() < 0.55:
            g = rng.choice(sym.globals_)
            return 'drop global', f'drop global {g};', lambda s: s.globals_.remove(g)
        g = sym.fresh('g')
        return 'create collection global', f'create global {g} -> {ty};', lambda s: s.globals_.append(g)
    if k < 0.89:
        cf = getattr(sym, 'cfuncs', None)
        if cf is None:
            cf = sym.cfuncs = {}
        if cf and rng.random() < 0.55:
            f = rng.choice(sorted(cf))
            return 'drop collection function', f'drop function {f}(x: {cf[f]});', lambda s: s.cfuncs.pop(f, None)
        f = sym.fresh('cf')
        return ('create collection function', f'create function {f}(x: {ty}) -> int64 using (1);',
                lambda s: s.cfuncs.__setitem__(f, ty))
    if k < 0.93 and tt['links']:
        l = rng.choice(sorted(tt['links']))
        if rng.random() < 0.5:
            return 'drop link', f'alter type {t} drop link {l};', lambda s: s.types[t]['links'].pop(l, None)
        return ('retype union link', f'alter type {t} alter link {l} set type A using (.{l}[is A]);',
                lambda s: s.types[t]['links'].__setitem__(l, 'A'))
    if k < 0.96 and 'A' in sym.types and 'B' in sym.types:
        l = sym.fresh('u')
        return ('create union link', f'alter type {t} {{ create link {l} -> A | B; }};',
                lambda s: s.types[t]['links'].__setitem__(l, 'A | B'))
    return gen_stmt(sym, rng, merge=False)


def gen_stmt(sym: Sym, rng, merge=True):
    """returns (kind, ddl text, effect) — effect(sym) is applied when the engine accepts"""
    if merge and sym.base == 2 and rng.random() < 0.65:
        return gen_merge_stmt(sym, rng)
    if merge and sym.base == 3 and rng.random() < 0.8:
        return gen_coll_stmt(sym, rng)
    T = sorted(sym.types)
    pick_t = lambda: rng.choice(T) if T else 'Nope'
    if sym.followups and rng.random() < 0.75:
        kind, ddl = sym.followups.pop(0)
        return kind, ddl, lambda s: None
    # ---- renames of referenced objects (refdict members) and of what they are named after
    if rng.random() < 0.16:
        j = rng.random()
        if j < 0.35:
            t = pick_t()
            ptrs = [('property', p) for p in sym.types[t]['props']] + [('link', l) for l in sym.types[t]['links']]
            if ptrs:
                kind, p = rng.choice(ptrs)
                n = sym.fresh('q')
                key = 'props' if kind == 'property' else 'links'
                ty = 'str' if kind == 'property' else t

                def e(s):
                    s.types[t][key][n] = s.types[t][key].pop(p)
                    if (t, p) in s.constraints:
                        s.constraints[(t, n)] = s.constraints.pop((t, p))
                    if p in s.indexes.get(t, []):
                        s.indexes[t] = [n if x == p else x for x in s.indexes[t]]
                    if (t, p) in s.linkprops:
                        s.linkprops[(t, n)] = s.linkprops.pop((t, p))
                    s.followups += rng.sample([
                        ('after rename: drop new name', f'alter type {t} {{ drop {kind} {n}; }};'),
                        ('after rename: create old name', f'alter type {t} {{ create {kind} {p} -> {ty}; }};'),
                        ('after rename: drop old name', f'alter type {t} {{ drop {kind} {p}; }};'),
                        ('after rename: create new name', f'alter type {t} {{ create {kind} {n} -> {ty}; }};'),
                    ], 2)
                return f'rename {kind}', f'alter type {t} {{ alter {kind} {p} rename to {n}; }};', e
        elif j < 0.5 and sym.linkprops:
            (t, l) = rng.choice(sorted(sym.linkprops))
            if sym.linkprops[(t, l)] and t in sym.types and l in sym.types[t]['links']:
                w = rng.choice(sym.linkprops[(t, l)])
                n = sym.fresh('w')

                def e(s):
                    s.linkprops[(t, l)] = [n if x == w else x for x in s.linkprops[(t, l)]]
                    s.followups += rng.sample([
                        ('after rename: drop new name', f'alter type {t} {{ alter link {l} {{ drop property {n}; }}; }};'),
                        ('after rename: create old name',
                         f'alter type {t} {{ alter link {l} {{ create property {w} -> int64; }}; }};'),
                        ('after rename: drop old name', f'alter type {t} {{ alter link {l} {{ drop property {w}; }}; }};'),
                    ], 2)
                return ('rename link property',
                        f'alter type {t} {{ alter link {l} {{ alter property {w} rename to {n}; }}; }};', e)
        elif j < 0.7 and sym.annos:
            a = rng.choice(sym.annos)
            n = sym.fresh('an')
            if rng.random() < 0.5:
                n = 'other::' + n          # across modules
            t = pick_t()

            def e(s):
                s.annos[s.annos.index(a)] = n
                for tt in s.tannos:
                    s.tannos[tt] = [n if x == a else x for x in s.tannos[tt]]
                s.followups += rng.sample([
                    ('after rename: use new name', f"alter type {t} {{ create annotation {n} := 'x'; }};"),
                    ('after rename: drop old name', f'drop abstract annotation {a};'),
                    ('after rename: create old name', f'create abstract annotation {a};'),
                    ('after rename: drop new name', f'drop abstract annotation {n};'),
                ], 2)
            return 'rename abstract annotation', f'alter abstract annotation {a} rename to {n};', e
        elif j < 0.85 and sym.aconstraints:
            a = rng.choice(sym.aconstraints)
            n = sym.fresh('ac')

            def e(s):
                s.aconstraints[s.aconstraints.index(a)] = n
                s.followups += rng.sample([
                    ('after rename: drop old name', f'drop abstract constraint {a};'),
                    ('after rename: create old name', f'create abstract constraint {a} {{ using (__subject__ > 1); }};'),
                    ('after rename: drop new name', f'drop abstract constraint {n};'),
                ], 1)
            return 'rename abstract constraint', f'alter abstract constraint {a} rename to {n};', e
        elif T:
            t = pick_t()
            ints = [p for p, ty in sym.types[t]['props'].items() if ty == 'int64']
            if ints and sym.aconstraints:
                p, a = rng.choice(ints), rng.choice(sym.aconstraints)
                return ('use abstract constraint',
                        f'alter type {t} {{ alter property {p} {{ create constraint {a}; }}; }};', lambda s: None)
            if rng.random() < 0.5:
                a = sym.fresh('ac')
                return ('create abstract constraint', f'create abstract constraint {a} {{ using (__subject__ > 0); }};',
                        lambda s: s.aconstraints.append(a))
    k = rng.random()

    def eff(fn):
        return fn

    if k < 0.10 or not T:
        n = sym.fresh('T')
        bases = [b for b in T if sym.types[b]['abstract'] and rng.random() < 0.4][:2]
        props = {}
        body = []
        for _ in range(rng.choice([0, 1, 1, 2])):
            p = sym.fresh('p')
            ty = rng.choice(['str', 'int64'] + sym.scalars)
            props[p] = ty
            extra = ' { create constraint exclusive; }' if rng.random() < 0.25 else ''
            body.append(f'create property {p} -> {ty}{extra};')
        links = {}
        if T and rng.random() < 0.5:
            l = sym.fresh('l')
            tgt = pick_t()
            links[l] = tgt
            body.append(f"create {'multi ' if rng.random() < 0.4 else ''}link {l} -> {tgt};")
        abstract = rng.random() < 0.25
        ext = f" extending {', '.join(bases)}" if bases else ''
        ddl = f"create {'abstract ' if abstract else ''}type {n}{ext} {{ {' '.join(body)} }};"

        def e(s):
            s.types[n] = {'abstract': abstract, 'bases': bases, 'props': props, 'links': links}
        return 'create type', ddl, e
    if k < 0.20:
        t = pick_t()
        p = sym.fresh('p')
        ty = rng.choice(['str', 'int64'] + sym.scalars)
        extra = rng.choice(['', '', ' { create constraint exclusive; }',
                            " { create annotation title := 'p'; }"])
        if sym.funcs and rng.random() < 0.2:
            ddl = f'alter type {t} {{ create property {p} := {rng.choice(sym.funcs)}(1); }};'
            ty = 'computed'
        else:
            ddl = f'alter type {t} {{ create property {p} -> {ty}{extra}; }};'
        return 'create property', ddl, lambda s: s.types[t]['props'].__setitem__(p, ty)
    if k < 0.28:
        t, tgt = pick_t(), pick_t()
        l = sym.fresh('l')
        lp = ' { create property w -> int64; }' if rng.random() < 0.3 else ''
        ddl = f"alter type {t} {{ create {'multi ' if rng.random() < 0.5 else ''}link {l} -> {tgt}{lp}; }};"

        def e(s):
            s.types[t]['links'][l] = tgt
            if lp:
                s.linkprops[(t, l)] = ['w']
        return 'create link', ddl, e
    if k < 0.36:
        t = pick_t()
        props = [p for p, ty in sym.types[t]['props'].items() if ty in ('str', 'Short')]
        if not props:
            return gen_stmt(sym, rng)
        p = rng.choice(props)
        have = sym.constraints.get((t, p), [])
        if have and rng.random() < 0.5:
            c = rng.choice(have)
            return ('drop constraint', f'alter type {t} {{ alter property {p} {{ drop constraint {c}; }}; }};',
                    lambda s: s.constraints[(t, p)].remove(c))
        c = f'max_len_value({rng.randrange(5, 40)})'
        return ('create constraint', f'alter type {t} {{ alter property {p} {{ create constraint {c}; }}; }};',
                lambda s: s.constraints.setdefault((t, p), []).append(c))
    if k < 0.42:
        t = pick_t()
        props = sorted(sym.types[t]['props'])
        have = sym.indexes.get(t, [])
        if have and rng.random() < 0.5:
            p = rng.choice(have)
            return 'drop index', f'alter type {t} {{ drop index on (.{p}); }};', lambda s: s.indexes[t].remove(p)
        if not props:
            return gen_stmt(sym, rng)
        p = rng.choice(props)
        return ('create index', f'alter type {t} {{ create index on (.{p}); }};',
                lambda s: s.indexes.setdefault(t, []).append(p))
    if k < 0.49:
        t = pick_t()
        have = sym.tannos.get(t, [])
        if have and rng.random() < 0.5:
            a = rng.choice(have)
            return 'drop annotation', f'alter type {t} {{ drop annotation {a}; }};', lambda s: s.tannos[t].remove(a)
        a = rng.choice(['title', 'description'] + sym.annos)
        return ('create annotation', f"alter type {t} {{ create annotation {a} := 'v{rng.randrange(9)}'; }};",
                lambda s: s.tannos.setdefault(t, []).append(a))
    if k < 0.56:
        t = pick_t()
        n = sym.fresh('R') if rng.random() < 0.75 else pick_t()       # sometimes onto an existing name

        def e(s):
            s.types[n] = s.types.pop(t)
            for tt in s.types.values():
                tt['bases'] = [n if b == t else b for b in tt['bases']]
                tt['links'] = {l: (n if g == t else g) for l, g in tt['links'].items()}
            for d in (s.indexes, s.tannos):
                if t in d:
                    d[n] = d.pop(t)
            for (a, b) in list(s.constraints):
                if a == t:
                    s.constraints[(n, b)] = s.constraints.pop((a, b))
        return 'rename type', f'alter type {t} rename to {n};', e
    if k < 0.62:
        t = pick_t()
        ptrs = [('property', p) for p in sym.types[t]['props']] + [('link', l) for l in sym.types[t]['links']]
        if not ptrs:
            return gen_stmt(sym, rng)
        kind, p = rng.choice(ptrs)
        n = sym.fresh('q')
        key = 'props' if kind == 'property' else 'links'

        def e(s):
            s.types[t][key][n] = s.types[t][key].pop(p)
            if (t, p) in s.constraints:
                s.constraints[(t, n)] = s.constraints.pop((t, p))
            if p in s.indexes.get(t, []):
                s.indexes[t] = [n if x == p else x for x in s.indexes[t]]
        return f'rename {kind}', f'alter type {t} {{ alter {kind} {p} rename to {n}; }};', e
    if k < 0.70:
        t = pick_t()
        ptrs = [('property', p) for p in sym.types[t]['props']] + [('link', l) for l in sym.types[t]['links']]
        if not ptrs or rng.random() < 0.1:
            return 'drop missing pointer', f'alter type {t} {{ drop property nosuch; }};', lambda s: None
        kind, p = rng.choice(ptrs)
        key = 'props' if kind == 'property' else 'links'

        def e(s):
            s.types[t][key].pop(p)
            s.constraints.pop((t, p), None)
            if p in s.indexes.get(t, []):
                s.indexes[t].remove(p)
        return f'drop {kind}', f'alter type {t} {{ drop {kind} {p}; }};', e
    if k < 0.80:
        t = pick_t()

        def e(s):
            s.types.pop(t)
            s.indexes.pop(t, None)
            s.tannos.pop(t, None)
            for key in [x for x in s.constraints if x[0] == t]:
                s.constraints.pop(key)
        return 'drop type', f'drop type {t};', e
    if k < 0.84:
        t = pick_t()
        abstracts = [b for b in T if sym.types[b]['abstract'] and b != t]
        if not abstracts:
            return gen_stmt(sym, rng)
        b = rng.choice(abstracts)
        if b in sym.types[t]['bases']:
            return 'drop extending', f'alter type {t} drop extending {b};', lambda s: s.types[t]['bases'].remove(b)
        return 'add extending', f'alter type {t} extending {b} last;', lambda s: s.types[t]['bases'].append(b)
    if k < 0.87:
        if T and rng.random() < 0.6:
            t = pick_t()
            return 'duplicate create', f'create type {t};', lambda s: None
        return 'alter missing type', 'alter type NoSuchType { create property x -> str; };', lambda s: None
    if k < 0.90:
        if sym.scalars and rng.random() < 0.5:
            sname = rng.choice(sym.scalars)
            return 'drop scalar', f'drop scalar type {sname};', lambda s: s.scalars.remove(sname)
        sname = sym.fresh('S')
        return ('create scalar',
                f'create scalar type {sname} extending str {{ create constraint max_len_value({rng.randrange(3, 30)}); }};',
                lambda s: s.scalars.append(sname))
    if k < 0.93:
        if sym.funcs and rng.random() < 0.5:
            f = rng.choice(sym.funcs)
            return 'drop function', f'drop function {f}(x: int64);', lambda s: s.funcs.remove(f)
        f = sym.fresh('fn')
        return ('create function', f'create function {f}(x: int64) -> int64 using (x + {rng.randrange(9)});',
                lambda s: s.funcs.append(f))
    if k < 0.95:
        if sym.annos and rng.random() < 0.5:
            a = rng.choice(sym.annos)
            return 'drop abstract annotation', f'drop abstract annotation {a};', lambda s: s.annos.remove(a)
        a = sym.fresh('an')
        return 'create abstract annotation', f'create abstract annotation {a};', lambda s: s.annos.append(a)
    if k < 0.975:
        if sym.aliases and rng.random() < 0.5:
            a = rng.choice(sym.aliases)
            return 'drop alias', f'drop alias {a};', lambda s: s.aliases.remove(a)
        t = pick_t()
        a = sym.fresh('Al')
        props = sorted(sym.types[t]['props'])
        shape = f" {{ {props[0]} }}" if props else ''
        return 'create alias', f'create alias {a} := {t}{shape};', lambda s: s.aliases.append(a)
    if sym.globals_ and rng.random() < 0.5:
        g = rng.choice(sym.globals_)
        return 'drop global', f'drop global {g};', lambda s: s.globals_.remove(g)
    g = sym.fresh('g')
    return 'create global', f'create global {g} -> str;', lambda s: s.globals_.append(g)


# --------------------------------------------------------------------- audit
class Auditor:
    def __init__(self):
        from edb.schema import objects as so, name as sn, functions as s_func, operators as s_oper
        self.so, self.sn, self.s_func, self.s_oper = so, sn, s_func, s_oper
        self._fields = {}
        self._refdicts = {}
        self._backrefs = {}
        from edb.schema import links as s_links, properties as s_props
        self.s_links, self.s_props = s_links, s_props

    def ref_fields(self, clsname):
        r = self._fields.get(clsname)
        if r is None:
            cls = self.so.ObjectMeta.get_schema_class(clsname)
            r = (cls, cls.get_schema_field('name').index,
                 [(f.name, f.index, f.type) for f in cls.get_object_reference_fields()])
            self._fields[clsname] = r
        return r

    def edges(self, s, i):
        """{(target, class, field)} held by object i according to its own data tuple"""
        data = s._id_to_data.get(i)
        if data is None:
            return set()
        cls, _ni, fl = self.ref_fields(s._id_to_type[i])
        out = set()
        for fname, findex, ftype in fl:
            v = data[findex]
            if v is not None:
                for t in ftype.schema_refs_from_data(v):
                    out.add((t, cls, fname))
        return out

    def inverse(self, s):
        inv = {}
        for i in s._id_to_data:
            for (t, cls, fname) in self.edges(s, i):
                inv.setdefault(t, set()).add((i, cls, fname))
        return inv

    def handle(self, s, i):
        o = s.get_by_id(i, None)
        return o if o is not None else self.so.Object.raw_schema_restore('ObjectType', i)

    def check_referrers(self, s, t, inv, bad, both=True):
        try:
            ex = s.get_referrers_ex(self.handle(s, t))
            allr = s.get_referrers(self.handle(s, t)) if both else None
        except Exception as e:          # noqa: BLE001
            bad.append(f'refs: get_referrers({t}) raised {type(e).__name__}: {e}')
            return
        got = {(r.id, c, fn) for (c, fn), rs in ex.items() for r in rs}
        want = inv.get(t, set())
        if got != want:
            miss = sorted((str(a), c.__name__, f) for a, c, f in want - got)[:3]
            extra = sorted((str(a), c.__name__, f) for a, c, f in got - want)[:3]
            bad.append(f'refs: referrers of {self.describe(s, t)}: index lacks {miss}, index has stale {extra}')
        if allr is not None and {r.id for r in allr} != {x[0] for x in want}:
            bad.append(f'refs: get_referrers({self.describe(s, t)}) disagrees with the object data')

    def describe(self, s, i):
        o = s.get_by_id(i, None)
        if o is None:
            return f'<absent {i}>'
        try:
            return f'{type(o).__name__} {o.get_name(s)}'
        except Exception:               # noqa: BLE001
            return f'{type(o).__name__} {i}'

    def name_of(self, s, i):
        data = s._id_to_data.get(i)
        if data is None:
            return None
        return data[self.ref_fields(s._id_to_type[i])[1]]

    def lookup(self, s, cls, name):
        """the object the schema returns for (class, name) through its public lookups"""
        if issubclass(cls, self.so.QualifiedObject):
            return s.get(name, None)
        return s.get_global(cls, name, None)

    def check_name_fwd(self, s, i, bad):
        name = self.name_of(s, i)
        if name is None:
            return
        o = s.get_by_id(i)
        cls = type(o)
        try:
            got = self.lookup(s, cls, name)
            if got is None or got.id != i:
                bad.append(f'names: lookup of {name} gives {got!r}, not {cls.__name__} {i}')
            short = self.sn.shortname_from_fullname(name)
            if issubclass(cls, self.s_func.Function) and i not in [f.id for f in s.get_functions(short, ())]:
                bad.append(f'names: function {name} is not listed under its short name')
            if issubclass(cls, self.s_oper.Operator) and i not in [f.id for f in s.get_operators(short, ())]:
                bad.append(f'names: operator {name} is not listed under its short name')
        except Exception as e:          # noqa: BLE001
            bad.append(f'names: lookup of {name} raised {type(e).__name__}: {e}')

    # ---- refdict collections: name-keyed lookups held in object data
    def refdict_info(self, cls):
        r = self._refdicts.get(cls)
        if r is None:
            fs = cls.get_schema_fields()
            r = self._refdicts[cls] = [(rd, fs[rd.attr].index, fs[rd.attr].type) for rd in cls.get_refdicts()]
        return r

    def backrefs(self, cls):
        """names of the fields through which an object of class `cls` can point at its owner"""
        r = self._backrefs.get(cls)
        if r is None:
            attrs = set()
            for k in cls.__mro__:
                if isinstance(k, self.so.ObjectMeta):
                    for rd, _referrer in k.get_referring_classes():
                        attrs.add(rd.backref_attr)
            fs = cls.get_schema_fields()
            r = self._backrefs[cls] = sorted((a, fs[a].index) for a in attrs if a in fs)
        return r

    def check_endpoints(self, s, i, bad):
        """a concrete link carries the implicit `@source` / `@target` properties and they
        point where the link points (own and inherited links alike)"""
        o = s.get_by_id(i, None)
        if o is None:
            return
        if isinstance(o, self.s_props.Property):
            raw = s._id_to_data[i][type(o).get_schema_field('source').index]
            owner = s.get_by_id(raw[1], None) if raw is not None else None
            if isinstance(owner, self.s_links.Link):
                self.check_endpoints(s, owner.id, bad)
            return
        if not isinstance(o, self.s_links.Link):
            return
        try:
            src, tgt = o.get_source(s), o.get_target(s)
            if src is None:
                return                      # abstract link
            ptrs = o.get_pointers(s)
            for pname, want in (('source', src), ('target', tgt)):
                ep = ptrs.get(s, self.sn.UnqualName(pname), None)
                if ep is None:
                    bad.append(f'endpoint: {self.describe(s, i)} has no @{pname} property')
                    continue
                raw = s._id_to_data[ep.id][type(ep).get_schema_field('target').index]
                got = None if raw is None else raw[1]
                if want is None or got != want.id:
                    bad.append(f'endpoint: {self.describe(s, i)} points at {self.describe(s, want.id) if want else None} '
                               f'but its @{pname} property points at '
                               f'{self.describe(s, got) if got is not None else None}')
        except Exception as e:              # noqa: BLE001
            bad.append(f'endpoint: inspecting {self.describe(s, i)} raised {type(e).__name__}: {e}')

    def gc_leaks(self, s, std):
        """implicit types (collections, union / intersection object types) that are not part
        of the std library and that nothing outside their own structural children refers to:
        they should have been collected when their last user went"""
        from edb.schema import types as s_types, objtypes
        out = []
        for o in s.get_objects(exclude_internal=False, type=s_types.Collection):
            if std.has_object(o.id):
                continue
            if isinstance(o, s_types.Array) and o.get_element_type(s).is_scalar():
                continue                    # array<scalar> is kept on purpose (DeleteArray._has_outside_references)
            if not [r for r in s.get_referrers(o) if not r.is_parent_ref(s, o)]:
                out.append(self.describe(s, o.id))
        for o in s.get_objects(exclude_internal=False, type=objtypes.ObjectType, exclude_stdlib=True):
            if o.get_union_of(s) or o.get_intersection_of(s):
                if not [r for r in s.get_referrers(o) if not r.is_parent_ref(s, o)]:
                    out.append(self.describe(s, o.id))
        return out

    def check_owner_side(self, s, i, bad):
        """the refdict collections held by object i: keys are the keys the members'
        CURRENT names give, lookups through the owner find the members, members are of
        the right class and point back at the owner"""
        o = s.get_by_id(i, None)
        data = s._id_to_data.get(i)
        if o is None or data is None:
            return
        for rd, findex, colltype in self.refdict_info(type(o)):
            v = data[findex] if findex < len(data) else None
            if v is None:
                continue
            ids = tuple(v[2])
            keys = dict(v[3]).get('_keys')
            if keys is not None and (len(keys) != len(ids) or len(set(keys)) != len(keys)):
                bad.append(f'refdict: {self.describe(s, i)}.{rd.attr} has {len(ids)} members but keys {keys!r}')
                continue
            try:
                coll = o.get_explicit_field_value(s, rd.attr, None)
            except Exception as e:          # noqa: BLE001
                bad.append(f'refdict: reading {self.describe(s, i)}.{rd.attr} raised {type(e).__name__}: {e}')
                continue
            for k, mid in enumerate(ids):
                m = s.get_by_id(mid, None)
                if m is None:
                    continue                # reported as dangling elsewhere
                try:
                    want = colltype.get_key_for(s, m)
                except Exception as e:      # noqa: BLE001
                    bad.append(f'refdict: key of {self.describe(s, mid)} raised {type(e).__name__}: {e}')
                    continue
                if keys is not None and keys[k] != want:
                    bad.append(f'refdict: {self.describe(s, i)}.{rd.attr} lists {self.describe(s, mid)} under the '
                               f'stale key {str(keys[k])!r}; its current name gives {str(want)!r}')
                if coll is not None:
                    got = coll.get(s, want, None)
                    if got is None or got.id != mid:
                        bad.append(f'refdict: looking up {str(want)!r} in {self.describe(s, i)}.{rd.attr} gives '
                                   f'{got!r}, not {self.describe(s, mid)}')
                if not isinstance(m, rd.ref_cls):
                    bad.append(f'refdict: {self.describe(s, i)}.{rd.attr} holds a {type(m).__name__}')

    def check_member_side(self, s, i, bad):
        """object i, if it names an owner (source / subject …), is listed in that owner's
        refdict collection under the key its current name gives (no orphans)"""
        m = s.get_by_id(i, None)
        data = s._id_to_data.get(i)
        if m is None or data is None:
            return
        for attr, findex in self.backrefs(type(m)):
            v = data[findex] if findex < len(data) else None
            if v is None:
                continue
            owner = s.get_by_id(v[1], None)
            if owner is None:
                continue                    # reported as dangling elsewhere
            try:
                rd = type(owner).get_refdict_for_class(type(m))
            except KeyError:
                continue
            if rd.backref_attr != attr:
                continue
            fs = type(owner).get_schema_fields()
            odata = s._id_to_data[owner.id]
            ov = odata[fs[rd.attr].index]
            if ov is None or i not in ov[2]:
                bad.append(f'refdict: {self.describe(s, i)} names {self.describe(s, owner.id)} as its {attr} '
                           f'but is not listed in its {rd.attr} (orphan)')
                continue
            keys = dict(ov[3]).get('_keys')
            if keys is not None:
                want = fs[rd.attr].type.get_key_for(s, m)
                have = keys[tuple(ov[2]).index(i)]
                if have != want:
                    bad.append(f'refdict: {self.describe(s, owner.id)}.{rd.attr} lists {self.describe(s, i)} under '
                               f'the stale key {str(have)!r}; its current name gives {str(want)!r}')

    def full(self, s):
        """Inv ∧ NoDangling over the whole schema"""
        bad = []
        ids = set(s._id_to_type.keys())
        if ids != set(s._id_to_data.keys()):
            bad.append('types: _id_to_type and _id_to_data have different keys')
        listed = {o.id for o in s.get_objects(exclude_internal=False)}
        if listed != ids:
            bad.append('types: get_objects does not list exactly the objects of the schema')
        inv = self.inverse(s)
        for t in inv:
            if not s.has_object(t):
                src = next(iter(inv[t]))
                bad.append(f'dangling: {self.describe(s, src[0])}.{src[2]} refers to {t} which is not in the schema')
        for t in ids | set(inv) | set(s._refs_to.keys()):
            self.check_referrers(s, t, inv, bad, both=False)
            if len(bad) > 20:
                return bad, inv
        for i in ids:
            self.check_name_fwd(s, i, bad)
            self.check_owner_side(s, i, bad)
            self.check_member_side(s, i, bad)
            if s._id_to_type[i] == 'Link':
                self.check_endpoints(s, i, bad)
            if len(bad) > 25:
                break
        so, sn = self.so, self.sn
        for n, i in s._name_to_id.items():
            o = s.get_by_id(i, None)
            if o is None or not isinstance(o, so.QualifiedObject) or self.name_of(s, i) != n:
                bad.append(f'names: name index maps {n} to {i} whose data disagrees')
        for (c, n), i in s._globalname_to_id.items():
            o = s.get_by_id(i, None)
            if o is None or type(o) is not c or self.name_of(s, i) != n:
                bad.append(f'names: global name index maps {c.__name__} {n} to {i} whose data disagrees')
        for (c, n), iset in s._shortname_to_id.items():
            if not iset:
                bad.append(f'names: empty short-name entry {n}')
            for i in iset:
                o = s.get_by_id(i, None)
                nm = self.name_of(s, i)
                if o is None or type(o) is not c or nm is None or sn.shortname_from_fullname(nm) != n:
                    bad.append(f'names: short-name index maps {n} to {i} whose data disagrees')
        return bad[:25], inv

    def delta(self, s, s2, inv):
        """audit of the objects a statement touched; `inv` (inverse of the reference
        fields of `s`, from the data tuples) is updated in place to that of `s2`"""
        bad = []
        d1, d2 = s._id_to_data, s2._id_to_data
        changed = [i for i, d in d2.items() if d1.get(i) is not d]
        removed = [i for i in d1 if i not in d2]
        touched = set(changed) | set(removed)
        targets = set(touched)
        for i in touched:
            for (t, cls, fname) in self.edges(s, i):
                inv.get(t, set()).discard((i, cls, fname))
                targets.add(t)
        for i in changed:
            for (t, cls, fname) in self.edges(s2, i):
                inv.setdefault(t, set()).add((i, cls, fname))
                targets.add(t)
                if not s2.has_object(t):
                    bad.append(f'dangling: {self.describe(s2, i)}.{fname} refers to {t} which is not in the schema')
        for i in changed:
            if not s2.has_object(i) or s2.get_by_id(i, None) is None:
                bad.append(f'types: {i} has data but no type entry')
            else:
                self.check_name_fwd(s2, i, bad)
                self.check_owner_side(s2, i, bad)
                self.check_member_side(s2, i, bad)
                self.check_endpoints(s2, i, bad)
        for r in removed:
            if s2.has_object(r) or s2.get_by_id(r, None) is not None:
                bad.append(f'dropped: {self.describe(s, r)} still has a type entry')
            if inv.get(r):
                src = next(iter(inv[r]))
                bad.append(f'dangling: {self.describe(s2, src[0])}.{src[2]} still refers to the dropped '
                           f'{self.describe(s, r)}')
        for i in touched:
            old = self.name_of(s, i)
            if old is not None and old != self.name_of(s2, i):
                cls = type(s.get_by_id(i))
                try:
                    got = self.lookup(s2, cls, old)
                    if got is not None and got.id == i:
                        bad.append(f'dropped: the old name {old} still resolves to {i}')
                    short = self.sn.shortname_from_fullname(old)
                    new = self.name_of(s2, i)
                    if issubclass(cls, self.s_func.Function) and (
                            new is None or self.sn.shortname_from_fullname(new) != short):
                        if i in [f.id for f in s2.get_functions(short, ())]:
                            bad.append(f'dropped: function {i} still listed under the short name {short}')
                except Exception as e:      # noqa: BLE001
                    bad.append(f'names: lookup of the old name {old} raised {type(e).__name__}: {e}')
        for t in targets:
            self.check_referrers(s2, t, inv, bad)
        return bad[:25], changed, removed


def two_pass(sch, ddl: str):
    """Apply DDL the way the server does: first pass non-canonically
    (`delta_and_schema_from_ddl`, which returns the delta with `canonical = True`), then
    REPLAY that delta on the pre-statement schema with a fresh `CommandContext` — the
    second result is the one the server stores (`server/compiler/ddl.py::_process_delta`;
    `edb.testbase.lang.run_ddl` does the same and returns only the replayed schema).
    Returns [(first-pass schema, replayed schema)] per statement of the text."""
    from edb import edgeql
    from edb.schema import ddl as s_ddl, delta as sd
    out = []
    cur = sch
    for stmt in edgeql.parse_block(ddl):
        s1, delta = s_ddl.delta_and_schema_from_ddl(
            stmt, schema=cur, modaliases={None: 'default'}, testmode=True)
        context = sd.CommandContext()
        context.testmode = True
        s2 = delta.apply(cur, context)
        out.append((s1, s2))
        cur = s2
    return out


def _norm(v):
    """a reduced value without the `origin` of expressions (the replay records where an
    expression came from, the first pass does not; it is not a reference or a name)"""
    if isinstance(v, tuple):
        if (len(v) == 3 and isinstance(v[0], str) and isinstance(v[1], tuple) and len(v[1]) == 4
                and isinstance(v[1][0], str)):
            return (v[0], _norm(v[1]))
        if len(v) == 4 and v[0] == 'ObjectSet' and isinstance(v[2], (tuple, frozenset)):
            return (v[0], v[1], frozenset(v[2]), v[3])     # a set: the order of the ids is hash order
        return tuple(_norm(x) for x in v)
    return v


def structural_diff(aud, s1, s2):
    """[] when the two schema values hold the same six indexes (data tuples modulo
    expression origins), else a few descriptions of the difference"""
    out = []
    for attr in ('_id_to_type', '_name_to_id', '_globalname_to_id', '_shortname_to_id', '_refs_to'):
        if getattr(s1, attr) != getattr(s2, attr):
            out.append(f'{attr} differs')
    d1, d2 = s1._id_to_data, s2._id_to_data
    if len(d1) != len(d2):
        out.append(f'_id_to_data: {len(d1)} vs {len(d2)} objects')
    for i, a in d1.items():
        b = d2.get(i)
        if a is b or a == b:
            continue
        if b is None or _norm(a) != _norm(b):
            cls = aud.so.ObjectMeta.get_schema_class(s1._id_to_type[i])
            fn = {f.index: f.name for f in cls.get_schema_fields().values()}
            slots = [fn.get(k, k) for k, (x, y) in enumerate(zip(a, b or ())) if _norm(x) != _norm(y)]
            out.append(f'{aud.describe(s1, i)}: fields {slots} differ' if b is not None
                       else f'{aud.describe(s1, i)} is missing from the replayed schema')
            if len(out) > 5:
                break
    return out


def shallow_fp(s, touched=()):
    """cheap fingerprint of a schema version: the identity of its six persistent maps
    (an `immutables.Map` cannot be changed in place; what CAN happen is that the
    schema object's attributes are re-bound, or that a mutable value sitting inside
    a data tuple is changed later) plus the rendered content of the data tuples the
    statement touched"""
    return (
        id(s._id_to_data), id(s._id_to_type), id(s._name_to_id), id(s._globalname_to_id),
        id(s._shortname_to_id), id(s._refs_to), len(s._id_to_data), len(s._refs_to),
        tuple((i, hash(repr(s._id_to_data.get(i)))) for i in touched),
    )


def fingerprint(s) -> str:
    """content fingerprint of the six indexes (data tuples by identity: they are
    immutable tuples kept alive by the schema values we hold)"""
    h = hashlib.sha1()
    for part in (
        sorted((k.int, id(v)) for k, v in s._id_to_data.items()),
        sorted((k.int, v) for k, v in s._id_to_type.items()),
        sorted((str(k), v.int) for k, v in s._name_to_id.items()),
        sorted((c.__name__, str(n), v.int) for (c, n), v in s._globalname_to_id.items()),
        sorted((c.__name__, str(n), tuple(sorted(x.int for x in v))) for (c, n), v in s._shortname_to_id.items()),
        sorted((t.int, tuple(sorted((c.__name__, f, tuple(sorted(x.int for x in m2))) for (c, f), m2 in m.items())))
               for t, m in s._refs_to.items()),
    ):
        h.update(repr(part).encode())
    return h.hexdigest()



# ---------------------------------------------------------- trace validation
SPECIAL_MODS = {'__derived__': 0, '__ext_casts__': 1, '__ext_index_matches__': 2}
TRACED = ('add_raw', 'update_obj', 'set_obj_field', 'unset_obj_field', '_delete', 'delist')


class Untranslatable(Exception):
    pass


class Tracer:
    """logs the primitive FlatSchema operations the engine performs"""

    def __init__(self):
        from edb.schema import schema as s_schema
        self.cls = s_schema.FlatSchema
        self.log = []
        self.orig = {}

    def __enter__(self):
        log = self.log
        for name in TRACED:
            orig = getattr(self.cls, name)
            self.orig[name] = orig

            def make(name, orig):
                def wrapped(self_, *a, **k):
                    try:
                        r = orig(self_, *a, **k)
                    except BaseException as e:      # noqa: BLE001
                        log.append((self_, name, a, k, None, e))
                        raise
                    log.append((self_, name, a, k, r, None))
                    return r
                wrapped.__name__ = orig.__name__
                wrapped.__qualname__ = orig.__qualname__
                return wrapped
            setattr(self.cls, name, make(name, orig))
        return self

    def __exit__(self, *exc):
        for name, orig in self.orig.items():
            setattr(self.cls, name, orig)
        return False


class Translator:
    """real values -> protocol tokens (per model session: uuids, module and local
    names, atoms are interned in first-occurrence order)"""

    def __init__(self, reg):
        self.reg = reg
        self.ids, self.mods, self.locals_, self.atoms = {}, dict(SPECIAL_MODS), {}, {}

    def nat(self, u):
        return self.ids.setdefault(u, len(self.ids))

    def mod(self, m: str):
        if m not in self.mods:
            self.mods[m] = len(self.mods) + 3 - len(SPECIAL_MODS)
        return self.mods[m]

    def loc(self, n: str):
        return self.locals_.setdefault(n, len(self.locals_))

    def name(self, cls, name):
        sn = self.reg.sn
        if isinstance(name, sn.UnqualName):
            return f'U{self.mod(name.name)}'
        if not isinstance(name, sn.QualName):
            raise Untranslatable(f'name {name!r}')
        if self.reg.desc(cls)['sn'] and '@' in name.name:
            short = sn.shortname_from_fullname(name)
            if not isinstance(short, sn.QualName):
                raise Untranslatable(f'unqualified short name of {name!r}')
            return f'S{self.mod(name.module)}.{self.mod(short.module)}.{self.loc(short.name)}.{self.loc(name.name)}'
        return f'Q{self.mod(name.module)}.{self.loc(name.name)}'

    def slot(self, cls, f, v):
        """a stored (reduced) slot value"""
        d = self.reg.desc(cls)
        if v is None:
            return 'N'
        if f == d['name']:
            if isinstance(v, (self.reg.sn.QualName, self.reg.sn.UnqualName)):
                return 'n' + self.name(cls, v)
            raise Untranslatable(f'name slot holds {v!r}')
        kind = d['kinds'].get(f)
        if kind == 'single':
            return f'r{self.nat(v[1])}'
        if kind == 'coll':
            ids = [self.nat(x) for x in v[2]]
            if isinstance(v[2], frozenset) or v[0] == 'ObjectSet':
                ids = sorted(set(ids))
            return 'l' + (','.join(map(str, ids)) or '-')
        if kind == 'expr':
            ids = sorted({self.nat(x) for x in v[1][2]})
            return 'l' + (','.join(map(str, ids)) or '-')
        return f'a{self.atoms.setdefault(repr(v), len(self.atoms))}'

    def data(self, cls, data):
        return [(f, self.slot(cls, f, v)) for f, v in enumerate(data) if v is not None]


class ClassRegistry:
    def __init__(self):
        from edb.schema import objects as so, name as sn, functions, operators, modules
        from edb.schema import expr as s_expr
        self.so, self.sn, self.s_expr = so, sn, s_expr
        self.sn_classes = (functions.Function, operators.Operator)
        self.module_cls = modules.Module
        self.tags = {modules.Module: 1}
        self.descs = {}

    def tag(self, cls):
        if cls not in self.tags:
            self.tags[cls] = len(self.tags) + 1
        return self.tags[cls]

    def desc(self, cls):
        d = self.descs.get(cls)
        if d is None:
            so = self.so
            fs = cls.get_schema_fields()
            kinds = {}
            for f in cls.get_object_reference_fields():
                if issubclass(f.type, so.Object):
                    kinds[f.index] = 'single'
                elif issubclass(f.type, so.ObjectCollection):
                    kinds[f.index] = 'coll'
                elif issubclass(f.type, self.s_expr.Expression):
                    kinds[f.index] = 'expr'
                else:
                    raise core.Infra(f'shape: unknown object container {f.type!r}')
            d = self.descs[cls] = {
                'global': not issubclass(cls, so.QualifiedObject), 'sn': issubclass(cls, self.sn_classes),
                'nfields': len(fs), 'name': fs['name'].index, 'kinds': kinds,
                'own': sorted(fs[rd.attr].index for rd in cls.get_refdicts()),
                'findex': {f.name: f.index for f in fs.values()},
                'fname': {f.index: f.name for f in fs.values()},
                'reducible': {f.index for f in cls.get_reducible_fields()},
            }
        return d

    def line(self, cls):
        d = self.desc(cls)
        nl = lambda l: ','.join(map(str, l)) if l else '-'
        single = sorted(f for f, k in d['kinds'].items() if k == 'single')
        coll = sorted(f for f, k in d['kinds'].items() if k != 'single')
        return (f"cls {self.tag(cls)} {int(d['global'])} {int(d['sn'])} {d['nfields']} {d['name']} "
                f"{nl(single)} {nl(coll)} {nl(d['own'])}")


def err_class(e, errors) -> str:
    name = type(e).__name__
    if not isinstance(e, errors.SchemaError) or name in ('UnknownModuleError', 'InvalidReferenceError'):
        tb = e.__traceback__
        while tb is not None:
            fn = tb.tb_frame.f_code.co_name
            if fn.startswith('get_verbosename') or fn.startswith('get_displayname'):
                return 'SchemaError'
            tb = tb.tb_next
    return name


def guard_check(entry, st):
    """rawOK of Model/StoreSpec.lean evaluated on the real call"""
    self_, name, a, _k, _r, _e = entry
    if name == 'update_obj':
        obj, updates = a
        if not updates:
            return
        st['guard_checked'] += 1
        if obj.id not in self_._id_to_type:
            st['guard_violations']['update_obj on an object that is not in the schema'] = \
                st['guard_violations'].get('update_obj on an object that is not in the schema', 0) + 1
            return f'update_obj({type(obj).__name__} {obj.id}) on an object that is not in the schema'
        if self_._id_to_type[obj.id] != type(obj).__name__:
            st['guard_violations']['update_obj through a handle of another class'] = \
                st['guard_violations'].get('update_obj through a handle of another class', 0) + 1
            return f'update_obj through a {type(obj).__name__} handle on a {self_._id_to_type[obj.id]}'
    elif name == '_delete':
        obj = a[0]
        st['guard_checked'] += 1
        t = self_._id_to_type.get(obj.id)
        if t is not None and t != type(obj).__name__:
            st['guard_violations']['delete through a handle of another class'] = \
                st['guard_violations'].get('delete through a handle of another class', 0) + 1
            return f'delete through a {type(obj).__name__} handle on a {t}'
    elif name == 'delist':
        st['delists'] += 1
    else:
        st['guard_checked'] += 1
    return None


def build_session(reg: ClassRegistry, base, log, errors):
    """Lean driver lines replaying the logged operations of ONE statement from the
    schema `base` it was applied to, and the expected answers computed from the REAL
    result schemas.  Returns (lines, expected, n_skipped)."""
    so = reg.so
    tr = Translator(reg)
    ver = {id(base): 0}
    keep = [base]

    def cls_of(s, i, default=None):
        cn = s._id_to_type.get(i)
        return so.ObjectMeta.get_schema_class(cn) if cn is not None else default

    # ---- which objects of the base must be known to the model
    need = []
    seen = set()

    def want(i):
        if i not in seen and i in base._id_to_data and i in base._id_to_type:
            seen.add(i)
            need.append(i)

    for (_c, _n), i in base._globalname_to_id.items():
        if _c is reg.module_cls:
            want(i)
    for (self_, name, a, _k, _r, _e) in log:
        if name == 'add_raw':
            i, cls, data = a
            want(i)
            nm = data[reg.desc(cls)['name']] if len(data) > reg.desc(cls)['name'] else None
        elif name == 'delist':
            nm = a[0]
            i = self_._name_to_id.get(nm)
            if i is not None:
                want(i)
            continue
        else:
            obj = a[0]
            i = obj.id
            want(i)
            cls = type(obj)
            nm = None
            if name == 'update_obj':
                nm = a[1].get('name')
            elif name == 'set_obj_field' and a[1] == 'name':
                nm = a[2]
        if nm is not None:
            # a name the operation is about to claim: the model must know who holds it
            other = self_._name_to_id.get(nm)
            if other is None:
                other = self_._globalname_to_id.get((cls, nm))
            if other is not None:
                want(other)
    lines, expected = [], []
    imports = []
    for i in need:
        cls = cls_of(base, i)
        kvs = tr.data(cls, base._id_to_data[i])
        imports.append(f"add {tr.nat(i)} {reg.tag(cls)} " + ' '.join(f'{f}={v}' for f, v in kvs))

    def record(s, i, cls, old_s):
        """the touched object's record in the real schema `s` (same layout as Driver.record)"""
        data = s._id_to_data.get(i)
        tcls = cls_of(s, i)
        D = '-' if data is None else ';'.join(
            [str(len(data))] + [f'{f}:{v}' for f, v in tr.data(tcls or cls, data)])
        T = '-' if tcls is None else str(reg.tag(tcls))
        # names that may lead to i: its name before and after
        cands = set()
        for sv in (old_s, s):
            dv = sv._id_to_data.get(i)
            if dv is not None:
                c2 = cls_of(sv, i, cls)
                ni = reg.desc(c2)['name']
                if len(dv) > ni and dv[ni] is not None:
                    cands.add((c2, dv[ni]))
        N, G, S = set(), set(), set()
        for c2, nm in cands:
            if s._name_to_id.get(nm) == i:
                N.add(tr.name(c2, nm))
            for c3 in {c2, cls}:
                if s._globalname_to_id.get((c3, nm)) == i:
                    G.add(f'{reg.tag(c3)}/{tr.name(c3, nm)}')
                short = reg.sn.shortname_from_fullname(nm)
                if reg.desc(c3)['sn'] and isinstance(short, reg.sn.QualName) \
                        and i in s._shortname_to_id.get((c3, short), ()):
                    S.add(f'{reg.tag(c3)}/Q{tr.mod(short.module)}.{tr.loc(short.name)}')
        # outgoing reverse references: every target named by the old or new data
        tg = set()
        for sv in (old_s, s):
            dv = sv._id_to_data.get(i)
            if dv is not None:
                c2 = cls_of(sv, i, cls)
                for f in c2.get_object_reference_fields():
                    if len(dv) > f.index and dv[f.index] is not None:
                        tg |= set(f.type.schema_refs_from_data(dv[f.index]))
        R = set()
        for t in tg:
            for (c3, fn), srcs in s._refs_to.get(t, {}).items():
                if i in srcs:
                    R.add(f"{tr.nat(t)}<{reg.tag(c3)}.{reg.desc(c3)['findex'].get(fn, '?' + fn)}")
        return '|'.join([D, T, ' '.join(sorted(N)), ' '.join(sorted(G)), ' '.join(sorted(S)), ' '.join(sorted(R))])

    skipped = 0
    for (self_, name, a, _k, r, e) in log:
        vin = ver.get(id(self_))
        if vin is None:
            skipped += 1
            continue
        if r is not None and id(r) not in ver:
            ver[id(r)] = len(ver)
            keep.append(r)
        vout = ver[id(r)] if r is not None else vin
        status = 'ok' if e is None else 'err ' + err_class(e, errors)
        if name == 'add_raw':
            i, cls, data = a
            kvs = tr.data(cls, data)
            op = f"add {tr.nat(i)} {reg.tag(cls)} " + (f'len={len(data)} ' if len(data) != reg.desc(cls)['nfields'] else '') \
                + ' '.join(f'{f}={v}' for f, v in kvs)
        elif name == 'update_obj':
            obj, updates = a
            cls, i = type(obj), obj.id
            d = reg.desc(cls)
            kvs = []
            for fn, v in updates.items():
                f = d['findex'][fn]
                if v is not None and f in d['reducible']:
                    v = v.schema_reduce()
                kvs.append((f, tr.slot(cls, f, v)))
            op = f"upd {tr.nat(i)} {reg.tag(cls)} " + ' '.join(f'{f}={v}' for f, v in kvs)
        elif name == 'set_obj_field':
            obj, fn, v = a
            i = obj.id
            cls = cls_of(self_, i, type(obj))
            d = reg.desc(cls)
            f = d['findex'][fn]
            if v is not None and f in d['reducible']:
                v = v.schema_reduce()
            op = f"set {tr.nat(i)} {f} {tr.slot(cls, f, v)}"
        elif name == 'unset_obj_field':
            obj, fn = a
            i = obj.id
            cls = cls_of(self_, i, type(obj))
            op = f"unset {tr.nat(i)} {reg.desc(cls)['findex'][fn]}"
        elif name == '_delete':
            obj = a[0]
            i, cls = obj.id, type(obj)
            op = f"del {tr.nat(i)} {reg.tag(cls)}"
        else:
            nm = a[0]
            i, cls = None, None
            op = f"delist {tr.name(so.QualifiedObject, nm)}"
        lines.append(f'v {vin} {vout} {op}'.rstrip())
        if status == 'ok' and i is not None:
            expected.append((status, record(r, i, cls, self_)))
        else:
            expected.append((status, ''))
    header = (['reset', 'quiet'] + [reg.line(c) for c in sorted(reg.tags, key=lambda c: reg.tags[c])]
              + imports + ['v0'])
    return header, lines, expected, skipped, keep



# ------------------------------------------------------- ChainedSchema stream
ROLE_SCRIPT = ['create role parent;', 'create role child extending parent;',
               'create role grandchild extending child;', 'alter role child rename to kid;',
               'drop role grandchild;', 'drop role kid;', 'drop role parent;']


class ChainedAuditor:
    """the declarative invariant through the PUBLIC API of the ChainedSchema the server
    works with (std library as base, user schema on top, global schema aside)"""

    def __init__(self, aud: Auditor):
        self.aud = aud
        self.so = aud.so

    def edges(self, ch, o):
        data = ch.get_obj_data_raw(o)
        _cls, _ni, fl = self.aud.ref_fields(type(o).__name__)
        out = set()
        for fname, findex, ftype in fl:
            v = data[findex] if findex < len(data) else None
            if v is not None:
                for t in ftype.schema_refs_from_data(v):
                    out.add((t, type(o), fname))
        return out

    def audit(self, ch):
        """returns [(kind, message)]"""
        bad = []
        base, top, gl = ch._base_schema, ch.get_top_schema(), ch.get_global_schema()
        ids = list(top._id_to_data) + list(gl._id_to_data)
        shadowed = {i for i in top._id_to_data if base.has_object(i)}
        inv = {}
        for i in ids:
            o = ch.get_by_id(i, None)
            if o is None:
                bad.append(('types', f'{i} has data but get_by_id does not find it'))
                continue
            for (t, cls, fname) in self.edges(ch, o):
                inv.setdefault(t, set()).add((i, cls, fname))
                if ch.get_by_id(t, None) is None:
                    bad.append(('dangling', f'{self.describe(ch, i)}.{fname} refers to {t} which is not in the schema'))
            # name lookups
            name = o.get_name(ch)
            try:
                got = (ch.get(name, None) if isinstance(o, self.so.QualifiedObject)
                       else ch.get_global(type(o), name, None))
                if got is None or got.id != i:
                    bad.append(('names', f'lookup of {name} gives {got!r}, not {type(o).__name__} {i}'))
            except Exception as e:          # noqa: BLE001
                bad.append(('names', f'lookup of {name} raised {type(e).__name__}: {e}'))
        for t in set(inv) | set(ids):
            h = ch.get_by_id(t, None) or self.so.Object.raw_schema_restore('ObjectType', t)
            want = set(inv.get(t, ()))
            for (c, fn), rs in base.get_referrers_ex(h).items():
                want |= {(r.id, c, fn) for r in rs if r.id not in shadowed}
            try:
                ex = ch.get_referrers_ex(h)
                allr = ch.get_referrers(h)
            except Exception as e:          # noqa: BLE001
                bad.append(('refs', f'get_referrers({self.describe(ch, t)}) raised {type(e).__name__}: {e}'))
                continue
            got = {(r.id, c, fn) for (c, fn), rs in ex.items() for r in rs}
            if got != want:
                miss, extra = want - got, got - want
                only_global = miss and not extra and all(
                    issubclass(c, self.so.GlobalObject) for (_i, c, _f) in miss)
                kind = 'refs-ex-global' if only_global else ('refs-shadow' if any(
                    x[0] in shadowed for x in extra) else 'refs')
                bad.append((kind, f'get_referrers_ex({self.describe(ch, t)}) lacks '
                            f'{sorted((c.__name__, f) for _i, c, f in miss)[:3]} and has stale '
                            f'{sorted((c.__name__, f) for _i, c, f in extra)[:3]} (object data is the reference)'))
            if {r.id for r in allr} != {x[0] for x in want}:
                kind = 'refs-shadow' if any(r.id in shadowed for r in allr) else 'refs'
                bad.append((kind, f'get_referrers({self.describe(ch, t)}) disagrees with the object data'))
        return bad

    def describe(self, ch, i):
        o = ch.get_by_id(i, None)
        if o is None:
            return f'<absent {i}>'
        return f'{type(o).__name__} {o.get_name(ch)}'


def run_chained(ctx, st, std_schema, aud, rng):
    """the same DDL on the three-layer ChainedSchema; audit through its public API"""
    from edb import edgeql, errors
    from edb.schema import schema as s_schema, ddl as s_ddl, delta as sd
    from bridge import env
    so = aud.so
    gl, base = s_schema.EMPTY_SCHEMA, std_schema
    for o in std_schema.get_objects(exclude_internal=False):
        if isinstance(o, so.GlobalObject):
            gl = gl.add_raw(o.id, type(o), std_schema._id_to_data[o.id])
            base = base.delete(o)
    ch0 = s_schema.ChainedSchema(base, s_schema.EMPTY_SCHEMA, gl)
    ca = ChainedAuditor(aud)
    cst = st['chained'] = {'scripts': 0, 'statements': 0, 'accepted': 0, 'audits': 0, 'shadow_copies': {}}

    # probe: which base-schema objects get shadow-copied into the top schema, and through which fields
    orig_update = s_schema.ChainedSchema.update_obj

    def probe(self, obj, updates):
        if (not isinstance(obj, so.GlobalObject) and not self._top_schema.has_object(obj.id)
                and self._base_schema.get_by_id(obj.id, default=None) is not None):
            refnames = {f.name for f in type(obj).get_object_reference_fields()}
            k = f"{type(obj).__name__}: {'reference fields ' + str(sorted(set(updates) & refnames)) if set(updates) & refnames else 'no reference field'}"
            cst['shadow_copies'][k] = cst['shadow_copies'].get(k, 0) + 1
        return orig_update(self, obj, updates)

    chained_bases = {}

    def chained_base(k):
        if k not in chained_bases:
            flat = env.load_schema(BASES[k])
            flat = env.run_ddl(flat, 'create module other;')
            ch = ch0
            for stmt in edgeql.parse_block(s_ddl.ddl_text_from_schema(flat)):
                _s1, delta = s_ddl.delta_and_schema_from_ddl(
                    stmt, schema=ch, modaliases={None: 'default'}, testmode=True)
                c2 = sd.CommandContext()
                c2.testmode = True
                ch = delta.apply(ch, c2)
            chained_bases[k] = ch
        return chained_bases[k]

    scripts = [(1, ROLE_SCRIPT, 'chained-referrers-ex-drops-global-only-keys')]
    scripts += [(c[0], c[1], c[2] if len(c) > 2 else None) for c in CORPUS]
    cc = collection_corpus(rng, False)
    scripts += [(c[0], c[1], None) for c in (cc[:3] if ctx.quick() else cc)]
    s_schema.ChainedSchema.update_obj = probe
    try:
        for (k, script, finding) in scripts:
            ch = chained_base(k)
            done = []
            cst['scripts'] += 1
            for ddl in script:
                done.append(ddl)
                key = hashlib.sha1(('chained' + '\n'.join(done)).encode()).hexdigest()[:12]
                detail = {'base': k, 'chained': True, 'chained_script': list(done)}
                cst['statements'] += 1
                try:
                    passes = two_pass(ch, ddl)
                except errors.EdgeDBError:
                    continue
                except Exception as e:      # noqa: BLE001
                    st['crashes'].setdefault(f'{type(e).__name__} (chained)', ddl)
                    continue
                cst['accepted'] += 1
                s1, s2 = passes[-1]
                for part in ('get_top_schema', 'get_global_schema'):
                    diff = structural_diff(aud, getattr(s1, part)(), getattr(s2, part)())
                    if diff:
                        ctx.fail(f'l2-chained-replay:{key}', f'level 2 (ChainedSchema): replaying the canonical delta of '
                                 f'{ddl!r} does not give the first-pass schema: {"; ".join(diff[:3])}', detail)
                ch = s2
                cst['audits'] += 1
                for kind, msg in ca.audit(ch):
                    what = f'level 2 (ChainedSchema): after {ddl!r}: {kind}: {msg}'
                    if kind == 'refs-ex-global':
                        ctx.fail('chained-referrers-ex-drops-global-only-keys' if finding and 'global-only' in finding
                                 else f'chained-referrers-ex-drops-global-only-keys:{key}', what, detail)
                    elif kind == 'refs-shadow':
                        ctx.fail(f'chained-shadow-copy-keeps-base-referrers:{key}', what, detail)
                    elif ('endpoint' in msg or '__|target@' in msg) and any('drop owned' in d for d in done):
                        ctx.fail(f'drop-owned-leaves-target-prop-stale:{key}', what, detail)
                    else:
                        ctx.fail(f'l2-chained-oracle:{key}:{msg[:50]}', what, detail)
    finally:
        s_schema.ChainedSchema.update_obj = orig_update
    ctx.log(f"level 2 (ChainedSchema): {cst['scripts']} scripts, {cst['statements']} statements "
            f"({cst['accepted']} accepted), {cst['audits']} audits through the chained API; base objects "
            f"shadow-copied into the top schema: {cst['shadow_copies']}")


def replay_sessions(ctx, sessions, st):
    """pipe the logged operations through the Lean model and compare"""
    if not sessions:
        return
    all_lines = []
    for (_key, _detail, _ddl, header, lines, _exp, _keep) in sessions:
        all_lines += header + lines
    model = ctx.driver('C04', all_lines)
    if len(model) != len(all_lines):
        raise core.Infra(f'driver returned {len(model)} lines for {len(all_lines)}')
    pos = 0
    for (key, detail, ddl, header, lines, expected, _keep) in sessions:
        hm = model[pos:pos + len(header)]
        bm = model[pos + len(header):pos + len(header) + len(lines)]
        pos += len(header) + len(lines)
        for hl, ml in zip(header, hm):
            if ml != 'ok' and not ml.startswith('ok|'):
                if st['trace_disagreements'] < 20:
                    ctx.fail(f'l2-trace-import:{key}', 'level 2: the model rejects an object of the REAL base schema '
                             f'({ml.split("|")[0]}) — the real schema holds something the model says cannot be added',
                             detail | {'line': hl, 'model': ml.split('|')[0], 'stream': 'trace validation'},
                             no_input=True)
                st['trace_disagreements'] += 1
                break
        else:
            for k, (line, (status, rec), ml) in enumerate(zip(lines, expected, bm)):
                st['raw_ops_replayed'] += 1
                if ml in ('bad-op', 'bad-version'):
                    raise core.Infra(f'driver rejected trace line {line!r}: {ml}')
                mstat, _, mrec = ml.partition('|')
                mwords = mstat.split()
                mstatus, mguard = ' '.join(mwords[:-1]), mwords[-1]
                canon = lambda r: '|'.join(' '.join(sorted(x.split())) for x in r.split('|'))
                if mstatus != status or (status == 'ok' and rec and canon(mrec) != canon(rec)):
                    st['trace_disagreements'] += 1
                    if st['trace_disagreements'] <= 20:
                        ctx.fail(f'l2-trace:{key}:{k}', 'level 2: the model replaying the engine\'s raw operations '
                                 'disagrees with the real FlatSchema',
                                 detail | {'ddl': ddl, 'op': line, 'real': status + '|' + rec, 'model': ml,
                                           'stream': 'trace validation: logged FlatSchema operations vs EdbVerif.Store'},
                                 no_input=True)
                    break


# ----------------------------------------------------------------------- run
def run_level2(ctx: core.Ctx):
    from bridge import env
    t0 = time.time()
    env.setup()
    std_schema = env.std_schema()
    ctx.log(f'level 2: std schema ready ({env.std_info()}) in {time.time() - t0:.1f}s')
    from edb.schema import schema as s_schema
    from edb import errors

    aud = Auditor()
    reg = ClassRegistry()
    sessions = []          # (key, detail, header, lines, expected)
    bases = []
    for k, sdl in enumerate(BASES):
        sch = env.load_schema(sdl)
        sch = env.run_ddl(sch, 'create module other;')
        if isinstance(sch, s_schema.ChainedSchema):
            sch = sch.get_top_schema()
        bad, inv = aud.full(sch)
        for b in bad:
            ctx.fail(f'l2-base:{k}:{b[:60]}', f'level 2: base schema #{k} (std library + SDL) violates the invariant: {b}',
                     {'base': k, 'sdl': sdl})
        bases.append((sch, inv, fingerprint(sch), shallow_fp(sch)))
    ctx.log(f'level 2: {len(bases)} base schemas ({len(bases[0][0]._id_to_data)} objects each) pass the full audit')

    rng = ctx.rng
    n_scripts = ctx.budget(16, 160)
    n_stmts = ctx.budget(16, 20)
    st = {'statements': 0, 'accepted': 0, 'rejected': 0, 'kinds': {}, 'rejected_kinds': {}, 'errors': {},
          'objects_touched': 0, 'objects_removed': 0, 'full_audits': len(bases), 'versions': 0, 'scripts': 0,
          'crashes': {}, 'gc_checks': 0, 'gc_leaks': 0, 'gc_leak_samples': {}, 'replays_compared': 0, 'raw_ops_logged': 0, 'raw_ops_replayed': 0, 'raw_ops_unknown_version': 0,
          'raw_op_kinds': {}, 'guard_checked': 0, 'guard_violations': {}, 'delists': 0,
          'statements_untranslatable': 0, 'trace_disagreements': 0}
    scripts = []
    if ctx.replay:
        import json
        rp = json.load(open(ctx.replay))
        for f in rp['failures']:
            d = f.get('detail')
            if isinstance(d, dict) and 'script' in d:
                scripts.append((d['base'], d['script']))
    if not ctx.replay:
        scripts = (list(CORPUS) + collection_corpus(rng, not ctx.quick())
                   + [(k % len(bases), None) for k in range(n_scripts)])
    def user_types(sv):
        from edb.schema import objtypes
        out = []
        for o in sv.get_objects(type=objtypes.ObjectType, exclude_stdlib=True):
            try:
                if o.is_view(sv) or o.is_compound_type(sv) or o.get_from_alias(sv):
                    continue
            except Exception:           # noqa: BLE001
                pass
            out.append(str(o.get_name(sv)))
        return sorted(out)

    def fail(prefix, key, tail, what, detail, finding, done):
        """route a verdict to its key: the stable finding key for the corpus witness, a
        finding-prefixed key when the same defect shows in a generated script"""
        if finding is not None:
            return ctx.fail(finding, what, detail)
        if prefix == 'l2-gc-leak' and any(d.lower().startswith('drop global') for d in done):
            # DROP GLOBAL does not collect the global's implicit type (a leak, nothing dangles)
            return ctx.fail(f'drop-global-leaks-implicit-type:{key}', what, detail)
        if 'endpoint:' in what or '__|target@' in what or '__|source@' in what:
            # the same defect as the corpus witness: the verdict is about the endpoint
            # properties of a link that an earlier statement of the script DROP OWNED-ed
            import re
            for d in done:
                m = re.match(r'alter type \S+ alter link (\w+) drop owned', d.lower())
                if m and (f'|{m.group(1)}@' in what.lower() or f'||{m.group(1)}&' in what.lower()):
                    return ctx.fail(f'drop-owned-leaves-target-prop-stale:{key}', what, detail)
        return ctx.fail(f'{prefix}:{key}:{tail}' if tail else f'{prefix}:{key}', what, detail)

    for sc in range(len(scripts)):
        base, fixed = scripts[sc][0], scripts[sc][1]
        finding = scripts[sc][2] if len(scripts[sc]) > 2 else None
        do_sweep = not ctx.replay and not (len(scripts[sc]) > 3 and scripts[sc][3] == 'nosweep')
        sch, inv0, _deep0, fp0 = bases[base]
        inv = {t: set(v) for t, v in inv0.items()}
        sym = Sym(base)
        versions = [(sch, fp0, ())]
        done = []
        key = None
        k = -1
        n_main = len(fixed) if fixed is not None else n_stmts
        sweep_list, sweep_progress, in_sweep = [], True, False
        while True:
            k += 1
            if k < n_main:
                if fixed is not None:
                    kind, ddl, eff = 'fixed script', fixed[k], (lambda s: None)
                else:
                    kind, ddl, eff = gen_stmt(sym, rng)
            else:
                # sweep: drop everything that is no longer referenced (every user type, random
                # order, until nothing more can be dropped) — this is what turns a stale but
                # still resolvable reference into a dangling one
                if not do_sweep:
                    break
                in_sweep = True
                if not sweep_list:
                    if not sweep_progress:
                        break
                    sweep_list = user_types(sch)
                    rng.shuffle(sweep_list)
                    sweep_progress = False
                    if not sweep_list:
                        break
                kind, ddl, eff = 'sweep: drop type', f'drop type {sweep_list.pop()};', (lambda s: None)
            done.append(ddl)
            key = hashlib.sha1('\n'.join(done).encode()).hexdigest()[:12]
            detail = {'base': base, 'script': list(done), 'at': k}
            st['statements'] += 1
            st['kinds'][kind] = st['kinds'].get(kind, 0) + 1
            tracer = Tracer()
            outcome = None
            try:
                with tracer:
                    passes = two_pass(sch, ddl)
                    s1, s2 = passes[-1]
            except BaseException as e:      # noqa: BLE001
                outcome = e
            # ---- trace validation of what the engine did to the FlatSchema values
            st['raw_ops_logged'] += len(tracer.log)
            for entry in tracer.log:
                st['raw_op_kinds'][entry[1]] = st['raw_op_kinds'].get(entry[1], 0) + 1
                gv = guard_check(entry, st)
                if gv is not None and len(st['guard_violations']) <= 3:
                    ctx.fail(f'l2-guard:{gv[:60]}', f'level 2: the schema engine issues a raw operation outside the '
                             f'guard of store_inv: {gv} (while applying {ddl!r})', detail, no_input=True)
            if tracer.log:
                try:
                    header, lines, expected, skipped, keep = build_session(reg, sch, tracer.log, errors)
                    st['raw_ops_unknown_version'] += skipped
                    sessions.append((key, detail, ddl, header, lines, expected, keep))
                except Untranslatable:
                    st['statements_untranslatable'] += 1
            tracer.log = []
            try:
                if outcome is not None:
                    raise outcome
            except errors.EdgeDBError as e:
                st['rejected'] += 1
                st['rejected_kinds'][kind] = st['rejected_kinds'].get(kind, 0) + 1
                st['errors'][type(e).__name__] = st['errors'].get(type(e).__name__, 0) + 1
                if shallow_fp(sch, versions[-1][2]) != versions[-1][1]:
                    ctx.fail(f'l2-rejected:{key}', f'level 2: the rejected statement {ddl!r} changed the schema it was '
                             f'applied to', detail | {'error': f'{type(e).__name__}: {e}'})
                continue
            except Exception as e:      # noqa: BLE001
                # not a user-facing rejection: the engine crashed on this script
                st['rejected'] += 1
                st['errors'][type(e).__name__] = st['errors'].get(type(e).__name__, 0) + 1
                st['crashes'].setdefault(f'{type(e).__name__} in {kind}', ddl)
                if shallow_fp(sch, versions[-1][2]) != versions[-1][1]:
                    ctx.fail(f'l2-rejected:{key}', f'level 2: the failing statement {ddl!r} changed the schema it was '
                             f'applied to', detail | {'error': f'{type(e).__name__}: {e}'})
                continue
            if isinstance(s2, s_schema.ChainedSchema):
                s2 = s2.get_top_schema()
            st['accepted'] += 1
            if in_sweep:
                sweep_progress = True
            # the server stores the REPLAYED schema: it must be the schema the first pass computed
            for (p1, p2) in passes:
                if isinstance(p1, s_schema.ChainedSchema):
                    p1 = p1.get_top_schema()
                if isinstance(p2, s_schema.ChainedSchema):
                    p2 = p2.get_top_schema()
                diff = structural_diff(aud, p1, p2)
                st['replays_compared'] += 1
                if diff:
                    ctx.fail(f'l2-replay:{key}', f'level 2: replaying the canonical delta of {ddl!r} on the '
                             f'pre-statement schema (what the server stores) does not give the schema the first '
                             f'pass computed: {"; ".join(diff[:3])}', detail)
                    b1, _ = aud.full(p1)
                    for b in b1[:3]:
                        fail('l2-oracle-firstpass', key, b[:50], f'level 2: first-pass schema after {ddl!r}: {b}',
                             detail, finding, done)
            try:
                eff(sym)
            except Exception:           # noqa: BLE001  (the generator's picture is only an aim)
                pass
            bad, chg, rmd = aud.delta(sch, s2, inv)
            st['objects_touched'] += len(chg)
            st['objects_removed'] += len(rmd)
            for b in bad:
                fail('l2-oracle', key, b[:50], f'level 2: after {ddl!r}: {b}', detail, finding, done)
            sch = s2
            versions.append((sch, shallow_fp(sch, chg), chg))
            # GC expectation, "not later" half (the "not earlier" half is NoDangling above)
            st['gc_checks'] += 1
            for leak in aud.gc_leaks(sch, std_schema):
                st['gc_leaks'] += 1
                st['gc_leak_samples'].setdefault(leak.split('<')[0], f'{leak} after {ddl!r}')
                # OBSERVATION only (counted in the evidence): an unreferenced implicit type that stays in the
                # schema is a leak, not a breach of C04 (nothing dangles, every index agrees) -- the property
                # does not demand collection, so this is not reported as a failure (DESIGN.md 7.3).
        bad, inv_full = aud.full(sch)
        st['full_audits'] += 1
        for b in bad:
            fail('l2-oracle-full', key, b[:50], f'level 2: at the end of the script: {b}',
                 {'base': base, 'script': list(done)}, finding, done)
        if {t: v for t, v in inv.items() if v} != {t: v for t, v in inv_full.items() if v}:
            raise core.Infra('level 2: the incrementally maintained inverse diverged from the recomputed one')
        for j, (sv, fp, chg) in enumerate(versions):
            if shallow_fp(sv, chg) != fp:
                ctx.fail(f'l2-frozen:{key}:{j}', f'level 2: schema version #{j} of the script changed after it was '
                         f'obtained', {'base': base, 'script': list(done)})
        st['versions'] += len(versions)
        st['scripts'] += 1
        if len(sessions) >= 200:
            replay_sessions(ctx, sessions, st)
            sessions = []
    replay_sessions(ctx, sessions, st)
    if not ctx.replay:
        run_chained(ctx, st, std_schema, aud, rng)
    for k, (sch, _inv, deep, _fp) in enumerate(bases):
        if fingerprint(sch) != deep:
            ctx.fail(f'l2-frozen-base:{k}', f'level 2: base schema #{k} changed (content of the six indexes) while '
                     f'{st["scripts"]} scripts were applied to it', {'base': k})
    ctx.log(f"level 2 trace validation: {st['raw_ops_logged']} raw FlatSchema operations logged "
            f"({st['raw_op_kinds']}), {st['raw_ops_replayed']} replayed through the model, "
            f"{st['trace_disagreements']} disagreements, guard checked on {st['guard_checked']} "
            f"(violations {st['guard_violations']}), {st['delists']} delist calls")
    ctx.log(f"level 2: {st['scripts']} DDL scripts, {st['statements']} statements ({st['accepted']} accepted, "
            f"{st['rejected']} rejected {st['errors']}), {st['objects_touched']} object records audited, "
            f"{st['objects_removed']} drops, {st['versions']} versions re-fingerprinted, {time.time() - t0:.0f}s")
    return st
