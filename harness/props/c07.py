"""C07 — access policies guard every read path.

Proof: lean/EdbVerif/Props/C07.lean over Model/Policy.lean (the decision, the
formula of `get_rewrite_filter`, the `type_rewrites` entries of
`try_type_rewrite`, how a key is read).

Tie to the real code (all through the front-end bridge, REAL compiler):

level 1   real `policies.get_rewrite_filter` is called (real compiler context)
          for generated allow/deny sets and all five access kinds; the qlast
          tree is compared structurally with the model's formula and
          evaluated on every valuation against the model's decision table.
level 2a  generated hierarchies x policy placements are loaded through the real
          SDL/migration path; the stored schema fields the rewrite reads
          (bases, ancestors, inherited policies and their bases' subjects) are
          checked against the model's well-formedness conditions and handed to
          the model; the `type_rewrites` map of the compiled IR is abstracted
          (none / filter / union of keys) and compared with the model's
          `entry`; the compiled filter IR is evaluated on all valuations and
          compared with the model's formula; the real plan (IR map) is
          evaluated on a generated database and compared with the model's
          `selectType` and, independently, with the property's own statement
          {o | type o <= T and visible o} (oracle: bypass / duplicate / missing).
level 2b  per-query audit of the real IR and SQL tree (`compile_ir_to_sql_tree`):
          no raw read of a protected type's table outside the rewrite CTE whose
          filter covers it (reads made by a policy body itself, compiled with
          rewrites suppressed, are recognised from the IR and allowed only inside
          that policy's filter CTE), union CTEs read nothing raw, no set compiled
          with policies suppressed sits outside a policy body, and every object
          type a query reaches is reached through a rewrite CTE.  About 40% of the
          hierarchies carry policy-in-policy material (scalar/tuple/aggregate
          aliases, computed scalar globals, a function, direct reads of other
          policied types inside USING) with queries mentioning the alias/global
          before and after the type whose policy uses it.  This part is an
          audited observation per generated query, not a theorem.
"""
from __future__ import annotations

import hashlib
import itertools
import json

from lib import core

PROPS = 'EdbVerif/Props/C07.lean'
REQUIRED = [
    'EdbVerif.C07.C07_decision', 'EdbVerif.C07.C07_filter', 'EdbVerif.C07.C07_plan_nobypass',
    'EdbVerif.C07.C07_select_nobypass', 'EdbVerif.C07.C07_terminates', 'EdbVerif.C07.C07_plan_partial',
    'EdbVerif.C07.C07_scope_is_subtyping', 'EdbVerif.C07.C07_registration_independent_of_conditions',
    'EdbVerif.C07.C07_plan_exact_counterexample_overlap',
    'EdbVerif.C07.C07_plan_exact_counterexample_redundant_base',
]

KINDS = ['Select', 'UpdateRead', 'UpdateWrite', 'Delete', 'Insert']     # index = model `Kind`
KIND_SDL = {'Select': 'select', 'UpdateRead': 'update read', 'UpdateWrite': 'update write',
            'Delete': 'delete', 'Insert': 'insert'}
GLOBALS = ['g0', 'g1', 'g2']
PROPS_F = ['f0', 'f1']
ATOMS = GLOBALS + PROPS_F


# ------------------------------------------------------------ policy conditions
# expression AST: ('atom', a) | ('not', e) | ('and', e, e) | ('or', e, e) | ('true',)

def ex_text(e) -> str:
    k = e[0]
    if k == 'atom':
        return f'(global {e[1]} ?? false)' if e[1][0] == 'g' else f'(.{e[1]} ?? false)'
    if k == 'true':
        return 'true'
    if k == 'not':
        return f'(not {ex_text(e[1])})'
    return f'({ex_text(e[1])} {k} {ex_text(e[2])})'


def ex_eval(e, val) -> bool:
    k = e[0]
    if k == 'atom':
        return bool(val.get(e[1]))          # None (unset) ?? false
    if k == 'true':
        return True
    if k == 'not':
        return not ex_eval(e[1], val)
    if k == 'and':
        return ex_eval(e[1], val) and ex_eval(e[2], val)
    return ex_eval(e[1], val) or ex_eval(e[2], val)


def gen_expr(rng, atoms):
    def atom():
        return ('atom', rng.choice(atoms))
    r = rng.random()
    if r < 0.55:
        return atom()
    if r < 0.7:
        return ('not', atom())
    if r < 0.82:
        return ('and', atom(), atom())
    if r < 0.94:
        return ('or', atom(), ('not', atom()))
    return ('true',)


def pol_truth(p, val) -> bool:
    """truth of `condition AND expr` of a generated policy"""
    r = ex_eval(tuple_ex(p['expr']), val)
    if p.get('when') is not None:
        r = ex_eval(tuple_ex(p['when']), val) and r
    return r


def tuple_ex(e):
    return tuple(tuple_ex(x) if isinstance(x, list) else x for x in e) if isinstance(e, (list, tuple)) else e


def pol_sdl(p) -> str:
    kinds = 'all' if p['kinds'] == 'all' else ', '.join(KIND_SDL[k] for k in p['kinds'])
    when = f" when ({ex_text(tuple_ex(p['when']))})" if p.get('when') is not None else ''
    using = p['text'] if p.get('opaque') else ex_text(tuple_ex(p['expr']))
    if p.get('tof'):
        using = f"({using}) and {tof_conjunct(p['tof'], '.f0' if p.get('tof_prop') else '(global g0)')}"
    return (f"access policy p{p['id']}{when} {'allow' if p['allow'] else 'deny'} {kinds} "
            f"using ({using});")


def gen_policy(rng, pid, atoms):
    r = rng.random()
    if r < 0.5:
        kinds = ['Select']
    elif r < 0.75:
        kinds = 'all'
    elif r < 0.85:
        kinds = ['Insert']                       # no select kind: reads filtered to nothing
    elif r < 0.93:
        kinds = ['Select', 'UpdateRead']
    else:
        kinds = [rng.choice(['UpdateWrite', 'Delete', 'UpdateRead'])]
    return {'id': pid, 'allow': rng.random() < 0.6, 'kinds': kinds, 'expr': gen_expr(rng, atoms),
            'when': gen_expr(rng, atoms) if rng.random() < 0.15 else None,
            'tof': rng.choice(['is', 'cast']) if rng.random() < 0.08 else None}


def tof_conjunct(kind, operand) -> str:
    """an always-true conjunct that makes the compiler go through the `typeof` branch of
    typegen._ql_typeexpr_get_types while compiling the policy"""
    if kind == 'is':
        return f'(false is typeof {operand})'
    if kind == 'cast':
        return f'(<typeof {operand}>true)'
    return f"((introspect (typeof {operand})).name = 'std::bool')"


# ------------------------------------------------------------------ hierarchies
def gen_hierarchy(rng, nmax=7, shape=None, extras=None):
    """A case: types T0..Tn-1 (index order is topological), a link holder L."""
    n = rng.randint(2, nmax)
    shape = shape or rng.choice(['tree', 'dag', 'dag', 'diamond', 'redundant'])
    bases = [[]]
    for i in range(1, n):
        if shape == 'tree':
            k = 1 if rng.random() < 0.85 else 0
        else:
            k = rng.choice([0, 1, 1, 1, 2, 2]) if i > 1 else rng.choice([0, 1, 1])
        bs = sorted(rng.sample(range(i), min(k, i)), reverse=True)
        bases.append(bs)
    if shape == 'diamond' and n >= 4:
        # plant a diamond  a <- b, c <- d
        a = rng.randrange(0, n - 3)
        b, c, d = sorted(rng.sample(range(a + 1, n), 3))
        bases[b] = sorted(set(bases[b]) | {a}, reverse=True)
        bases[c] = sorted(set(bases[c]) | {a}, reverse=True)
        bases[d] = sorted({b, c}, reverse=True)
    anc = []
    for i in range(n):
        s = set()
        for b in bases[i]:
            s |= {b} | anc[b]
        anc.append(s)
    if shape != 'redundant':
        # drop redundant edges (a base that is also an ancestor through another base)
        for i in range(n):
            bases[i] = [b for b in bases[i] if not any(b in anc[c] for c in bases[i] if c != b)]
    abstract = [rng.random() < 0.22 for _ in range(n)]
    npol = rng.choice([1, 1, 2, 2, 3, 4])
    pols, pid = [], 0
    for _ in range(npol):
        p = gen_policy(rng, pid, ATOMS)
        p['on'] = rng.randrange(n)
        p['tof_prop'] = rng.random() < 0.6
        pols.append(p)
        pid += 1
    links = {'one': rng.randrange(n), 'many': rng.randrange(n), 'req': rng.randrange(n),
             'uni': sorted(rng.sample(range(n), 2))}
    lpol = None
    if rng.random() < 0.3:
        lpol = gen_policy(rng, pid, GLOBALS)
        lpol['on'] = n
    c = {'n': n, 'shape': shape, 'bases': bases, 'abstract': abstract, 'pols': pols, 'links': links,
         'lpol': lpol, 'alias': rng.randrange(n), 'gobj': rng.randrange(n)}
    if extras if extras is not None else rng.random() < 0.4:
        add_extras(rng, c, anc)
    return c


SA_KINDS = {          # scalar / tuple / aggregate aliases and globals over an object type
    'count': ('count({T})', '{A} >= 0'),
    'prop': ('{T}.f0', '(.f0 ?? false) in {A}'),
    'tuple': ('(count({T}), 1)', '{A}.0 >= 0'),
    'exists': ('exists {T}', '{A} or true'),
    'link': ('count(L.one)', '{A} >= 0'),
}


def add_extras(rng, c, anc):
    """policy-in-policy material: a non-object schema alias, a computed scalar global and a function
    that read (policied) types, and policies whose USING expressions refer to them or to other
    policied types directly.  Such conditions depend on the database, so these cases are `opaque`:
    they are audited (IR + SQL) and their rewrite-map shape is compared, but not evaluated."""
    n = c['n']
    prot = sorted({d for p in c['pols'] for d in range(n) if d == p['on'] or p['on'] in anc[d]})

    def pick():
        return rng.choice(prot) if prot and rng.random() < 0.75 else rng.randrange(n)
    kind = rng.choice(['count', 'prop', 'tuple', 'exists', 'link'])
    ex = {'alias': {'kind': kind, 'on': c['links']['one'] if kind == 'link' else pick()},
          'global': {'kind': rng.choice(['count', 'exists']), 'on': pick()},
          'func': {'on': pick()}, 'direct': pick()}
    c['extras'] = ex
    pid = max([p['id'] for p in all_pols(c)] + [-1]) + 1
    refs = rng.sample(['alias', 'alias', 'global', 'func', 'direct'], rng.choice([1, 2, 2, 3]))
    for ref in dict.fromkeys(refs):
        if ref == 'alias':
            text = SA_KINDS[kind][1].format(A='SA')
        elif ref == 'global':
            text = SA_KINDS[ex['global']['kind']][1].format(A='(global gsc)')
        elif ref == 'func':
            text = 'fcnt() >= 0'
        else:
            text = rng.choice(['exists T{t}', 'count(T{t}) >= 0', '(.f0 ?? false) in T{t}.f0']).format(t=ex['direct'])
        on = rng.randrange(n) if rng.random() < 0.8 else n
        if on == n and '.f0' in text:
            on = rng.randrange(n)
        if ref == 'func':
            on = n            # (altering a type in the cone of the type a function reads is refused)
        p = {'id': pid, 'on': on, 'allow': rng.random() < 0.8, 'kinds': rng.choice([['Select'], 'all']),
             'opaque': True, 'text': text, 'ref': ref, 'when': None, 'expr': ('true',),
             'tof': 'intro' if rng.random() < 0.15 else None}
        pid += 1
        if on == n:
            if c['lpol'] is None:
                c['lpol'] = p
            else:
                continue
        else:
            c['pols'].append(p)
    return c


def case_sdl(c) -> str:
    out = [f'global {g} -> bool;' for g in GLOBALS]
    for i in range(c['n']):
        body = []
        if not c['bases'][i]:
            body += [f'property {f} -> bool;' for f in PROPS_F]
        body += [pol_sdl(p) for p in c['pols'] if p['on'] == i and p.get('ref') != 'func']
        ext = (' extending ' + ', '.join(f'T{b}' for b in c['bases'][i])) if c['bases'][i] else ''
        out.append(f"{'abstract ' if c['abstract'][i] else ''}type T{i}{ext} {{ {' '.join(body)} }}")
    lk = c['links']
    lbody = [f"link one -> T{lk['one']};", f"multi link many -> T{lk['many']};",
             f"required link req -> T{lk['req']};"]
    if not c.get('extras'):
        # (the schema layer refuses computed pointers that reach a type whose policy mentions an alias)
        lbody += ['property cnt := count(.many);', 'link comp := (select .one filter true);']
    if lk.get('uni'):
        lbody.append(f"link uni -> T{lk['uni'][0]} | T{lk['uni'][1]};")
        lbody.append(f"multi link muni -> T{lk['uni'][0]} | T{lk['uni'][1]};")
    if c['lpol'] and c['lpol'].get('ref') != 'func':
        lbody.append(pol_sdl(c['lpol']))
    out.append(f"type L {{ {' '.join(lbody)} }}")
    out.append(f"alias AL := (select T{c['alias']} filter true);")
    out.append(f"global gobj := (select T{c['gobj']} limit 1);")
    ex = c.get('extras')
    if ex:
        out.append(f"alias SA := {SA_KINDS[ex['alias']['kind']][0].format(T='T%d' % ex['alias']['on'])};")
        out.append(f"global gsc := {SA_KINDS[ex['global']['kind']][0].format(T='T%d' % ex['global']['on'])};")
    return '\n'.join(out)


def case_ddl(c):
    """created after the SDL migration (a function over a type cannot be created in the same
    migration that adds policies to the type)"""
    ex = c.get('extras')
    if not ex:
        return None
    ddl = [f"create function fcnt() -> int64 using (count(T{ex['func']['on']}));"]
    for p in all_pols(c):
        if p.get('ref') == 'func':
            tn = 'L' if p['on'] == c['n'] else f"T{p['on']}"
            ddl.append(f"alter type {tn} {{ create {pol_sdl(p)[:-1]}; }};")
    return '\n'.join(ddl)


def all_pols(c):
    return c['pols'] + ([c['lpol']] if c['lpol'] else [])


# --------------------------------------------------- reading the REAL schema data
class RealSchema:
    """the stored fields of the real schema that try_type_rewrite reads, by index
    (T_i -> i, L -> n)."""

    def __init__(self, sch, c, deep=False):
        from edb.schema import objtypes as s_objtypes
        self.sch = sch
        n = c['n']
        self.names = [f'T{i}' for i in range(n)] + ['L']
        self.objs = [sch.get(f'default::{nm}') for nm in self.names]
        self.n_mat = len(self.objs)
        mine = {o.id for o in self.objs}
        # view types (aliases, computed globals) that hang below our types: they are children /
        # descendants as far as try_type_rewrite is concerned
        if deep:
            # a compile-time schema (ir.schema): also the view types derived for shapes, incl. views of views
            views = [o for o in sch.get_objects(exclude_stdlib=True, type=s_objtypes.ObjectType)
                     if o.is_view(sch) and any(a.id in mine for a in o.get_ancestors(sch).objects(sch))]
            views.sort(key=lambda o: (len(o.get_ancestors(sch).objects(sch)), str(o.get_name(sch))))
        else:
            views = [o for o in sch.get_objects(exclude_stdlib=True, type=s_objtypes.ObjectType)
                     if o.is_view(sch) and any(b.id in mine for b in o.get_bases(sch).objects(sch))]
            views.sort(key=lambda o: str(o.get_name(sch)))
        for v in views:
            self.names.append('view:' + str(v.get_name(sch).name))
            self.objs.append(v)
        self.idx = {o.id: i for i, o in enumerate(self.objs)}
        self.types = []
        for o in self.objs:
            bases = [self.idx[b.id] for b in o.get_bases(sch).objects(sch) if b.id in self.idx]
            ancs = [self.idx[a.id] for a in o.get_ancestors(sch).objects(sch) if a.id in self.idx]
            pols = []
            for p in o.get_access_policies(sch).objects(sch):
                nm = str(p.get_shortname(sch).name)
                pols.append({
                    'id': int(nm[1:]),
                    'allow': p.get_action(sch).name == 'Allow',
                    'kinds': sorted(KINDS.index(k.name) for k in p.get_access_kinds(sch)),
                    'subjects': [self.idx[b.get_subject(sch).id] for b in p.get_bases(sch).objects(sch)],
                })
            self.types.append({'bases': bases, 'ancestors': ancs,
                               'abstract': bool(o.get_abstract(sch)),
                               'material': bool(o.is_material_object_type(sch)), 'pols': pols})
        # reverse look-ups exactly as the real code does them
        self.children = [sorted(self.idx[x.id] for x in o.children(sch) if x.id in self.idx)
                         for o in self.objs]
        self.descendants = [sorted(self.idx[x.id] for x in o.descendants(sch) if x.id in self.idx)
                            for o in self.objs]

    def line(self) -> str:
        def nl(l, sep=','):
            return sep.join(map(str, l)) if l else '-'
        ts = []
        for i, t in enumerate(self.types):
            ps = '/'.join(
                f"{p['id']}.{1 if p['allow'] else 0}.{''.join(map(str, p['kinds'])) or '-'}.{p['id']}."
                f"{nl(p['subjects'], '+')}" for p in t['pols']) or '-'
            ts.append(f"{i}:{nl(t['bases'])}:{nl(t['ancestors'])}:{1 if t['abstract'] else 0}:"
                      f"{1 if t['material'] else 0}:{ps}")
        return ';'.join(ts)

    def wf_violations(self) -> list[str]:
        """The model's well-formedness conditions (Model/PolicySpec.lean `WF`),
        evaluated on the real stored data."""
        bad = []
        T = self.types
        for i, t in enumerate(T):
            for b in t['bases']:
                if not b < i:
                    bad.append(f'type {i}: base {b} not earlier (listing is not topological)')
            want = set()
            for b in t['bases']:
                want |= {b} | set(T[b]['ancestors'])
            if set(t['ancestors']) != want:
                bad.append(f'type {i}: stored ancestors {sorted(t["ancestors"])} != closure {sorted(want)}')
            if self.children[i] != sorted(j for j, u in enumerate(T) if i in u['bases']):
                bad.append(f'type {i}: children() is not the reverse of bases')
            if self.descendants[i] != sorted(j for j, u in enumerate(T) if i in u['ancestors']):
                bad.append(f'type {i}: descendants() is not the reverse of ancestors')
            sig = lambda p: (p['id'], p['allow'], tuple(p['kinds']))
            for b in t['bases']:
                if not T[b]['material']:
                    bad.append(f'type {i}: base {b} is not a material type')
                for p in (T[b]['pols'] if t['material'] else []):
                    if not any(sig(q) == sig(p) and b in q['subjects'] for q in t['pols']):
                        bad.append(f'type {i}: policy p{p["id"]} of base {b} not inherited (with that base)')
            for q in t['pols']:
                for s in q['subjects']:
                    if s not in t['bases'] or not any(sig(p) == sig(q) for p in T[s]['pols']):
                        bad.append(f'type {i}: policy p{q["id"]} claims base subject {s} wrongly')
        return bad

    def is_sub(self, d, t) -> bool:
        return d == t or t in self.types[d]['ancestors']

    def protected(self, i) -> bool:
        return bool(self.types[i]['pols'])


def visible_spec(rs: RealSchema, c, ty: int, val) -> bool:
    """The decision, stated directly: a type without policies is unrestricted;
    otherwise some select-kind allow policy holds and no select-kind deny
    policy holds.  Policies come from the REAL schema, their truth from the
    generator's own expressions."""
    pols = rs.types[ty]['pols']
    if not pols:
        return True
    byid = {p['id']: p for p in all_pols(c)}
    sel = [p for p in pols if 0 in p['kinds']]
    return (any(p['allow'] and pol_truth(byid[p['id']], val) for p in sel)
            and not any((not p['allow']) and pol_truth(byid[p['id']], val) for p in sel))


# --------------------------------------------------------- IR: abstraction + eval
class Unabs(Exception):
    pass


def _args(call):
    a = call.args
    return [x.expr for x in (a.values() if isinstance(a, dict) else a)]


def leaf_keys(s, irast):
    e = s.expr
    if isinstance(e, irast.TypeRoot):
        return [(e.typeref.id, bool(e.skip_subtypes))]
    if isinstance(e, irast.SelectStmt):
        if e.where is not None or e.limit is not None or e.offset is not None or e.orderby:
            raise Unabs('clause on a union part')
        return leaf_keys(e.result, irast)
    if isinstance(e, irast.OperatorCall) and str(e.func_shortname) == 'std::UNION':
        return [k for a in _args(e) for k in leaf_keys(a, irast)]
    raise Unabs(f'unexpected {type(e).__name__} in a rewrite')


def abstract_rewrites(ir, rs: RealSchema, irast):
    """IR `type_rewrites` -> {(idx, skip): ('filter', where_ir) | ('union', [keys])}; keys of
    non-user types (computed globals) are left out."""
    out = {}
    for (tid, incl), rw in ir.type_rewrites.items():
        if tid not in rs.idx or rs.idx[tid] >= rs.n_mat:
            continue        # not one of our material types (e.g. the view of a computed global)
        key = (rs.idx[tid], not incl)
        e = rw.expr
        if (isinstance(e, irast.SelectStmt) and e.where is not None
                and isinstance(e.result.expr, irast.TypeRoot)):
            r = e.result.expr
            if (r.typeref.id, bool(r.skip_subtypes)) != (tid, not incl):
                raise Unabs(f'filter for {key} reads another relation')
            out[key] = ('filter', e.where)
        else:
            ks = []
            for (t2, sk) in leaf_keys(rw, irast):
                if t2 not in rs.idx:
                    raise Unabs('union over a non-user type')
                ks.append((rs.idx[t2], sk))
            out[key] = ('union', sorted(ks))
    return out


class IREval:
    """evaluates the boolean IR of a compiled policy filter for one object"""

    def __init__(self, globs, irast):
        self.irast = irast
        self.gparam = {g.name: str(g.global_name.name) for g in globs}

    def ev(self, n, val):
        irast = self.irast
        if isinstance(n, irast.Set):
            if n.expr is None:
                raise Unabs('set without expr in a filter')
            return self.ev(n.expr, val)
        if isinstance(n, irast.SelectStmt):
            if n.where is not None or n.limit is not None:
                raise Unabs('nested select with clauses in a filter')
            return self.ev(n.result, val)
        if isinstance(n, irast.OperatorCall):
            op = str(n.func_shortname)
            a = [self.ev(x, val) for x in _args(n)]
            if op == 'std::OR':
                return None if None in a else (a[0] or a[1])
            if op == 'std::AND':
                return None if None in a else (a[0] and a[1])
            if op == 'std::NOT':
                return None if a[0] is None else (not a[0])
            if op == 'std::??':
                return a[1] if a[0] is None else a[0]
            if op == 'std::?=':
                return a[0] == a[1]
            raise Unabs(f'operator {op}')
        if isinstance(n, irast.BooleanConstant):
            return n.value == 'true'
        if isinstance(n, irast.EmptySet):
            return None
        if isinstance(n, irast.Parameter):
            if n.name not in self.gparam:
                raise Unabs(f'parameter {n.name}')
            return val.get(self.gparam[n.name])
        if isinstance(n, irast.Pointer):
            nm = str(n.ptrref.shortname.name)
            if nm == 'id':
                return 'some-id'
            if nm in PROPS_F:
                return val.get(nm)
            raise Unabs(f'pointer {nm}')
        if isinstance(n, irast.TypeCast):
            return self.ev(n.expr, val)
        if isinstance(n, irast.TypeCheckOp):
            if n.result is None:
                raise Unabs('type check not decided at compile time')
            return None if self.ev(n.left, val) is None else bool(n.result)
        raise Unabs(f'IR node {type(n).__name__}')


def sexpr_eval(s: str, rho) -> bool:
    """evaluator for the model's printed formula"""
    toks = s.replace('(', ' ( ').replace(')', ' ) ').split()
    pos = [0]

    def parse():
        t = toks[pos[0]]
        pos[0] += 1
        if t == '(':
            op = toks[pos[0]]
            pos[0] += 1
            args = []
            while toks[pos[0]] != ')':
                args.append(parse())
            pos[0] += 1
            if op == 'or':
                return args[0] or args[1]
            if op == 'and':
                return args[0] and args[1]
            if op == 'not':
                return not args[0]
            raise ValueError(op)
        if t == 'true':
            return True
        if t in ('false', 'bogus'):
            return False
        return bool(rho[int(t[1:])])
    return parse()


def valuations():
    """all boolean valuations of the atoms + each atom unset once"""
    vs = [dict(zip(ATOMS, bits)) for bits in itertools.product([False, True], repeat=len(ATOMS))]
    for a in ATOMS:
        v = {x: True for x in ATOMS}
        v[a] = None
        vs.append(v)
    return vs


# ------------------------------------------------------------------ SQL audit
def sql_units(root, pgast, cast):
    """split the SQL tree into units (MAIN + every CTE): direct reads of base
    relations and references to CTEs, each with a flag saying whether a WHERE
    clause of an enclosing SELECT (inside the unit) applies."""
    units = {'MAIN': {'reads': [], 'refs': [], 'node': root}}
    seen = set()
    ctes_by_name = {}
    compound = [0]

    def walk(node, cur, guarded):
        if isinstance(node, pgast.CommonTableExpr):
            ctes_by_name[node.name] = node
            if id(node) in seen:
                return
            seen.add(id(node))
            units.setdefault(node.name, {'reads': [], 'refs': [], 'node': node})
            walk(node.query, node.name, False)
            return
        if isinstance(node, pgast.RelRangeVar):
            rel = node.relation
            if isinstance(rel, pgast.CommonTableExpr):
                units[cur]['refs'].append((rel.name, guarded))
                walk(rel, cur, guarded)
            elif isinstance(rel, pgast.Relation):
                units[cur]['reads'].append((rel, guarded, compound[0]))
            else:
                walk(rel, cur, guarded)
            return
        if isinstance(node, pgast.PathRangeVar):
            tr = getattr(node, 'typeref', None)
            if tr is not None and getattr(tr, 'union', None):
                # the relation of a union type (range_for_typeref): remember it for the diagnosis
                compound[0] += 1
                try:
                    for f, v in cast.iter_fields(node, include_meta=False):
                        walkv(v, cur, guarded)
                finally:
                    compound[0] -= 1
                return
        if isinstance(node, pgast.SelectStmt):
            g = guarded or node.where_clause is not None
            for f, v in cast.iter_fields(node, include_meta=False):
                walkv(v, cur, g)
            return
        if isinstance(node, cast.AST):
            for f, v in cast.iter_fields(node, include_meta=False):
                walkv(v, cur, guarded)

    def walkv(v, cur, guarded):
        if isinstance(v, cast.AST):
            walk(v, cur, guarded)
        elif isinstance(v, (list, tuple, set, frozenset)):
            for x in v:
                walkv(x, cur, guarded)
        elif isinstance(v, dict):
            for x in v.values():
                walkv(x, cur, guarded)

    walk(root, 'MAIN', False)
    return units


def ir_suppressed(ir, rs: RealSchema, irast, cast):
    """Where does the IR contain object sets compiled with rewrites suppressed
    (`ignore_rewrites`, i.e. compiled as part of an access-policy body)?
    -> (types in the statement proper, {filter key: types in its WHERE}, {key: types elsewhere in a rewrite})"""
    def collect(root):
        out, stack, seen = set(), [root], set()
        while stack:
            n = stack.pop()
            if isinstance(n, cast.AST):
                if id(n) in seen or isinstance(n, (irast.TypeRef, irast.BasePointerRef)):
                    continue
                seen.add(id(n))
                if isinstance(n, irast.Set) and getattr(n, 'ignore_rewrites', False):
                    trs = [n.typeref.real_material_type]
                    trs += list(getattr(n.typeref, 'union', None) or [])
                    for tr in trs:
                        tid = tr.real_material_type.id
                        if tid in rs.idx and rs.idx[tid] < rs.n_mat:
                            out.add(rs.idx[tid])
                for _f, v in cast.iter_fields(n, include_meta=False):
                    stack.append(v)
            elif isinstance(n, (list, tuple, set, frozenset)):
                stack.extend(n)
            elif isinstance(n, dict):
                stack.extend(n.values())
        return out
    main = collect(ir.expr)
    in_where, stray = {}, {}
    for (tid, incl), rw in ir.type_rewrites.items():
        if tid not in rs.idx or rs.idx[tid] >= rs.n_mat:
            # the CTE of a computed global: compiled once per security context; whether the
            # policy-context copy is used by the statement proper shows in the SQL (it is inlined
            # into whoever references it)
            continue
        key = (rs.idx[tid], not incl)
        e = rw.expr
        if isinstance(e, irast.SelectStmt) and e.where is not None and isinstance(e.result.expr, irast.TypeRoot):
            in_where[key] = collect(e.where)
            st = collect(e.result)
        else:
            st = collect(rw)
        if st:
            stray[key] = st
    return main, in_where, stray


def audit_sql(res_ast, ir, rs: RealSchema, entries, expect, pgast, cast, irast):
    """returns ([(class, message)], stats).  `entries`: abstraction of ir.type_rewrites.
    `expect`: groups of type indices the query must reach through a rewrite."""
    problems = []
    units = sql_units(res_ast, pgast, cast)

    def cone_protected(t):
        return any(rs.protected(d) for d in range(rs.n_mat) if rs.is_sub(d, t))
    # IR: sets compiled with rewrites suppressed may only sit in the WHERE of a filter rewrite
    # (= inside a policy body); anywhere else they are reads that escaped the policy context.
    supp_main, supp_where, supp_stray = ir_suppressed(ir, rs, irast, cast)
    for t in sorted(supp_main):
        if cone_protected(t):
            problems.append(('suppressed-read-outside-policy',
                             f'the statement proper contains a set of type {rs.names[t]} compiled with access '
                             f'policies suppressed (a view compiled inside a policy body was reused)'))
    for k, ts in supp_stray.items():
        for t in sorted(ts):
            if cone_protected(t):
                problems.append(('suppressed-read-outside-policy',
                                 f'rewrite {k} contains, outside its filter condition, a set of type '
                                 f'{rs.names[t]} compiled with access policies suppressed'))
    rw_pid = {}
    for (tid, incl), rw in ir.type_rewrites.items():
        if tid in rs.idx and rs.idx[tid] < rs.n_mat:
            rw_pid[rw.path_id] = (rs.idx[tid], not incl)
    # which CTEs are rewrite CTEs (range_for_material_objtype compiles the rewrite set into them)
    key_of = {}
    for name, u in units.items():
        if name == 'MAIN':
            continue
        q = u['node'].query
        pids = [pid for (pid, _asp) in (getattr(q, 'path_rvar_map', None) or {})]
        for (pid, _asp) in getattr(q, 'path_outputs', None) or {}:
            while pid is not None:
                pids.append(pid)
                pid = pid.src_path()
        for pid in pids:
            if pid in rw_pid:
                key_of[name] = rw_pid[pid]

    def named_ctes(u):
        return [rel.name for rel, _g, _c in u['reads'] if rel.schemaname is None and rel.name in units]

    def reads_of(name, stack=()):
        """raw reads of user-type tables by a unit, inlining non-rewrite CTEs:
        [(type idx, guarded by a WHERE, under a union-type relation)]"""
        u = units[name]
        out = []
        for rel, g, cp in u['reads']:
            ref = rel.type_or_ptr_ref
            if isinstance(ref, irast.TypeRef):
                tid = ref.real_material_type.id
                if tid in rs.idx:
                    out.append((rs.idx[tid], g, cp > 0))
        for cn, g in [(cn, g) for cn, g in u['refs']] + [(cn, False) for cn in named_ctes(u)]:
            if cn in key_of or cn in stack or cn == name:
                continue
            out += [(t, g or g2, cp) for t, g2, cp in reads_of(cn, stack + (name,))]
        return out

    def refs_closure(name):
        """rewrite keys reachable from a unit through any CTE references"""
        seenu, todo, keys = set(), [name], set()
        while todo:
            x = todo.pop()
            if x in seenu:
                continue
            seenu.add(x)
            u = units[x]
            for cn in [cn for cn, _ in u['refs']] + named_ctes(u):
                if cn in key_of:
                    keys.add(key_of[cn])
                todo.append(cn)
        return keys

    referenced = set()
    for u in units.values():
        referenced |= {cn for cn, _ in u['refs']} | set(named_ctes(u))
    n_reads = 0
    for name in units:
        if name != 'MAIN' and name in key_of:
            t, skip = key_of[name]
            ent = entries.get((t, skip))
            for (x, g, cp) in reads_of(name):
                n_reads += 1
                if not rs.protected(x):
                    continue
                in_scope = (x == t) or (not skip and rs.is_sub(x, t))
                # reads made by the policy body itself (rewrites suppressed by design)
                in_body = any(rs.is_sub(x, d) for d in supp_where.get((t, skip), ()))
                if ent is not None and ent[0] == 'filter' and in_body and not in_scope:
                    continue
                if ent is None or ent[0] != 'filter':
                    problems.append(('raw-read-in-union-cte',
                                     f'rewrite CTE {name} for key {(t, skip)} ({ent and ent[0]}) reads the table '
                                     f'of protected type {rs.names[x]} directly'))
                elif not in_scope:
                    problems.append(('raw-read-out-of-scope',
                                     f'filter CTE {name} for key {(t, skip)} reads the table of protected type '
                                     f'{rs.names[x]} which is outside its scope'))
                elif not g:
                    problems.append(('filter-cte-without-where',
                                     f'filter CTE {name} for key {(t, skip)} reads {rs.names[x]} without a '
                                     f'WHERE clause on the way'))
        elif name == 'MAIN' or name not in referenced:
            # the statement proper (and CTEs nobody references, which are still part of it)
            for (x, g, cp) in reads_of(name):
                n_reads += 1
                if rs.protected(x):
                    problems.append(('raw-read-compound-type' if cp else 'raw-read',
                                     f'table of protected type {rs.names[x]} is read outside any rewrite CTE'
                                     + (' (relation of a union type)' if cp else '')))
    reach = refs_closure('MAIN')
    for grp in expect:
        # grp: type indices, most specific (result type) first
        if not any(rs.protected(d) for d in range(len(rs.types)) if rs.is_sub(d, grp[0])):
            continue        # neither the result type nor a descendant has policies: raw reads are fine
        if not any((t, False) in reach for t in grp):
            problems.append(('no-rewrite-reference',
                             'query reaches objects of ' + '/'.join(rs.names[t] for t in grp)
                             + ' but references none of their rewrite CTEs'))
    stats = {'units': len(units), 'rewrite_ctes': len(key_of), 'raw_reads': n_reads}
    return sorted(set(problems)), stats


# -------------------------------------------------------------- query templates
def gen_queries(rng, c, rs: RealSchema, k: int):
    """(text, expect groups, access-path tag); type indices, most specific first"""
    n = c['n']
    lk = c['links']
    L = n

    def T(i):
        return f'T{i}'

    def rnd():
        return rng.randrange(n)

    def desc_of(i):
        ds = [d for d in range(n) if rs.is_sub(d, i)]
        return rng.choice(ds)

    r1, r2 = rnd(), rnd()
    one, many, req = lk['one'], lk['many'], lk['req']
    d_one = desc_of(one)
    d_r1 = desc_of(r1)
    pool = [
        (f'select {T(r1)}', [[r1]], 'direct'),
        (f'select {T(r1)} {{ id }}', [[r1]], 'direct-shape'),
        ('select L.one', [[one], [L]], 'link'),
        ('select L.many', [[many], [L]], 'link-multi'),
        ('select L.req', [[req], [L]], 'link-required'),
        ('select L { one: {id}, many: {id}, req }', [[one], [many], [req], [L]], 'shape'),
        ('select L { one }', [[one], [L]], 'shape-id-only'),
        ('select L.one.id', [[one], [L]], 'link-id'),
        (f'select {T(one)}.<one[is L]', [[one], [L]], 'backlink'),
        (f'select {T(many)}.<many[is L] {{ one }}', [[many], [one], [L]], 'backlink-multi'),
        (f'select {T(one)} {{ holders := .<one[is L] }}', [[one], [L]], 'backlink-shape'),
        (f'select L.one[is {T(d_one)}]', [[d_one, one], [L]], 'link-intersection'),
        (f'select {T(r1)}[is {T(d_r1)}]', [[d_r1, r1]], 'intersection'),
        (f'select {T(r1)}[is {T(r2)}]', [[r2, r1]] if rs.is_sub(r2, r1) else ([[r1, r2]] if rs.is_sub(r1, r2) else []),
         'intersection-any'),
        (f'select count({T(r1)})', [[r1]], 'aggregate'),
        ('select count(L.many)', [[many], [L]], 'aggregate-link'),
        (f'select exists {T(r1)}', [[r1]], 'exists'),
        (f'select (select {T(r1)} filter true limit 1)', [[r1]], 'subquery'),
        (f'select (select L filter exists .one) {{ many }}', [[one], [many], [L]], 'subquery-filter'),
        (f'with x := {T(r1)} select x', [[r1]], 'with-alias'),
        (f'with x := (select {T(r1)}) select (x, count({T(r2)}))', [[r1], [r2]], 'with-tuple'),
        ('select (for x in L union x.one)', [[one], [L]], 'for'),
        ('select AL', [[c['alias']]], 'schema-alias'),
        ('select AL { id }', [[c['alias']]], 'schema-alias-shape'),
        ('select L.cnt', [[many], [L]], 'computed-prop'),
        ('select L.comp', [[one], [L]], 'computed-link'),
        ('select L { comp: {id} }', [[one], [L]], 'computed-link-shape'),
        ('select L { c2 := .one, n := count(.many) }', [[one], [many], [L]], 'computed-shape'),
        ('select global gobj', [[c['gobj']]], 'global'),
        ('select (global gobj) { id }', [[c['gobj']]], 'global-shape'),
        (f"select <{T(r1)}><uuid>'00000000-0000-0000-0000-000000000000'", [[r1]], 'uuid-cast'),
        (f'select {{ {T(r1)}, {T(r2)} }}', [[r1], [r2]], 'union'),
        (f'select distinct (L.one union L.req)', [[one], [req], [L]], 'distinct-union'),
        ('select (L.one ?? L.req)', [[one], [req], [L]], 'coalesce'),
        (f'select array_agg({T(r1)})', [[r1]], 'array-agg'),
        (f'select ({T(r1)}, L)', [[r1], [L]], 'tuple'),
        (f'select L filter .one is {T(d_one)}', [[one], [L]], 'is-test'),
        ('select L order by .one.id', [[one], [L]], 'order-by-link'),
        (f'select {T(r1)}.__type__.name', [[r1]], 'type-name'),
        (f'select (detached {T(r1)})', [[r1]], 'detached'),
        (f'select assert_single((select {T(r1)} limit 1))', [[r1]], 'assert-single'),
        (f'select L {{ one }} filter .one.id = <uuid>"00000000-0000-0000-0000-000000000000"', [[one], [L]],
         'filter-link-id'),
        (f'select (select L limit 1).many', [[many], [L]], 'subquery-link'),
        (f'select {T(r1)} filter .id in {T(r2)}.id', [[r1], [r2]], 'semi-join'),
    ]
    if lk.get('uni'):
        u0, u1 = lk['uni']
        d_u = desc_of(rng.choice([u0, u1]))
        pool += [
            ('select L.uni', [[L]], 'link-union-type'),
            ('select L { uni: {id}, muni: {id} }', [[L]], 'shape-union-type'),
            ('select L.muni', [[L]], 'link-multi-union-type'),
            (f'select L.uni[is {T(d_u)}]', [[L]], 'link-union-type-intersection'),
            ('select count(L.uni)', [[L]], 'aggregate-union-type'),
            (f'select {T(r1)}[is {T(u0)} | {T(u1)}]', [], 'intersection-union-type'),
        ]
    al, go = c['alias'], c['gobj']
    pool += [
        ('select (true is typeof AL.f0, AL)', [[al]], 'typeof-alias-before'),
        ('select (AL, true is typeof AL.f0)', [[al]], 'typeof-alias-after'),
        ('select (<typeof AL.f0>true, AL)', [[al]], 'typeof-cast-alias-before'),
        ('select ((introspect (typeof AL.f0)).name, AL)', [[al]], 'typeof-introspect-alias-before'),
        ('select AL filter (.f0 ?? false) is typeof AL.f0', [[al]], 'typeof-alias-in-filter'),
        (f'select (true is typeof {T(r1)}.f0, {T(r1)})', [[r1]], 'typeof-type-before'),
        (f'select {T(r1)} {{ t := (introspect (typeof {T(r2)}.f0)).name, n := count({T(r2)}) }}', [[r1], [r2]],
         'typeof-introspect-in-shape'),
        ('select (true is typeof (global gobj).f0, global gobj)', [[go]], 'typeof-global-before'),
        ('select (global gobj, true is typeof (global gobj).f0)', [[go]], 'typeof-global-after'),
        ('select (true is typeof L.one.f0, L.one)', [[one], [L]], 'typeof-link-before'),
    ]
    ex = c.get('extras')
    if ex:
        pool = [q for q in pool if not q[2].startswith('computed-')]
        a_on = ex['alias']['on']
        a_exp = [[one], [L]] if ex['alias']['kind'] == 'link' else [[a_on]]
        g_on = ex['global']['on']
        users = {}                 # which types' policies mention which helper
        for p in all_pols(c):
            if p.get('opaque'):
                users.setdefault(p['ref'], []).append(p['on'])
        xt = []
        for u in dict.fromkeys(users.get('alias', []) + [r1]):
            U = 'L' if u == L else T(u)
            xt += [
                (f'select ({U}, SA)', [[u]] + a_exp, 'alias-tuple-after'),
                (f'select (SA, {U})', [[u]] + a_exp, 'alias-tuple-before'),
                (f'select {U} {{ x := SA }}', [[u]] + a_exp, 'alias-in-shape'),
                (f'with s := SA select ({U}, s)', [[u]] + a_exp, 'alias-with'),
                (f'select {U} filter exists SA', [[u]] + a_exp, 'alias-in-filter'),
                (f'select (select {U} limit 1) {{ x := SA, y := SA }}', [[u]] + a_exp, 'alias-subquery-shape'),
            ]
        for u in dict.fromkeys(users.get('global', []) + [r2]):
            U = 'L' if u == L else T(u)
            xt += [
                (f'select ({U}, global gsc)', [[u], [g_on]], 'global-tuple-after'),
                (f'select (global gsc, {U})', [[u], [g_on]], 'global-tuple-before'),
                (f'select {U} {{ x := global gsc }}', [[u], [g_on]], 'global-in-shape'),
                (f'select {U} filter exists (global gsc)', [[u], [g_on]], 'global-in-filter'),
            ]
        for u in dict.fromkeys(users.get('func', []) + users.get('direct', [])):
            U = 'L' if u == L else T(u)
            xt += [
                (f'select ({U}, fcnt())', [[u]], 'func-tuple-after'),
                (f'select {U} {{ x := fcnt(), y := count({T(ex["direct"])}) }}', [[u], [ex['direct']]],
                 'func-in-shape'),
                (f'select (count({T(ex["direct"])}), {U})', [[u], [ex['direct']]], 'direct-tuple-before'),
            ]
        xt += [('select SA', a_exp, 'alias-alone'), ('select global gsc', [[g_on]], 'global-scalar-alone'),
               ('select (SA is typeof SA, SA)', a_exp, 'typeof-salias-before'),
               ('select (SA, SA is typeof SA)', a_exp, 'typeof-salias-after'),
               ('select ((global gsc) is typeof (global gsc), global gsc)', [[g_on]], 'typeof-sglobal-before')]
        # these are the point of such a hierarchy: take most of the budget from them
        take = xt if c.get('all_extras') else rng.sample(xt, min(len(xt), max(4, k - 2)))
        rest0 = rng.sample(pool, min(len(pool), max(k - len(take), 2)))
        return take + rest0, len(pool) + len(xt)
    must = [q for q in pool if q[2] in c.get('must', ())]
    rest = [q for q in pool if q[2] not in c.get('must', ())]
    return must + rng.sample(rest, min(max(k - len(must), 0), len(rest))), len(pool)


# ---------------------------------------------------------------------- level 1
L1_GLOBALS = ['q0', 'q1', 'q2', 'q3']


def gen_l1_sets(rng, n_random):
    """policy sets for one type: [(allow, kinds)] ; condition of policy i is `global q_i ?? false`"""
    opts = [(a, k) for a in (True, False) for k in (['Select'], 'all', ['Insert'])]
    sets = [[]]
    sets += [[o] for o in opts]
    sets += [[o1, o2] for o1 in opts for o2 in opts]
    kinds_pool = [['Select'], 'all', ['Insert'], ['Select', 'UpdateRead'], ['UpdateRead'], ['Delete', 'UpdateWrite']]
    for _ in range(n_random):
        k = rng.choice([3, 3, 4, 4])
        sets.append([(rng.random() < 0.55, rng.choice(kinds_pool)) for _ in range(k)])
    return sets


def l1_sdl(sets):
    out = [f'global {g} -> bool;' for g in L1_GLOBALS]
    for i, ps in enumerate(sets):
        body = []
        for j, (allow, kinds) in enumerate(ps):
            ks = 'all' if kinds == 'all' else ', '.join(KIND_SDL[k] for k in kinds)
            body.append(f"access policy p{j} {'allow' if allow else 'deny'} {ks} using (global q{j} ?? false);")
        out.append(f"type X{i} {{ {' '.join(body)} }}")
    return '\n'.join(out)


def qlast_sexpr(node, anchor_idx, qlast):
    """the real qlast tree of get_rewrite_filter -> the model's formula syntax"""
    if isinstance(node, qlast.BinOp):
        if node.op == '?=':
            l, r = node.left, node.right
            if (isinstance(l, qlast.Path) and l.partial and len(l.steps) == 1
                    and getattr(l.steps[0], 'name', None) == 'id'
                    and isinstance(r, qlast.TypeCast) and isinstance(r.expr, qlast.Set)
                    and not r.expr.elements):
                return 'bogus'
            raise Unabs('unexpected ?= in filter')
        op = {'OR': 'or', 'AND': 'and'}.get(node.op.upper())
        if not op:
            raise Unabs(f'operator {node.op}')
        return f'({op} {qlast_sexpr(node.left, anchor_idx, qlast)} {qlast_sexpr(node.right, anchor_idx, qlast)})'
    if isinstance(node, qlast.UnaryOp) and node.op.upper() == 'NOT':
        return f'(not {qlast_sexpr(node.operand, anchor_idx, qlast)})'
    if isinstance(node, qlast.Constant):
        if str(node.value).lower() in ('true', 'false'):
            return str(node.value).lower()
        raise Unabs('constant')
    if isinstance(node, qlast.Path) and len(node.steps) == 1 and isinstance(node.steps[0], qlast.IRAnchor):
        return f'c{anchor_idx[node.steps[0].name]}'
    raise Unabs(f'qlast node {type(node).__name__}')


def run_level1(ctx, mods, sets):
    """returns [(label, driver line, real formula sexpr|none, real truth table)]"""
    env, irast, qlast, qltypes = mods['env'], mods['irast'], mods['qlast'], mods['qltypes']
    from edb.edgeql.compiler import stmtctx, policies, setgen, options as coptions
    sch = env.load_schema(l1_sdl(sets), modname='default')
    modes = [getattr(qltypes.AccessKind, k) for k in KINDS]
    out = []
    for i, ps in enumerate(sets):
        stype = sch.get(f'default::X{i}')
        real_pols = stype.get_access_policies(sch).objects(sch)
        order = [int(str(p.get_shortname(sch).name)[1:]) for p in real_pols]     # real iteration order
        for mi, mode in enumerate(modes):
            pol_line = '/'.join(
                f"{j}.{1 if ps[j][0] else 0}."
                f"{''.join(str(KINDS.index(k)) for k in (KINDS if ps[j][1] == 'all' else ps[j][1]))}.{j}"
                for j in order) or '-'
            line = f'F|{mi}|{pol_line}'
            label = f'X{i}:{KINDS[mi]}:{pol_line}'
            try:
                c0 = stmtctx.init_context(
                    schema=sch, options=coptions.CompilerOptions(modaliases={None: 'default'}))
                with c0.detached() as sub:
                    c0.env.type_rewrites[(stype, True)] = None      # we are already "inside" the type
                    base = setgen.class_set(stype, skip_subtypes=True, ctx=sub)
                    sub.anchors['__subject__'] = base
                    sub.partial_path_prefix = base
                    sub.path_scope = sub.env.path_scope.root.attach_fence()
                    before = set(sub.anchors)
                    fq = policies.get_rewrite_filter(stype, mode=mode, ctx=sub)
                    new = [k for k in sub.anchors if k not in before]
                    if fq is None:
                        out.append((label, line, 'none', None))
                        continue
                    # anchors are created in policy order, for the policies the mode applies to
                    applic = [j for j in order
                              if KINDS[mi] in (KINDS if ps[j][1] == 'all' else ps[j][1])]
                    if len(new) != len(applic):
                        raise Unabs(f'{len(new)} anchors for {len(applic)} applicable policies')
                    aidx = dict(zip(new, applic))
                    ev = IREval(list(c0.env.query_globals.values()), irast)
                    sx = qlast_sexpr(fq, aidx, qlast)
                    table = []
                    k = len(ps)
                    for v in range(2 ** k):
                        val = {f'q{j}': bool((v >> j) & 1) for j in range(len(L1_GLOBALS))}
                        # each anchor must be the compiled condition of the policy we think it is
                        for a, j in aidx.items():
                            if bool(ev.ev(sub.anchors[a], val)) != val[f'q{j}']:
                                raise Unabs(f'anchor {a} is not the condition of policy p{j}')
                        rho = {j: val[f'q{j}'] for j in range(k)}
                        table.append('1' if sexpr_eval(sx, rho) else '0')
                    out.append((label, line, sx, ''.join(table)))
            except Unabs as e:
                out.append((label, line, f'unabstractable: {e}', None))
            except Exception as e:       # the real function failed
                out.append((label, line, f'error: {type(e).__name__}: {e}', None))
    return out


# --------------------------------------------------------------- fixed witnesses
def witness_cases():
    """deterministic small hierarchies: always run (also the replayable inputs
    of the counterexample theorems in Props/C07.lean)."""
    def P(pid, on, allow, atom, kinds=('Select',)):
        return {'id': pid, 'on': on, 'allow': allow, 'kinds': list(kinds), 'expr': ('atom', atom), 'when': None}
    base = {'links': {'one': 0, 'many': 1, 'req': 0, 'uni': [1, 2]}, 'lpol': None, 'alias': 0, 'gobj': 0}
    return [
        dict(base, n=4, shape='w-diamond', bases=[[], [0], [0], [2, 1]], abstract=[False] * 4,
             pols=[P(0, 0, True, 'g0'), P(1, 3, False, 'g1')]),
        dict(base, n=3, shape='w-redundant', bases=[[], [0], [1, 0]], abstract=[False] * 3,
             pols=[P(0, 0, True, 'g0'), P(1, 2, False, 'g1')]),
        dict(base, n=4, shape='w-tree', bases=[[], [0], [0], [1]], abstract=[False, True, False, False],
             pols=[P(0, 0, True, 'g0'), P(1, 1, False, 'f0'), P(2, 3, True, 'g2', ('Insert',))]),
        dict(base, n=4, shape='w-diamond-top', bases=[[], [0], [0], [2, 1]], abstract=[False] * 4,
             pols=[P(0, 0, True, 'g0'), P(1, 0, False, 'f1')]),
        # a link to a union type whose components share a protected descendant
        dict(base, n=3, shape='w-union-link', bases=[[], [], [1, 0]], abstract=[False] * 3,
             pols=[P(0, 2, False, 'g0')], links={'one': 0, 'many': 1, 'req': 0, 'uni': [0, 1]},
             must=['link-union-type', 'shape-union-type', 'coalesce']),
        # `typeof` inside a policy expression / over a schema alias before its use
        dict(base, n=2, shape='w-typeof-policy', bases=[[], [0]], abstract=[False] * 2,
             pols=[dict(P(0, 0, True, 'g0'), tof='is', tof_prop=True), P(1, 1, False, 'f0')],
             links={'one': 0, 'many': 1, 'req': 0, 'uni': None}),
        dict(base, n=2, shape='w-typeof-alias', bases=[[], [0]], abstract=[False] * 2,
             pols=[P(0, 0, True, 'g0')], links={'one': 0, 'many': 1, 'req': 0, 'uni': None},
             must=['typeof-alias-before', 'typeof-alias-after', 'typeof-cast-alias-before',
                   'typeof-introspect-alias-before', 'typeof-global-before', 'typeof-global-after',
                   'typeof-type-before']),
        # policy-in-policy through a scalar alias / a computed scalar global / a function
        dict(base, n=3, shape='w-policy-alias', bases=[[], [], []], abstract=[False] * 3,
             pols=[P(0, 0, True, 'g0'),
                   {'id': 1, 'on': 1, 'allow': True, 'kinds': ['Select'], 'opaque': True, 'ref': 'alias',
                    'text': '(.f0 ?? false) in SA', 'when': None, 'expr': ('true',)},
                   {'id': 2, 'on': 2, 'allow': True, 'kinds': ['Select'], 'opaque': True, 'ref': 'global',
                    'text': '(global gsc) >= 0', 'when': None, 'expr': ('true',)},
                   {'id': 3, 'on': 2, 'allow': False, 'kinds': ['Select'], 'opaque': True, 'ref': 'func',
                    'text': 'fcnt() < 0', 'when': None, 'expr': ('true',)}],
             extras={'alias': {'kind': 'prop', 'on': 0}, 'global': {'kind': 'count', 'on': 0},
                     'func': {'on': 0}, 'direct': 0}, all_extras=True),
    ]


def policy_inheritance_violations(sch, type_names):
    """every policy declared on a type must be in force (same action, kinds, condition) on every
    material descendant"""
    bad = []
    objs = [sch.get(f'default::{n}') for n in type_names]

    def sig(p):
        e, c = p.get_expr(sch), p.get_condition(sch)
        return (p.get_action(sch).name, tuple(sorted(k.name for k in p.get_access_kinds(sch))),
                e.text if e else None, c.text if c else None)
    for o in objs:
        for p in o.get_access_policies(sch).objects(sch):
            if p.get_bases(sch).objects(sch):
                continue            # inherited here, declared elsewhere
            for d in o.descendants(sch):
                if not d.is_material_object_type(sch):
                    continue
                if not any(sig(q) == sig(p) for q in d.get_access_policies(sch).objects(sch)):
                    bad.append(f'policy {p.get_shortname(sch).name} {sig(p)} declared on {o.get_name(sch)} is not '
                               f'in force on its descendant {d.get_name(sch)}: '
                               f'{[sig(q) for q in d.get_access_policies(sch).objects(sch)]}')
    return bad


def run_corpus(ctx, env, irast, pgast, pgc, cast) -> int:
    """corpus/C07/*.json: minimised witnesses of defects that were fixed in /repo.  Hard oracle: for
    every query, every `protected` type has a type_rewrites entry and its table is read only inside
    a CTE (never in the statement proper)."""
    import glob
    import os
    n = 0
    for fn in sorted(glob.glob(os.path.join(core.VERIF, 'corpus', 'C07', '*.json'))):
        w = json.load(open(fn))
        name = os.path.basename(fn)[:-5]
        try:
            sch = env.load_schema(w['sdl'], modname='default')
        except Exception as e:
            ctx.fail(f'corpus:{name}:schema', f'corpus schema no longer loads: {type(e).__name__}: {e}',
                     {'file': fn}, no_input=True)
            continue
        prot = {sch.get(f'default::{t}').id: t for t in w['protected']}
        for q in w['must_be_filtered']:
            n += 1
            try:
                ir = env.compile_to_ir(sch, q)
                res = pgc.compile_ir_to_sql_tree(ir, output_format=pgc.OutputFormat.NATIVE)
            except Exception as e:
                ctx.fail(f'corpus:{name}:{q}', f'corpus query no longer compiles: {type(e).__name__}: {e}',
                         {'file': fn, 'sdl': w['sdl'], 'query': q})
                continue
            bad = []
            for tid, tn in prot.items():
                if not any(t == tid for (t, _incl) in ir.type_rewrites):
                    bad.append(f'no type_rewrites entry for {tn}')
            units = sql_units(res.ast, pgast, cast)
            for uname, u in units.items():
                for rel, _g, _cp in u['reads']:
                    ref = rel.type_or_ptr_ref
                    if isinstance(ref, irast.TypeRef) and ref.real_material_type.id in prot and uname == 'MAIN':
                        bad.append(f'table of {prot[ref.real_material_type.id]} read in the statement proper')
            for b in sorted(set(bad)):
                ctx.fail(f'corpus:{name}:{q}', f'regression of a fixed defect ({w.get("fixed_by")}): {b}',
                         {'file': fn, 'sdl': w['sdl'], 'query': q, 'root_cause': w.get('root_cause')})
    return n


SAME_NAME_SDL = '''
global g0 -> bool;
global g1 -> bool;
type A { access policy p allow select using (global g0 ?? false); }
type B { access policy p deny all using (global g1 ?? false); }
type C extending A, B;
'''


# --------------------------------------------------------------------------- run
def classify_plan_failure(rs, entries, root, miss_types, dup_types):
    """name the cause when it is one of the two understood defects of try_type_rewrite"""
    reach, todo = set(), [(root, False)]
    while todo:
        k = todo.pop()
        if k in reach:
            continue
        reach.add(k)
        e = entries.get(k)
        if e and e[0] == 'union':
            todo += e[1]
    causes = set()
    for (s, skip) in reach:
        e = entries.get((s, skip))
        if not e or e[0] != 'union' or skip:
            continue
        parts = [k for k in e[1] if k != (s, True)]
        if parts and all(sk for (_t, sk) in parts):          # overlap mode: descendants' own tables
            listed = {t for (t, _sk) in parts}
            if any(d in rs.children[s] and d not in listed for d in miss_types):
                causes.add('overlap-drops-children')
        else:
            ch = [t for (t, _sk) in parts]
            if any(c1 != c2 and rs.is_sub(c2, c1) and any(rs.is_sub(d, c2) for d in dup_types)
                   for c1 in ch for c2 in ch):
                causes.add('redundant-base-duplicates')
    return causes


def run(ctx: core.Ctx):
    proved = ctx.proof_stage(PROPS, ['EdbVerif.Props.C07', 'Driver.C07'], required=REQUIRED)
    ctx.log('proof stage:', 'ok' if proved else ctx.proof['broken'])

    from bridge import env
    env.setup()
    env.std_schema()
    from edb.ir import ast as irast
    from edb.edgeql import ast as qlast, qltypes
    from edb.pgsql import compiler as pgc, ast as pgast
    from edb.common import ast as cast
    from edb import errors as edb_errors
    mods = {'env': env, 'irast': irast, 'qlast': qlast, 'qltypes': qltypes}
    rng = ctx.rng
    ctx.log('bridge ready', env.std_info())

    # ------------------------------------------------ corpus: past defects, replayed first
    n_corpus = run_corpus(ctx, env, irast, pgast, pgc, cast)
    ctx.log(f'corpus: {n_corpus} queries of past defects re-checked')

    # ------------------------------------------------------------- level 1
    lines, expect_real = [], []
    l1 = []
    if not ctx.replay:
        sets = gen_l1_sets(rng, ctx.budget(30, 400))
        l1 = run_level1(ctx, mods, sets)
        for (label, line, sx, table) in l1:
            lines.append(line)
            expect_real.append(('L1', label, sx, table))
        ctx.log(f'level 1: {len(l1)} calls of the real get_rewrite_filter')

    # ---------------------------------------- probe: same-named policies of two bases
    if True:
        sch0 = env.load_schema(SAME_NAME_SDL, modname='default')
        for v in policy_inheritance_violations(sch0, ['A', 'B', 'C']):
            ctx.fail('schema:same-name-policy-merge',
                     'a policy declared on a base type is silently dropped on a subtype that inherits a '
                     'same-named policy from another base (reads of the subtype ignore it): ' + v,
                     {'sdl': SAME_NAME_SDL})

    # ------------------------------------------------------------- level 2
    cases = []
    if ctx.replay:
        rp = json.load(open(ctx.replay))
        for f in rp['failures']:
            d = f.get('detail')
            if isinstance(d, dict) and 'case' in d:
                cases.append((d['case'], d.get('queries')))
    else:
        cases = [(w, None) for w in witness_cases()]
        for _ in range(ctx.budget(15, 300)):
            cases.append((gen_hierarchy(rng), None))
    nq = ctx.budget(7, 12)
    vals_all = valuations()
    gvals = [dict(zip(GLOBALS, b)) for b in itertools.product([False, True], repeat=len(GLOBALS))]
    pvals = [dict(zip(PROPS_F, b)) for b in itertools.product([False, True], repeat=len(PROPS_F))]

    hist = {'shape': {}, 'entry': {'none': 0, 'filter': 0, 'union': 0}, 'paths': {}, 'placement': {},
            'kinds': {}}
    stats = {'hierarchies': 0, 'schema_errors': 0, 'schema_crashes': 0, 'queries': 0, 'query_compile_errors': 0,
             'sql_units': 0, 'sql_rewrite_ctes': 0, 'sql_raw_reads': 0, 'filters_evaluated': 0,
             'plan_evals': 0, 'wf_checked': 0, 'known_class_hits': {}}
    distinct = set()
    samples = []
    pending = []       # per hierarchy: data needed once the model has answered
    class_reported = {}

    def report_plan(kind, cause, key_tail, what, detail):
        k = f'plan:{kind}:{cause}'
        stats['known_class_hits'][k] = stats['known_class_hits'].get(k, 0) + 1
        ks = class_reported.setdefault(k, set())
        if len(ks) < 2 or key_tail in ks or cause == 'other':
            ks.add(key_tail)
            ctx.fail(f'{k}:{key_tail}', what, detail)

    for ci, (c, fixed_queries) in enumerate(cases):
        sdl = case_sdl(c)
        tag = hashlib.sha1(sdl.encode()).hexdigest()[:10]
        try:
            sch = env.load_schema(sdl, modname='default')
            if case_ddl(c):
                sch = env.run_ddl(sch, case_ddl(c), 'default')
                sdl += '\n# then: ' + case_ddl(c)
        except edb_errors.EdgeDBError as e:
            stats['schema_errors'] += 1
            if len(ctx.notes) < 8:
                ctx.notes.append(f'schema rejected [{c["shape"]}]: {type(e).__name__}: {str(e)[:160]}')
            continue
        except (RecursionError, AssertionError, KeyError, AttributeError) as e:
            # the schema layer crashed on a generated schema: not this property, but worth a note
            stats['schema_crashes'] = stats.get('schema_crashes', 0) + 1
            ctx.notes.append(f'schema layer crashed [{c["shape"]}] {type(e).__name__}: {str(e)[:120]} on: '
                             + sdl.replace('\n', ' ') + ' ## ' + (case_ddl(c) or '').replace('\n', ' '))
            continue
        rs = RealSchema(sch, c)
        stats['hierarchies'] += 1
        hist['shape'][c['shape']] = hist['shape'].get(c['shape'], 0) + 1
        for p in all_pols(c):
            kk = 'all' if p['kinds'] == 'all' else '+'.join(p['kinds'])
            kk = ('allow ' if p['allow'] else 'deny ') + kk
            hist['kinds'][kk] = hist['kinds'].get(kk, 0) + 1
        for p in c['pols']:
            for lname in ('one', 'many', 'req'):
                tgt = c['links'][lname]
                rel = ('link-target' if p['on'] == tgt else
                       'ancestor-of-link-target' if rs.is_sub(tgt, p['on']) else
                       'descendant-of-link-target' if rs.is_sub(p['on'], tgt) else 'unrelated-to-link-target')
                hist['placement'][rel] = hist['placement'].get(rel, 0) + 1
            pos = ('root' if not rs.types[p['on']]['bases'] else '') + \
                  ('leaf' if not [x for x in rs.children[p['on']] if x < rs.n_mat] else '')
            hist['placement']['on-' + (pos or 'inner')] = hist['placement'].get('on-' + (pos or 'inner'), 0) + 1
        if c['lpol']:
            hist['placement']['on-link-holder'] = hist['placement'].get('on-link-holder', 0) + 1
        for w in rs.wf_violations():
            ctx.fail(f'wf:{tag}', 'real schema data violates a well-formedness condition the model assumes: ' + w,
                     {'case': c, 'sdl': sdl}, no_input=True)
        for v in policy_inheritance_violations(sch, rs.names[:rs.n_mat]):
            ctx.fail(f'schema:policy-not-inherited:{tag}', v, {'case': c, 'sdl': sdl})
        stats['wf_checked'] += 1
        sline = rs.line()
        N = rs.n_mat

        # -- 2a: the rewrite map for all types at once
        allq = 'select (' + ', '.join(f'count({nm})' for nm in rs.names[:N]) + ')'
        queries = [(allq, [[i] for i in range(N)], 'all-types')]
        if fixed_queries is not None:
            queries += [tuple(q) for q in fixed_queries if q[0] != allq]
        else:
            qs, npool = gen_queries(rng, c, rs, nq)
            queries += qs
        entries_all = None
        evaluator = None
        for (qtext, expect, path) in queries:
            stats['queries'] += 1
            hist['paths'][path] = hist['paths'].get(path, 0) + 1
            try:
                ir = env.compile_to_ir(sch, qtext)
                res = pgc.compile_ir_to_sql_tree(ir, output_format=pgc.OutputFormat.NATIVE)
            except Exception as e:
                stats['query_compile_errors'] += 1
                ctx.notes.append(f'compile error [{path}] {qtext!r}: {type(e).__name__}: {str(e)[:120]}')
                continue
            try:
                entries = abstract_rewrites(ir, rs, irast)
            except Unabs as e:
                ctx.fail(f'abs:{tag}:{path}', f'cannot abstract type_rewrites: {e}',
                         {'case': c, 'queries': [[qtext, expect, path]], 'sdl': sdl}, no_input=True)
                continue
            if path == 'all-types':
                entries_all = entries
                evaluator = IREval(ir.globals, irast)
                # independent of the model: a type with policies that the query selects must have a
                # type_rewrites entry (filter or union).  (This is how the two `typeof` defects fixed by
                # 6c16588 showed: the rewrite of the type was silently lost.)
                lost_types = [t for t in range(N) if rs.protected(t) and (t, False) not in entries]
                if lost_types:
                    ctx.fail(f'plan:rewrite-lost:{tag}',
                             f'no type_rewrites entry for {[rs.names[t] for t in lost_types]} although they have '
                             f'access policies (`select {rs.names[lost_types[0]]}` reads the table without any '
                             f'policy)', {'case': c, 'queries': [[qtext, expect, path]], 'sdl': sdl,
                                          'lost': [rs.names[t] for t in lost_types]})
            probs, st = audit_sql(res.ast, ir, rs, entries, expect, pgast, cast, irast)
            stats['sql_units'] += st['units']
            stats['sql_rewrite_ctes'] += st['rewrite_ctes']
            stats['sql_raw_reads'] += st['raw_reads']
            for (cls, pb) in probs:
                k = f'sql:{cls}'
                stats['known_class_hits'][k] = stats['known_class_hits'].get(k, 0) + 1
                ks = class_reported.setdefault(k, set())
                if len(ks) < 2 or cls != 'raw-read-compound-type':
                    ks.add(f'{path}:{tag}')
                    ctx.fail(f'{k}:{path}:{tag}', f'SQL audit [{path}] {qtext!r}: {pb}',
                             {'case': c, 'queries': [[qtext, expect, path]], 'sdl': sdl})
            pending.append(('entries', ci, tag, c, sdl, qtext, path, entries, ir.schema))
            distinct.add((sline, qtext))
            if len(samples) < 4 and path != 'all-types' and rng.random() < 0.05:
                samples.append({'sdl': sdl, 'query': qtext, 'rewrites': {f'{k}': (v[0] if v[0] != 'union' else v)
                                                                        for k, v in entries.items()}})
        if entries_all is None:
            continue
        lines.append(f'S|{sline}|E')
        expect_real.append(('E', ci, tag, c, sdl, rs, entries_all, evaluator))
        if any(p.get('opaque') for p in all_pols(c)):
            # conditions that read the database (policy-in-policy): shape of the map and the audits only
            stats['opaque_hierarchies'] = stats.get('opaque_hierarchies', 0) + 1
            continue

        # -- evaluate the REAL plan on a database; compare with the statement itself
        objs = []          # (id, type idx, prop valuation)
        for t in range(N):
            if rs.types[t]['abstract']:
                continue
            for pv in (pvals if t < c['n'] else pvals[:1]):
                objs.append((len(objs), t, pv))
        pick = gvals if (not ctx.quick() or ctx.replay or c['shape'].startswith('w-')) else rng.sample(gvals, 3)
        for gv in pick:
            def val_of(o):
                return {**gv, **o[2]}

            memo = {}

            def eval_key(k):
                if k in memo:
                    return memo[k]
                t, skip = k
                scope = [o for o in objs if (o[1] == t or (not skip and rs.is_sub(o[1], t)))]
                e = entries_all.get(k)
                if e is None:
                    r = [o[0] for o in scope]
                elif e[0] == 'filter':
                    r = [o[0] for o in scope if evaluator.ev(e[1], val_of(o)) is True]
                else:
                    r = [x for k2 in e[1] for x in eval_key(k2)]
                memo[k] = r
                return r
            byid = {p['id']: p for p in all_pols(c)}
            conds = sorted(byid)
            dbline = ';'.join(
                f"{o[0]}:{o[1]}:{','.join(str(i) for i in conds if pol_truth(byid[i], val_of(o))) or '-'}"
                for o in objs) or '-'
            real_sel = {}
            for t in range(N):
                try:
                    got = sorted(eval_key((t, False)))
                except Unabs as e:
                    ctx.fail(f'abs-filter:{tag}', f'cannot evaluate a compiled filter: {e}',
                             {'case': c, 'sdl': sdl}, no_input=True)
                    got = None
                    break
                stats['plan_evals'] += 1
                want = sorted(o[0] for o in objs if rs.is_sub(o[1], t) and visible_spec(rs, c, o[1], val_of(o)))
                real_sel[t] = got
                if got != want:
                    tyof = {o[0]: o[1] for o in objs}
                    bypass = sorted(set(got) - set(want))
                    missing = sorted(set(want) - set(got))
                    dups = sorted({x for x in got if got.count(x) > 1})
                    detail = {'case': c, 'sdl': sdl, 'query': f'select T{t}' if t < c['n'] else 'select L',
                              'globals': gv, 'objects': [[o[0], rs.names[o[1]], o[2]] for o in objs],
                              'returned': got, 'expected': want}
                    if bypass:
                        ctx.fail(f'plan:bypass:{tag}:{t}',
                                 f'real rewrite plan for select {rs.names[t]} returns objects the policies hide '
                                 f'(types {sorted({rs.names[tyof[x]] for x in bypass})})', detail)
                    causes = classify_plan_failure(rs, entries_all, t, {tyof[x] for x in missing},
                                                   {tyof[x] for x in dups})
                    if dups:
                        cause = 'redundant-base-duplicates' if 'redundant-base-duplicates' in causes else 'other'
                        report_plan('dup', cause, f'{tag}:{t}',
                                    f'real rewrite plan for select {rs.names[t]} returns objects more than once '
                                    f'(types {sorted({rs.names[tyof[x]] for x in dups})})', detail)
                    if missing:
                        cause = 'overlap-drops-children' if 'overlap-drops-children' in causes else 'other'
                        report_plan('missing', cause, f'{tag}:{t}',
                                    f'real rewrite plan for select {rs.names[t]} drops visible objects '
                                    f'(types {sorted({rs.names[tyof[x]] for x in missing})})', detail)
            if got is None:
                break
            lines.append(f'S|{sline}|V|{dbline}')
            expect_real.append(('V', ci, tag, c, sdl, rs, real_sel, gv))
        if ci % 10 == 9:
            ctx.log(f'{ci + 1}/{len(cases)} hierarchies, {stats["queries"]} queries compiled')

    ctx.log(f'level 2: {stats["hierarchies"]} hierarchies, {stats["queries"]} queries; '
            f'{len(lines)} lines for the model')

    # --------------------------------------------------------- model answers
    model = ctx.driver('C07', lines) if lines else []
    if len(model) != len(lines):
        raise core.Infra(f'driver returned {len(model)} lines for {len(lines)}')
    n_dis = 0
    model_entries = {}     # ci -> {(t,skip): entry string}
    for line, exp, mout in zip(lines, expect_real, model):
        if mout == 'bad-op':
            raise core.Infra(f'driver rejected {line!r}')
        if exp[0] == 'L1':
            _, label, sx, table = exp
            mf, mt = mout.split(' # ')
            if sx.startswith(('error', 'unabstractable')):
                n_dis += 1
                ctx.fail(f'l1:{label}', f'real get_rewrite_filter: {sx}', {'line': line}, no_input=True)
                continue
            if sx == 'none':
                if mf != 'none':
                    n_dis += 1
                    ctx.fail(f'l1:{label}', 'real get_rewrite_filter returned None, model a formula',
                             {'line': line, 'model': mf}, no_input=True)
                continue
            # oracle: the real formula decides exactly like the decision (model table = proved spec)
            if table != mt:
                ctx.fail(f'l1-decision:{label}',
                         'the formula built by the real get_rewrite_filter does not implement the allow/deny '
                         'decision', {'line': line, 'real_formula': sx, 'real_table': table, 'decision_table': mt})
            if sx != mf:
                n_dis += 1
                if table == mt:
                    ctx.fail(f'l1-shape:{label}', 'formula shape differs between model and implementation '
                             '(same truth table)', {'line': line, 'real': sx, 'model': mf}, no_input=True)
        elif exp[0] == 'E':
            _, ci, tag, c, sdl, rs, entries_all, evaluator = exp
            me = dict(kv.split('=', 1) for kv in mout.split(';'))
            model_entries[ci] = me
            # keys the model says are read when every type is selected (closure over union parts)
            reach, todo = set(), [f'{t}.0' for t in range(rs.n_mat)]
            while todo:
                ks = todo.pop()
                if ks in reach:
                    continue
                reach.add(ks)
                if me[ks].startswith('union:'):
                    todo += me[ks][6:].split(',')
            for ks, ent in me.items():
                t, sk = ks.split('.')
                key = (int(t), sk == '1')
                real = entries_all.get(key)
                if ks not in reach and real is None:
                    continue       # never requested: the real compile has no entry to compare
                kind = ent.split(':')[0]
                hist['entry'][kind] += 1
                ok = True
                if kind == 'none':
                    ok = real is None
                elif kind == 'union':
                    mk = sorted((int(a), b == '1') for a, b in (x.split('.') for x in ent[6:].split(',')))
                    ok = real is not None and real[0] == 'union' and real[1] == mk
                else:
                    ok = real is not None and real[0] == 'filter'
                    if ok and not any(p.get('opaque') for p in all_pols(c)):
                        byid = {p['id']: p for p in all_pols(c)}
                        for val in vals_all:
                            rho = {i: pol_truth(p, val) for i, p in byid.items()}
                            try:
                                rv = evaluator.ev(real[1], val) is True
                            except Unabs as e:
                                ctx.fail(f'abs-filter:{tag}', f'cannot evaluate a compiled filter: {e}',
                                         {'case': c, 'sdl': sdl}, no_input=True)
                                break
                            stats['filters_evaluated'] += 1
                            if rv != sexpr_eval(ent[7:], rho):
                                ok = False
                                break
                if not ok:
                    n_dis += 1
                    ctx.fail(f'corr-entry:{tag}:{ks}',
                             'type_rewrites entry differs between try_type_rewrite and the model',
                             {'case': c, 'sdl': sdl, 'key': key, 'model': ent,
                              'real': None if real is None else (real[0] if real[0] == 'filter' else real)},
                             no_input=True)
        else:
            _, ci, tag, c, sdl, rs, real_sel, gv = exp
            for part in mout.split(' '):
                t, got, want = part.split(':')
                if int(t) >= rs.n_mat:
                    continue          # view types hold no objects of their own
                mg = sorted(int(x) for x in got.split(',')) if got != '-' else []
                if mg != real_sel.get(int(t)):
                    n_dis += 1
                    ctx.fail(f'corr-eval:{tag}:{t}',
                             'evaluating the real plan and the model plan on the same database differ',
                             {'case': c, 'sdl': sdl, 'globals': gv, 'type': int(t), 'model': mg,
                              'real': real_sel.get(int(t))}, no_input=True)
    # every other query's rewrite map must agree with the model's entries too
    def same_entry(ent, real):
        kind = ent.split(':')[0] if ent else None
        return (kind == real[0]) and (kind != 'union' or
                                      sorted((int(a), b == '1') for a, b in
                                             (x.split('.') for x in ent[6:].split(','))) == real[1])

    recheck = {}
    for item in pending:
        _, ci, tag, c, sdl, qtext, path, entries, fsch = item
        me = model_entries.get(ci)
        if me is None or path == 'all-types':
            continue
        for key, real in entries.items():
            ent = me.get(f'{key[0]}.{1 if key[1] else 0}')
            if not same_entry(ent, real):
                recheck.setdefault((ci, qtext), (item, []))[1].append((key, real, ent))
    # try_type_rewrite looks at the schema *as it is during compilation*: view types derived for the
    # shapes of the query are children/descendants too and can flip its overlap test.  An entry that
    # differs from the model on the stored schema must agree with the model on the compile-time schema.
    if recheck:
        rlines, ritems = [], []
        for (ci, qtext), (item, diffs) in recheck.items():
            _, ci, tag, c, sdl, qtext, path, entries, fsch = item
            try:
                rs2 = RealSchema(fsch, c, deep=True)
                rlines.append(f'S|{rs2.line()}|E')
                ritems.append((item, diffs))
            except Exception as e:
                ctx.fail(f'corr-entry-q:{tag}:{path}', f'cannot read the compile-time schema: {e}',
                         {'case': c, 'queries': [[qtext, [], path]], 'sdl': sdl}, no_input=True)
        rmodel = ctx.driver('C07', rlines) if rlines else []
        for (item, diffs), mout in zip(ritems, rmodel):
            _, ci, tag, c, sdl, qtext, path, entries, fsch = item
            me2 = dict(kv.split('=', 1) for kv in mout.split(';')) if mout != 'bad-op' else {}
            for (key, real, ent) in diffs:
                ent2 = me2.get(f'{key[0]}.{1 if key[1] else 0}')
                if ent2 is not None and same_entry(ent2, real):
                    stats['entries_explained_by_compile_time_views'] = \
                        stats.get('entries_explained_by_compile_time_views', 0) + 1
                    continue
                n_dis += 1
                ctx.fail(f'corr-entry-q:{tag}:{path}:{key}',
                         f'type_rewrites entry of query {qtext!r} differs from the model',
                         {'case': c, 'queries': [[qtext, [], path]], 'sdl': sdl, 'key': key, 'model': ent,
                          'model_on_compile_time_schema': ent2,
                          'real': real[0] if real[0] == 'filter' else real}, no_input=True)

    if not proved:
        ctx.proof_broken_verdict()

    n_l1 = len(l1)
    ctx.cov.update({
        'evaluations': n_l1 + stats['queries'] + stats['plan_evals'],
        'distinct_nontrivial': len({l for l in lines if l.startswith('F|') and not l.endswith('|-')})
                               + len(distinct),
        'rule': 'level 1: policy sets of one type (all sets of <=2 policies over allow/deny x select/all/insert, '
                'random 3-4 policy sets) x the 5 access kinds, distinct = distinct (mode, policy list), '
                'non-trivial = at least one policy; level 2: fixed witness hierarchies + random hierarchies '
                '(2-7 types: trees, DAGs, planted diamonds, redundant bases; abstract nodes; 1-4 policies placed '
                'on random types, allow/deny x select/all/insert-only/update kinds, conditions over 3 globals and '
                '2 properties, optional WHEN; a link holder L with single/multi/required links, computed '
                'pointers, an alias and a computed global) x the all-types query + sampled access-path queries; '
                'distinct = distinct (schema data line, query text)',
        'samples': samples[:3] + [lines[0] if lines else ''],
        'level1_calls': n_l1, 'corpus_queries': n_corpus,
        'hierarchies': stats['hierarchies'], 'queries_compiled': stats['queries'],
        'histograms': hist, 'stats': stats,
        'disagreements_model_vs_impl': n_dis,
        'exhaustive': False,
        'correspondence': 'real get_rewrite_filter qlast vs Policy.rewriteFilter (shape + truth table); real '
                          'IR type_rewrites vs Policy.entry (none/filter/union keys; compiled filter IR '
                          'evaluated on all valuations vs the model formula); evaluation of the real plan vs '
                          'Policy.selectType on generated databases',
        'oracle': 'decision table of the real formula; real plan on a database = {o | type<=T, visible o} as a '
                  'bag (bypass/duplicate/missing); SQL-tree audit of every compiled query',
    })
    ctx.assumptions += [
        'policy conditions are opaque predicates: a policy means the same on the declaring type and on every '
        'inheriting type (no overloaded computeds inside conditions); conditions do not read other object types '
        '(reads inside policy bodies run with rewrites suppressed by design and are outside this property)',
        'policy names are unique across unrelated types in generated schemas (same-named policies of two bases '
        'are merged by the schema layer; see notes/C07.md)',
        'abstract types hold no objects',
        'no SQL execution in the sandbox: the "result" of a plan is computed by evaluating the compiled IR '
        'filters and unions, and the SQL tree is audited structurally',
        'function bodies (func_params extra filter), DML read-backs and triggers are outside the model',
    ]
    ctx.trusted_base += [
        'hand-written model EdbVerif/Model/Policy.lean of get_rewrite_filter / has_own_policies / '
        'try_type_rewrite and of how range_for_material_objtype reads a key; tied by the differential runs above',
        'harness/props/c07.py: generators, IR abstraction/evaluator, SQL audit rules, oracle',
        'harness/bridge (LALR front-end around the real tokenizer/grammar) for parsing SDL and queries',
    ]
