"""C15 — the connection pool never oversubscribes or double-lends the backend.

Proof: lean/EdbVerif/Props/C15.lean over Model/Pool.lean.
Tie + oracle: see props/pool_common.py (shared with C16).
"""
from props import pool_common


def run(ctx):
    pool_common.run_check(ctx, 'C15')
