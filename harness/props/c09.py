"""C09 — compiler session state follows transaction and savepoint semantics.

Proof: lean/EdbVerif/Props/C09.lean over Model/Tx.lean + Model/TxSpec.lean.

Tie (what is REAL here):
* level 1: the real ``dbstate.CompilerConnectionState`` / ``Transaction`` objects are driven
  with event lists (start/commit/rollback/savepoint ops/payload updates/``sync_tx``), with
  ``pickle`` round trips in between; after every call the whole visible object state is
  compared with the Lean model (`Driver/C09.lean`, level 1).
* level 2: the real ``Compiler.compile`` / ``Compiler.compile_in_tx`` /
  ``_try_compile_ast`` / ``_compile_dispatch_ql`` / ``_compile_ql_transaction`` /
  ``_compile_ql_sess_state`` / ``_make_query_unit`` are run on hand-built ASTs, reached through
  the REAL compiler pool (a ``pool.FixedPool`` object: ``compile`` / ``compile_in_tx`` with the
  REUSE_LAST_STATE_MARKER decision and the failed-call handling) and REAL ``compiler_pool/worker.py``
  instances (``lib/c17rig.py``: only the socket is replaced).  What is replaced because the native parts are not built in this
  sandbox: the parser (``edgeql.parse_block`` returns the prepared ASTs), the DDL / CONFIGURE /
  query compilers (stubs that perform the real ``update_schema`` / ``update_session_config``
  calls and return real ``DDLQuery`` / ``SessionStateQuery`` / ``NullQuery`` objects),
  ``rpc.CompilationRequest`` (Cython).  The server half (``dbview.pyx``, ``execute.pyx``,
  ``binary.pyx`` — Cython, cannot run) is a Python transcription (`Sim`) that uses the real
  unit objects exactly as those files do; it is compared with the Lean `Server` model.
* level 2, bridge stream: the same, with NOTHING replaced but ``rpc.CompilationRequest``:
  statements are EdgeQL text parsed by the front-end bridge (real tokenizer + grammar) and compiled
  by the real transaction / session / config / query / DDL compilers over the real std library.
* oracle: an independent PostgreSQL-style savepoint-stack machine (`PG1`, `PG2`) evaluated on
  the real outputs.
"""
from __future__ import annotations

import shim  # noqa: F401  (must come first: stubs for the native modules)

import asyncio
import itertools
import json
import pickle
import sys
import time
import types

import immutables

import edb

# `compiler_pool.worker` imports `edb.graphql` (needs the `graphql` PyPI package): an empty
# package-shaped stub is enough, nothing of it is used here.
if 'edb.graphql' not in sys.modules:
    _g = types.ModuleType('edb.graphql')
    _g.__path__ = []
    sys.modules['edb.graphql'] = _g
    edb.graphql = _g

from edb import errors  # noqa: E402
from edb.edgeql import ast as qlast, qltypes  # noqa: E402
from edb.ir import statypes  # noqa: E402
from edb.schema import schema as s_schema  # noqa: E402
from edb.schema import modules as s_mod  # noqa: E402
from edb.schema import version as s_ver  # noqa: E402
from edb.server import config, defines  # noqa: E402
from edb.server.config import spec as cspec  # noqa: E402
from edb.server.config import ops as cops  # noqa: E402
from edb.server.compiler import compiler as C  # noqa: E402
from edb.server.compiler import dbstate, enums  # noqa: E402

from lib import core  # noqa: E402

PROPS = 'EdbVerif/Props/C09.lean'
REQUIRED = [
    'EdbVerif.C09.refines', 'EdbVerif.C09.refines_step', 'EdbVerif.C09.rejected_unchanged',
    'EdbVerif.C09.rollback_restores', 'EdbVerif.C09.rollback_restores_tx_start',
    'EdbVerif.C09.rollback_to_restores', 'EdbVerif.C09.release_keeps', 'EdbVerif.C09.commit_baseline',
    'EdbVerif.C09.outside_block_rejected',
    'EdbVerif.C09.protocol_refines', 'EdbVerif.C09.protocol_step', 'EdbVerif.C09.pickle_rejected_keeps_state',
    'EdbVerif.C09.protocol_release_shadowed_counterexample', 'EdbVerif.C09.protocol_release_fault_counterexample',
    'EdbVerif.C09.protocol_declare_fault_counterexample', 'EdbVerif.C09.protocol_start_fault_counterexample',
    'EdbVerif.C09.reuse_fixed_compiles_on_callers_state', 'EdbVerif.C09.reuse_fixed_rejected_script',
    'EdbVerif.C09.reuse_fixed_is_pickle', 'EdbVerif.C09.protocol_refines_reuse',
    'EdbVerif.C09.reuse_script_counterexample_poolBuggy',
    'EdbVerif.C09.detached_rescue', 'EdbVerif.C09.detached_later_savepoint_counterexample',
    'EdbVerif.C09.client_state_settled', 'EdbVerif.C09.client_state_after_rollback_to_counterexample',
]

E = immutables.Map()
STD = s_schema.FlatSchema()
CFG = 'c09tag'


# ------------------------------------------------------------------ payloads
class _Ver:
    def __init__(self, t):
        self.t = t

    def get_version(self, schema):
        import uuid
        return uuid.UUID(int=self.t)


class _Mod:
    pass


class TF(s_schema.FlatSchema):
    """An empty FlatSchema carrying a tag.  It answers the two lookups the transaction code
    makes on the way (`__schema_version__`, module existence for SET ALIAS)."""
    tag = 0

    def _get_global(self, objtype, name, default):
        if objtype is s_ver.SchemaVersion:
            return _Ver(self.tag)
        if objtype is s_mod.Module and str(name).startswith('m'):
            return _Mod()
        return super()._get_global(objtype, name, default)


def mk_schema(tag: int) -> TF:
    f = TF()
    f.tag = tag
    return f


class StandinCodec:
    """payload tokens <-> real objects, for tagged empty schemas and one-key maps"""

    def mk_schema(self, tag):
        return mk_schema(tag)

    def mk_aliases(self, a):
        return immutables.Map({None: 'default', 't': f'm{a}'})

    def mk_config(self, v):
        return immutables.Map({CFG: config.SettingValue(
            name=CFG, value=v, source='session', scope=qltypes.ConfigScope.SESSION)})

    def schema(self, s):
        return s.tag

    gschema = schema

    def aliases(self, m):
        return int(m['t'][1:])

    def config(self, m):
        return m[CFG].value

    def op_value(self, op):
        return op.value


MODS = ['std', 'sys', 'cfg', 'schema', 'std::math', 'std::cal', 'std::enc', 'std::fts', 'std::net', 'std::pg']
BCFG = 'query_execution_timeout'


class BridgeCodec:
    """payload tokens for REAL schemas / alias maps / session configs (bridge stream): the user
    schema's token is the largest K with a module `m<K>` (1 if none), alias token = index of the
    module `t` stands for, config token = seconds of query_execution_timeout."""

    def __init__(self):
        self._cache = {}

    def mk_schema(self, tag):
        return s_schema.EMPTY_SCHEMA

    def mk_aliases(self, a):
        return immutables.Map({None: 'default', 't': MODS[a]})

    def mk_config(self, v):
        return immutables.Map({BCFG: config.SettingValue(
            name=BCFG, value=statypes.Duration.from_microseconds(v * 1000000), source='session',
            scope=qltypes.ConfigScope.SESSION)})

    def schema(self, s):
        k = id(s)
        hit = self._cache.get(k)
        if hit is not None and hit[0] is s:
            return hit[1]
        t = 1
        for m in s.get_objects(type=s_mod.Module):
            nm = str(m.get_name(s))
            if nm[0] == 'm' and nm[1:].isdigit():
                t = max(t, int(nm[1:]))
        self._cache[k] = (s, t)
        return t

    def gschema(self, s):
        return 2

    def aliases(self, m):
        return MODS.index(m['t'])

    def config(self, m):
        return m[BCFG].value.to_microseconds() // 1000000

    def op_value(self, op):
        return op.value.to_microseconds() // 1000000


STANDIN = StandinCodec()
CODEC = STANDIN


def mk_aliases(a: int):
    return CODEC.mk_aliases(a)


def mk_config(v: int):
    return CODEC.mk_config(v)


def tok_aliases(m) -> int:
    return CODEC.aliases(m)


def tok_config(m) -> int:
    return CODEC.config(m)


def st_payload(s) -> tuple:
    return (CODEC.schema(s.user_schema), CODEC.gschema(s.global_schema), tok_aliases(s.modaliases),
            tok_config(s.session_config))


def spname(n) -> str:
    return f'sp{n}'


def unname(s) -> str:
    return '-' if s is None else s[2:]


SPEC = cspec.FlatSpec(
    cspec.Setting('default_transaction_isolation', type=statypes.TransactionIsolation,
                  default=statypes.TransactionIsolation(statypes.TransactionIsolationEnum.Serializable)),
    cspec.Setting('default_transaction_access_mode', type=statypes.TransactionAccessMode,
                  default=statypes.TransactionAccessMode(statypes.TransactionAccessModeEnum.ReadWrite)),
    cspec.Setting(CFG, type=int, default=0),
)


def err_kind(e: BaseException) -> str:
    m = str(e)
    if isinstance(e, errors.TransactionError):
        if 'already in transaction' in m:
            return 'alreadyInTx'
        if 'cannot commit' in m:
            return 'notInTx'
        if 'savepoints can only be used' in m:
            return 'spOutsideBlock'
        if 'there is no' in m:
            return 'noSavepoint'
        if 'expected a ROLLBACK' in m:
            return 'expectedRollback'
        if 'only supported in read-only' in m:
            return 'compileError'
        if 'current transaction is aborted' in m:
            return 'inTxError'
    if isinstance(e, errors.InternalServerError):
        if 'failed to lookup transaction or savepoint' in m:
            return 'syncFail'
    if isinstance(e, errors.QueryError) and 'Explicit transaction control' in m:
        return 'txInScript'
    if isinstance(e, errors.QueryError) and 'in a migration block' in m:
        return 'inMigrationBlock'
    if isinstance(e, errors.QueryError) and 'outside of a migration block' in m:
        return 'notInMigrationBlock'
    if isinstance(e, (errors.UnknownModuleError, errors.InvalidReferenceError, errors.ConfigurationError)):
        return 'compileError'
    if isinstance(e, RuntimeError) and 'failed to lookup savepoint' in m:
        return 'noSpId'
    return f'unexpected:{type(e).__name__}:{m[:80]}'


# ---------------------------------------------------------- observing a state
def show_st(s, T0) -> str:
    u, g, a, c = st_payload(s)
    return f'{unname(s.name)}:{s.id - T0}:{u},{g},{a},{c}:{s.tx._state0.id - T0}'


def obs(st, T0) -> str:
    t = st.current_tx()
    sps = ' '.join(show_st(s, T0) for s in t._savepoints.values())
    log = ' '.join(show_st(s, T0) for s in st._savepoints_log.values())
    return (f'i{1 if t.is_implicit() else 0} id{t.id - T0} k{t._state0.id - T0} '
            f'c{show_st(t._current, T0)} z{show_st(t._state0, T0)} s[{sps}] l[{log}] n{st._tx_count - T0}')


def snapshot(st):
    """the whole reachable object graph, canonically (for "rejected ⇒ unchanged")"""
    seen, order = {}, []

    def tx_of(t):
        if id(t) not in seen:
            seen[id(t)] = None
            order.append(t)
        return t._state0.id

    def ts(s):
        return (s.id, s.name, st_payload(s), tx_of(s.tx))

    out = [('count', st._tx_count), ('cur', tx_of(st._current_tx)),
           ('log', tuple((k, ts(v)) for k, v in st._savepoints_log.items()))]
    i = 0
    while i < len(order):
        t = order[i]
        i += 1
        out.append(('tx', t._state0.id, t._id, t._implicit, ts(t._current), ts(t._state0),
                    tuple((k, ts(v)) for k, v in t._savepoints.items())))
    return tuple(out)


def repr_invariants(st) -> list[str]:
    """representation facts the model takes for granted (dict key = value id, back pointers)"""
    bad = []
    seen, todo = set(), [st._current_tx] + [s.tx for s in st._savepoints_log.values()]
    while todo:
        t = todo.pop()
        if id(t) in seen:
            continue
        seen.add(id(t))
        if t._constate is not st:
            bad.append('tx._constate is not the connection state')
        for k, s in t._savepoints.items():
            if k != s.id:
                bad.append('savepoint dict key differs from the state id')
            if s.tx is not t:
                bad.append('savepoint of a transaction points to another transaction')
        if t._state0.tx is not t:
            bad.append('state0.tx is not the transaction')
        todo.append(t._current.tx)
    for k, s in st._savepoints_log.items():
        if k != s.id:
            bad.append('log key differs from the state id')
    return bad


# ------------------------------------------------------------------- level 1
class L1Real:
    def __init__(self, pl):
        u, g, a, c = pl
        self.root = mk_schema(u)
        self.st = dbstate.CompilerConnectionState(
            user_schema=self.root, global_schema=mk_schema(g), modaliases=mk_aliases(a),
            session_config=mk_config(c), database_config=E, system_config=E, cached_reflection=E)
        self.T0 = self.st.current_tx().id - 1

    def repickle(self, fresh_root: bool):
        self.st = pickle.loads(pickle.dumps(self.st, -1))
        if fresh_root:
            self.root = pickle.loads(pickle.dumps(self.root, -1))
        self.st.set_root_user_schema(self.root)

    def apply(self, op: str) -> str:
        st, T0 = self.st, self.T0
        tx = st.current_tx()
        w = op.split(' ')
        try:
            k = w[0]
            if k == 'S':
                st.start_tx()
            elif k == 'C':
                st.commit_tx()
            elif k == 'R':
                st.rollback_tx()
            elif k == 'D':
                return f'ok {tx.declare_savepoint(spname(w[1])) - T0}'
            elif k == 'L':
                tx.release_savepoint(spname(w[1]))
            elif k == 'B':
                tx.rollback_to_savepoint(spname(w[1]))
            elif k == 'U':
                tx.update_schema(s_schema.ChainedSchema(STD, mk_schema(int(w[1])), mk_schema(int(w[2]))))
            elif k == 'A':
                tx.update_modaliases(mk_aliases(int(w[1])))
            elif k == 'F':
                tx.update_session_config(mk_config(int(w[1])))
            elif k == 'Y':
                st.sync_tx(T0 + int(w[1]))
            else:
                raise core.Infra(f'bad op {op}')
            return 'ok'
        except core.Infra:
            raise
        except Exception as e:  # noqa: BLE001 — the real code under test
            return 'err:' + err_kind(e)


class PG1:
    """Oracle, level 1: PostgreSQL-style block with a savepoint stack.  The compiler's implicit
    transaction is an open block whose baseline is `base`."""

    def __init__(self, pl):
        self.base = tuple(pl)
        self.cur = tuple(pl)
        self.explicit = False
        self.frames = []          # innermost last: (name, payload)

    def find(self, n):
        for i in range(len(self.frames) - 1, -1, -1):
            if self.frames[i][0] == n:
                return i
        return None

    def apply(self, op: str) -> str:
        w = op.split(' ')
        k = w[0]
        if k == 'S':
            if self.explicit:
                return 'err:alreadyInTx'
            self.explicit = True
        elif k == 'C':
            if not self.explicit:
                return 'err:notInTx'
            self.base, self.explicit, self.frames = self.cur, False, []
        elif k == 'R':
            self.cur, self.explicit, self.frames = self.base, False, []
        elif k in 'DLB':
            if not self.explicit:
                return 'err:spOutsideBlock'
            if k == 'D':
                self.frames.append((w[1], self.cur))
                return 'ok'
            i = self.find(w[1])
            if i is None:
                return 'err:noSavepoint'
            if k == 'L':
                del self.frames[i:]
            else:
                self.cur = self.frames[i][1]
                del self.frames[i + 1:]
        elif k == 'U':
            self.cur = (int(w[1]), int(w[2]), self.cur[2], self.cur[3])
        elif k == 'A':
            self.cur = (self.cur[0], self.cur[1], int(w[1]), self.cur[3])
        elif k == 'F':
            self.cur = (self.cur[0], self.cur[1], self.cur[2], int(w[1]))
        return 'ok'


def l1_abs(st):
    t = st.current_tx()
    return (st_payload(t._state0), not t.is_implicit(), st_payload(t._current),
            [(unname(s.name), st_payload(s)) for s in t._savepoints.values()])


def run_l1(case, rng_bits):
    """case = (pl, [ops]); rng_bits[i] in {0,1,2}: 0 no pickle, 1 pickle, 2 pickle + new root.
    Returns (real line, oracle complaints, repr complaints)."""
    pl, ops = case
    R = L1Real(pl)
    pg = PG1(pl)
    outs = [obs(R.st, R.T0)]
    bad, rep = [], []
    has_sync = any(o[0] == 'Y' for o in ops)
    for i, op in enumerate(ops):
        if rng_bits[i]:
            R.repickle(rng_bits[i] == 2)
        before = snapshot(R.st)
        r = R.apply(op)
        if r.startswith('err') and snapshot(R.st) != before:
            bad.append(f'step {i} {op!r}: rejected call changed the state')
        outs.append(f'{r} {obs(R.st, R.T0)}')
        rep += [f'step {i}: {x}' for x in repr_invariants(R.st)]
        if not has_sync:
            e = pg.apply(op)
            if (r.split(' ')[0] if r.startswith('ok') else r) != e:
                bad.append(f'step {i} {op!r}: real {r}, PostgreSQL-style spec {e}')
            a = l1_abs(R.st)
            if a != (pg.base, pg.explicit, pg.cur, pg.frames):
                bad.append(f'step {i} {op!r}: state {a} differs from spec '
                           f'{(pg.base, pg.explicit, pg.cur, pg.frames)}')
    return '|'.join(outs), bad, rep


def l1_line(case) -> str:
    pl, ops = case
    return '1|0 ' + ' '.join(map(str, pl)) + ''.join('|' + o for o in ops)


# ------------------------------------------------------------------- level 2
class FakeSource(C.edgeql.Source):
    """a `Source` that carries its already parsed statements"""
    BY_TEXT: dict = {}

    @classmethod
    def from_string(cls, text):
        # compile() re-tokenises `source.text()` inside a migration block
        return cls.BY_TEXT[text]

    def __init__(self, stmts, text):  # noqa: super().__init__ needs the native tokenizer
        self.stmts = stmts
        self._text = text
        FakeSource.BY_TEXT[text] = self

    def text(self):
        return self._text

    def first_extra(self):
        return None


class FakeRequest:
    input_language = enums.InputLanguage.EDGEQL
    output_format = enums.OutputFormat.BINARY
    input_format = enums.InputFormat.BINARY
    expect_one = False
    implicit_limit = 0
    inline_typeids = False
    inline_typenames = False
    inline_objectids = True
    protocol_version = defines.CURRENT_PROTOCOL
    role_name = None
    branch_name = None
    REG: dict = {}

    def __init__(self, source, modaliases, session_config):
        self.source = source
        self.modaliases = modaliases
        self.session_config = session_config

    def get_cache_key(self):
        return None

    def serialize(self) -> bytes:
        k = f'req{len(FakeRequest.REG)}'.encode()
        FakeRequest.REG[k] = self
        return k

    @staticmethod
    def deserialize(data, original_query, cfg_ser):
        return FakeRequest.REG.pop(data)


def ast_of(stmt: str, cf: bool):
    w = stmt.split(' ')
    k = w[0]
    if k == 'S':
        if cf:      # REPEATABLE READ + READ WRITE: rejected by the real code *after* start_tx()
            return qlast.StartTransaction(
                isolation=qltypes.TransactionIsolationLevel.REPEATABLE_READ,
                access=qltypes.TransactionAccessMode.READ_WRITE, deferrable=None)
        return qlast.StartTransaction(isolation=None, access=None, deferrable=None)
    if k == 'C':
        return qlast.CommitTransaction()
    if k == 'R':
        return qlast.RollbackTransaction()
    if k == 'D':
        return qlast.DeclareSavepoint(name=spname(w[1]))
    if k == 'L':
        return qlast.ReleaseSavepoint(name=spname(w[1]))
    if k == 'B':
        return qlast.RollbackToSavepoint(name=spname(w[1]))
    if k == 'U':
        return qlast.CreateObjectType(name=qlast.ObjectRef(name=f'T_{w[1]}_{w[2]}_{int(cf)}', module='default'))
    if k == 'A':
        # SET ALIAS t AS MODULE m<a>; an unknown module is the real compile error
        return qlast.SessionSetAliasDecl(decl=qlast.ModuleAliasDecl(
            module=('x' if cf else 'm') + w[1], alias='t'))
    if k == 'F':
        return qlast.ConfigSet(name=qlast.ObjectRef(name=f'{CFG}_{w[1]}_{int(cf)}'),
                               scope=qltypes.ConfigScope.SESSION,
                               expr=qlast.Constant(kind=qlast.ConstantKind.INTEGER, value=w[1]))
    if k == 'Q':
        return qlast.SelectQuery(result=qlast.Constant(kind=qlast.ConstantKind.INTEGER, value=str(int(cf))))
    if k == 'M':
        return qlast.StartMigration(target=qlast.Schema(declarations=[]))
    if k == 'N':
        return qlast.AbortMigration()
    raise core.Infra(f'bad stmt {stmt}')


def text_of(stmt: str, cf: bool) -> str:
    """EdgeQL text of a statement, for the bridge stream (real parser, real compilers)"""
    w = stmt.split(' ')
    k = w[0]
    if k == 'S':
        return 'start transaction isolation repeatable read, read write' if cf else 'start transaction'
    if k == 'C':
        return 'commit'
    if k == 'R':
        return 'rollback'
    if k == 'D':
        return f'declare savepoint {spname(w[1])}'
    if k == 'L':
        return f'release savepoint {spname(w[1])}'
    if k == 'B':
        return f'rollback to savepoint {spname(w[1])}'
    if k == 'U':
        if cf:
            raise core.Infra('bridge stream: no failing DDL')
        return f'create module m{w[1]}'
    if k == 'A':
        return 'set alias t as module nosuch' if cf else f'set alias t as module {MODS[int(w[1])]}'
    if k == 'F':
        return ('configure session set nosuch := 1' if cf else
                f"configure session set {BCFG} := <duration>'{w[1]} seconds'")
    if k == 'Q':
        return 'select NoSuch' if cf else 'select 1'
    if k == 'M':
        return 'start migration to { module default {} }'
    if k == 'N':
        return 'abort migration'
    raise core.Infra(f'bad stmt {stmt}')


class Env:
    """The compiler the level-2 streams run.  Installed into the *module namespaces* of the
    compiler and the worker; nothing in /repo is touched; `uninstall()` restores everything.

    mode 'standin': the parser returns prepared ASTs and the DDL / CONFIGURE / query compilers
      are stubs that perform the real `update_*` calls (see module docstring);
    mode 'bridge': nothing is replaced but the Cython `rpc.CompilationRequest`; statements are
      EdgeQL text parsed by the front-end bridge and compiled by the real compilers over the real
      standard library.
    In both modes `parse_block` is wrapped to record the payload of the state the statement is
    about to be compiled against (it runs right after compile_in_tx()'s session sync + sync_tx)."""

    def __init__(self, mode: str):
        self.mode = mode
        self.probe = []
        probe = self.probe
        self._saved = {k: getattr(C, k) for k in
                       ('edgeql', 'ddl', '_compile_ql_config_op', '_compile_ql_query', 'qlcompiler')}
        self._saved_req = C.rpc.__dict__.get('CompilationRequest')
        real_edgeql = C.edgeql
        real_parse = real_edgeql.parse_block
        standin = mode == 'standin'

        def parse_block(source):
            import inspect
            ctx = inspect.currentframe().f_back.f_locals.get('ctx')
            if ctx is not None and not probe:
                probe.append(st_payload(ctx.state.current_tx()._current))
            return list(source.stmts) if standin else real_parse(source)

        ns = types.SimpleNamespace(**{k: getattr(real_edgeql, k) for k in dir(real_edgeql)
                                      if not k.startswith('__')})
        ns.parse_block = parse_block
        if standin:
            ns.Source = FakeSource
        C.edgeql = ns
        C.rpc.CompilationRequest = FakeRequest
        if standin:
            self._install_standins()
            self.cstate = types.SimpleNamespace(
                config_spec=SPEC, std_schema=STD,
                state_serializer_factory=types.SimpleNamespace(make=lambda *a, **k: None),
                compilation_config_serializer=None,
                backend_runtime_params=None,
            )
            self.compiler = C.Compiler(self.cstate)
            self.codec = STANDIN
        else:
            from bridge import env as benv
            benv.setup()
            self.compiler = benv.new_compiler()
            self.codec = BridgeCodec()

    def _install_standins(self):
        def stub_ddl(ctx, ql, source=None):
            _, u, g, cf = ql.name.name.split('_')
            if cf == '1':
                raise errors.InvalidReferenceError("object type 'default::Nope' does not exist")
            tx = ctx.state.current_tx()
            nu, ng = mk_schema(int(u)), mk_schema(int(g))
            tx.update_schema(s_schema.ChainedSchema(ctx.compiler_state.std_schema, nu, ng))
            return dbstate.DDLQuery(sql=b'-- ddl', user_schema=nu, global_schema=ng,
                                    feature_used_metrics=None)

        def stub_config(ctx, ql):
            _, v, cf = ql.name.name.split('_')
            if cf == '1':
                raise errors.InvalidReferenceError('unrecognized configuration parameter')
            op = cops.Operation(cops.OpCode.CONFIG_SET, qltypes.ConfigScope.SESSION, CFG, int(v))
            tx = ctx.state.current_tx()
            tx.update_session_config(op.apply(ctx.compiler_state.config_spec, tx.get_session_config()))
            return dbstate.SessionStateQuery(sql=b'-- config', config_scope=qltypes.ConfigScope.SESSION,
                                             config_op=op)

        def stub_query(ctx, ql, *, source=None, script_info=None, **kw):
            if ql.result.value == '1':
                raise errors.InvalidReferenceError("object type or alias 'default::Nope' does not exist")
            return dbstate.NullQuery()

        def stub_preprocess_script(stmts, *, schema, options):
            return types.SimpleNamespace(params={}, schema=schema)

        def stub_start_migration(ctx, ql, in_script):
            # ddl._start_migration inside a transaction block, reduced to its effect on the state
            # (its else-branch: `current_tx.start_migration()` + `update_migration_state(...)`); the
            # SDL target cannot be applied to tagged empty schemas.  Everything around it
            # (compile_dispatch_ql_migration's expect_rollback guard, _abort_migration,
            # _make_query_unit's MigrationControlQuery branch) is the real code.
            from edb.schema import objects as s_obj
            ctx._assert_not_in_migration_block(ql)
            current_tx = ctx.state.current_tx()
            if current_tx.is_implicit() and not in_script:
                raise core.Infra('stand-in START MIGRATION outside a transaction block')
            schema = current_tx.get_schema(ctx.compiler_state.std_schema)
            savepoint_name = current_tx.start_migration()
            current_tx.update_migration_state(dbstate.MigrationState(
                parent_migration=None, initial_schema=schema, initial_savepoint=savepoint_name,
                guidance=s_obj.DeltaGuidance(), target_schema=schema, accepted_cmds=tuple(),
                last_proposed=None))
            return dbstate.MigrationControlQuery(
                sql=b'', action=dbstate.MigrationAction.START, tx_action=None, cacheable=False,
                modaliases=None)

        self._saved_start_migration = self._saved['ddl']._start_migration
        self._saved['ddl']._start_migration = stub_start_migration

        real_ddl = C.ddl
        nd = types.SimpleNamespace(**{k: getattr(real_ddl, k) for k in dir(real_ddl)
                                      if not k.startswith('__')})
        nd.compile_and_apply_ddl_stmt = stub_ddl
        C.ddl = nd
        C._compile_ql_config_op = stub_config
        C._compile_ql_query = stub_query
        real_qlc = C.qlcompiler
        nq = types.SimpleNamespace(**{k: getattr(real_qlc, k) for k in dir(real_qlc)
                                      if not k.startswith('__')})
        nq.preprocess_script = stub_preprocess_script
        C.qlcompiler = nq

    def config_spec(self):
        return SPEC if self.mode == 'standin' else self.compiler.state.config_spec

    def request(self, stmts, cf, modaliases, session_config):
        if self.mode == 'standin':
            asts = [ast_of(s, cf and i == 0) for i, s in enumerate(stmts)]
            src = FakeSource(asts, '; '.join(stmts))
        else:
            src = self._saved['edgeql'].Source.from_string(
                '; '.join(text_of(s, cf and i == 0) for i, s in enumerate(stmts)))
        return FakeRequest(src, modaliases, session_config)

    def uninstall(self):
        if getattr(self, '_saved_start_migration', None) is not None:
            self._saved['ddl']._start_migration = self._saved_start_migration
        for k, v in self._saved.items():
            setattr(C, k, v)
        if self._saved_req is not None:
            C.rpc.CompilationRequest = self._saved_req


class Pool:
    """The REAL compiler pool: a `pool.FixedPool` object (`compile`, `compile_in_tx` with its
    REUSE_LAST_STATE_MARKER decision and its handling of failed calls, `_compute_compile_preargs`,
    the worker queue, `BaseWorker.call`) talking to REAL instances of `compiler_pool/worker.py`
    (`compile`, `compile_in_tx`, `__sync__`, LAST_STATE) through the request loop of
    `worker_proc.py`, over the in-process transport of `lib/c17rig.py` (the socket is the only
    thing replaced).  The workers' COMPILER is this stream's real `Compiler`.

    transport 'r': one worker — the pool sends the marker whenever it decides to;
    transport 'p': two workers served alternately, so the serving worker never holds the
    caller's state and the pickled bytes always travel."""

    def __init__(self, env: Env, transport: str, user_pickle, global_pickle):
        from lib import c17rig as R
        self.env = env
        self.transport = transport
        self.nw = 2 if transport in ('p', 'c') else 1
        self.loop = asyncio.new_event_loop()
        self.rig = R.Rig(self.loop, 'fixed', self.nw, {'db': (user_pickle, E, E)}, global_pickle, E)
        self.loop.run_until_complete(self.rig.attach())
        for wm in self.rig.wmods:
            wm.COMPILER = env.compiler
        self.turn = 0

    def _call(self, mk):
        async def go():
            held = await self.rig.isolate(self.turn) if self.nw > 1 else []
            try:
                return await mk()
            finally:
                self.rig.give_back(held, [True] * len(held))
        try:
            return self.loop.run_until_complete(go())
        finally:
            self.turn = (self.turn + 1) % self.nw

    def compile(self, user_pickle, global_pickle, req):
        r = self._call(lambda: self.rig.pool.compile(
            'db', user_pickle, global_pickle, E, E, E, req.serialize(), req.source.text()))
        return r[0], r[1]

    def compile_in_tx(self, root_pickle, txid, pickled_state, req, expect_rollback):
        r = self._call(lambda: self.rig.pool.compile_in_tx(
            'db', root_pickle, txid, pickled_state, 0, req.serialize(), req.source.text(), expect_rollback))
        return r[0], r[1]

    def effective_state(self, pickled_state, root_pickle):
        """the state object the next compile_in_tx of the server would work on"""
        if self.nw == 1 and self.rig.workers[0]._last_pickled_state is pickled_state:
            return self.rig.wmods[0].LAST_STATE          # the marker would be sent
        st = pickle.loads(pickled_state)
        st.set_root_user_schema(pickle.loads(root_pickle))
        return st

    def close(self):
        self.rig.close()
        self.loop.close()


class Sim:
    """Transcription of the transaction-related parts of `DatabaseConnectionView`
    (dbview.pyx), `execute()` (execute.pyx) and the error handling of the binary protocol's
    message loop (binary.pyx) for one client statement at a time."""

    def __init__(self, env: Env, pl, transport: str):
        u, g, a, c = pl
        self.env = env
        self.db_user_schema_pickle = pickle.dumps(CODEC.mk_schema(u), -1)
        self.global_schema_pickle = pickle.dumps(CODEC.mk_schema(g), -1)
        self.pool = Pool(env, transport, self.db_user_schema_pickle, self.global_schema_pickle)
        self.query_cache = {} if transport == 'c' else None
        self._modaliases = mk_aliases(a)
        self._config = mk_config(c)
        self._last_comp_state = None
        self._reset_tx_state()

    # --- dbview.pyx
    def _reset_tx_state(self):
        self._txid = None
        self._in_tx = False
        self._in_tx_config = None
        self._in_tx_modaliases = None
        self._in_tx_savepoints = []
        self._in_tx_root_user_schema_pickle = None
        self._in_tx_with_ddl = False
        self._tx_error = False

    def get_modaliases(self):
        return self._in_tx_modaliases if self._in_tx else self._modaliases

    def set_modaliases(self, v):
        if self._in_tx:
            self._in_tx_modaliases = v
        else:
            self._modaliases = v

    def get_session_config(self):
        return self._in_tx_config if self._in_tx else self._config

    def set_session_config(self, v):
        if self._in_tx:
            self._in_tx_config = v
        else:
            self._config = v

    def rollback_tx_to_savepoint(self, name):
        self._tx_error = False
        while self._in_tx_savepoints:
            if self._in_tx_savepoints[-1][0] == name:
                break
            else:
                self._in_tx_savepoints.pop()
        else:
            raise RuntimeError(f'savepoint {name} not found')
        _, spid, (modaliases, cfg) = self._in_tx_savepoints[-1]
        self._txid = spid
        self.set_modaliases(modaliases)
        self.set_session_config(cfg)

    def declare_savepoint(self, name, spid):
        self._in_tx_savepoints.append((name, spid, (self.get_modaliases(), self.get_session_config())))

    def abort_tx(self):
        if not self._in_tx:
            raise errors.InternalServerError('abort_tx(): not in transaction')
        self._reset_tx_state()

    def tx_error(self):
        if self._in_tx:
            self._tx_error = True

    def start(self, unit):
        if self._tx_error:
            raise errors.TransactionError('current transaction is aborted, commands ignored')
        if unit.tx_id is not None:
            self._txid = unit.tx_id
            # start_tx()
            self._in_tx = True
            self._in_tx_config = self._config
            self._in_tx_modaliases = self._modaliases
            self._in_tx_root_user_schema_pickle = self.db_user_schema_pickle
        if self._in_tx and unit.has_ddl:          # _apply_in_tx
            self._in_tx_with_ddl = True

    def on_success(self, unit):
        if not self._in_tx:
            if unit.user_schema is not None:
                self.db_user_schema_pickle = unit.user_schema
            if unit.global_schema is not None:
                self.global_schema_pickle = unit.global_schema
        if unit.modaliases is not None:
            self.set_modaliases(unit.modaliases)
        if unit.tx_commit:
            if not self._in_tx:
                raise errors.InternalServerError('"commit" outside of a transaction')
            self._config = self._in_tx_config
            self._modaliases = self._in_tx_modaliases
            if unit.user_schema is not None:
                self.db_user_schema_pickle = unit.user_schema
            if unit.global_schema is not None:
                self.global_schema_pickle = unit.global_schema
            self._reset_tx_state()
        elif unit.tx_rollback:
            self._reset_tx_state()

    def _compile(self, req):
        if self._in_tx:
            result = self.pool.compile_in_tx(
                self._in_tx_root_user_schema_pickle, self._txid, self._last_comp_state, req,
                self._tx_error)
        else:
            result = self.pool.compile(self.db_user_schema_pickle, self.global_schema_pickle, req)
        unit_group, self._last_comp_state = result
        return unit_group

    def _check_in_tx_error(self, group):
        if self._tx_error:
            first = group[0]
            if not (first.tx_rollback or first.tx_savepoint_rollback or first.tx_abort_migration) \
                    or len(group) > 1:
                raise errors.TransactionError(
                    'current transaction is aborted, commands ignored until end of transaction block')

    # --- execute.pyx: execute()
    def execute(self, unit, bf: bool):
        try:
            self.start(unit)
            if bf:
                raise _BackendError()
            if unit.tx_savepoint_rollback:
                self.rollback_tx_to_savepoint(unit.sp_name)
            if unit.tx_savepoint_declare:
                self.declare_savepoint(unit.sp_name, unit.sp_id)
            for op in unit.config_ops:           # apply_config_ops
                if op.scope is qltypes.ConfigScope.SESSION:
                    self.set_session_config(op.apply(self.env.config_spec(), self.get_session_config()))
        except Exception:
            self.tx_error()           # dbv.on_error()
            # `if query_unit.tx_commit and not be_conn.in_tx() and dbv.in_tx(): dbv.abort_tx()`;
            # bf == 2: the backend failed but is still inside the block
            if unit.tx_commit and bf != 2 and self._in_tx:
                self.abort_tx()
            raise
        else:
            self.on_success(unit)

    # --- binary.pyx: _execute_rollback()
    def execute_rollback(self, unit):
        if not (unit.tx_savepoint_rollback or unit.tx_rollback or unit.tx_abort_migration):
            raise errors.TransactionError('current transaction is aborted, commands ignored')
        if unit.tx_abort_migration:
            self._tx_error = False           # clear_tx_error()
        elif unit.tx_savepoint_rollback:
            self.rollback_tx_to_savepoint(unit.sp_name)
        else:
            self.abort_tx()

    # --- one statement through parse() + execute, wrapped as the message loop does
    def statement(self, stmts: list[str], cf: bool, bf: bool):
        req = self.env.request(stmts, cf, self.get_modaliases(), self.get_session_config())
        # dbview.parse(): the compiled-query cache (transport 'c' = query cache enabled, as it is by
        # default).  The key is the hash of the request: source text, aliases, session config, schema …
        ckey = (req.source.text(), tok_aliases(self.get_modaliases()), tok_config(self.get_session_config()),
                self.db_user_schema_pickle)
        cache = self.query_cache
        if cache is not None and not self._tx_error and not self._in_tx_with_ddl and ckey in cache:
            group = cache[ckey]           # lookup_compiled_query(): a hit skips the compiler altogether
            return self._run_group(group, bf)
        try:
            try:                       # dbview.parse()
                group = self._compile(req)
            except (errors.EdgeQLSyntaxError, errors.InternalServerError):
                raise
            except errors.EdgeDBError:
                if self._tx_error:
                    raise errors.TransactionError(
                        'current transaction is aborted, '
                        'commands ignored until end of transaction block') from None
                else:
                    raise
        except Exception as e:  # noqa: BLE001 — the message loop's handler
            self.tx_error()
            return 'rej:' + err_kind(e), None
        if cache is not None and group.cacheable and not (self._tx_error or self._in_tx_with_ddl):
            try:
                self._check_in_tx_error(group)
                cache.setdefault(ckey, group)     # cache_compiled_query()
            except errors.TransactionError:
                pass
        return self._run_group(group, bf)

    def _run_group(self, group, bf):
        unit = group[0]
        try:
            self._check_in_tx_error(group)
            if self._tx_error or unit.tx_savepoint_rollback or unit.tx_abort_migration:
                assert len(group) == 1
                self.execute_rollback(unit)
            else:
                self.execute(unit, bf)
        except _BackendError:
            self.tx_error()
            return 'failed', unit
        except errors.TransactionError as e:
            self.tx_error()
            return 'rej:' + err_kind(e), unit
        except RuntimeError:
            self.tx_error()
            return 'rej:dangling', unit
        return 'ok', unit


class _BackendError(Exception):
    pass


def show_unit(u, T0) -> str:
    def o(x):
        return '-' if x is None else str(x)

    def b(x):
        return '1' if x else '0'
    cfg = None
    for op in u.config_ops:
        cfg = CODEC.op_value(op)
    return (f'tx{o(None if u.tx_id is None else u.tx_id - T0)} c{b(u.tx_commit)} r{b(u.tx_rollback)} '
            f'sr{b(u.tx_savepoint_rollback)} sd{b(u.tx_savepoint_declare)} '
            f'n{o(None if u.sp_name is None else unname(u.sp_name))} '
            f'i{o(None if u.sp_id is None else u.sp_id - T0)} '
            f'a{o(None if u.modaliases is None else tok_aliases(u.modaliases))} '
            f'u{o(None if u.user_schema is None else CODEC.schema(pickle.loads(u.user_schema)))} '
            f'g{o(None if u.global_schema is None else CODEC.gschema(pickle.loads(u.global_schema)))} f{o(cfg)}')


def show_sim(s: Sim, T0) -> str:
    base = (f'base{CODEC.schema(pickle.loads(s.db_user_schema_pickle))},{CODEC.gschema(pickle.loads(s.global_schema_pickle))},'
            f'{tok_aliases(s._modaliases)},{tok_config(s._config)}')
    if not s._in_tx:
        return base + ' N'
    sps = ' '.join(f'{unname(n)}:{i - T0}:{tok_aliases(a)}:{tok_config(c)}'
                   for (n, i, (a, c)) in s._in_tx_savepoints)
    return (f'{base} T id{s._txid - T0} e{1 if s._tx_error else 0} a{tok_aliases(s._in_tx_modaliases)} '
            f'f{tok_config(s._in_tx_config)} s[{sps}]')


class PG2:
    """Oracle, level 2: what a PostgreSQL-style session exposes.  `failed` = the block is
    aborted (every error inside a block aborts it; the server enforces that also for errors
    PostgreSQL never saw, i.e. compile-time rejections)."""

    def __init__(self, pl):
        self.base = tuple(pl)
        self.in_tx = False
        self.failed = False
        self.cur = None
        self.frames = []
        self.mig = None        # inside a migration block opened in this transaction block: number of
                               # savepoints that existed at START MIGRATION

    def exposed(self):
        return self.cur if self.in_tx else self.base

    @staticmethod
    def upd(p, w):
        if w[0] == 'U':
            return (int(w[1]), int(w[2]), p[2], p[3])
        if w[0] == 'A':
            return (p[0], p[1], int(w[1]), p[3])
        if w[0] == 'F':
            return (p[0], p[1], p[2], int(w[1]))
        return p

    def find(self, n):
        for i in range(len(self.frames) - 1, -1, -1):
            if self.frames[i][0] == n:
                return i
        return None

    def step(self, stmt: str, cf: bool, bf) -> str:
        """returns the outcome class: ok / rej / failed.  bf: 0 no backend failure, 1 the backend
        fails, 2 the backend fails and stays inside the block (matters for COMMIT)"""
        cs, stmt = split_cs(stmt)
        if cs is not None:      # the client's session state: what this statement must be compiled with
            if self.in_tx:
                self.cur = (self.cur[0], self.cur[1], cs[0], cs[1])
            else:
                self.base = (self.base[0], self.base[1], cs[0], cs[1])
        if '; ' in stmt:        # a script with transaction control in it: refused as a whole
            if self.in_tx:
                self.failed = True
            return 'rej'
        w = stmt.split(' ')
        k = w[0]
        if not self.in_tx:
            if k == 'S':
                if cf:
                    return 'rej'
                if bf:
                    return 'failed'
                self.in_tx, self.failed, self.cur, self.frames = True, False, self.base, []
                return 'ok'
            if k in 'CDLB':
                return 'rej'
            if k == 'R':
                return 'failed' if bf else 'ok'
            if cf:
                return 'rej'
            if bf:
                return 'failed'
            self.base = self.upd(self.base, w)
            return 'ok'
        if self.failed:
            if k == 'R':
                self.in_tx, self.mig = False, None
                return 'ok'
            if k == 'N' and self.mig is not None:
                # ABORT MIGRATION is accepted in an aborted block and clears the server's error flag
                # (dbview.clear_tx_error); START MIGRATION inside a block sent no SQL at all
                self.failed, self.mig = False, None
                return 'ok'
            if k == 'B':
                i = self.find(w[1])
                if i is None:
                    return 'rej'
                self.cur, self.failed = self.frames[i][1], False
                del self.frames[i + 1:]
                if self.mig is not None and i < self.mig:
                    self.mig = None      # back before START MIGRATION: the block is gone
                return 'ok'
            return 'rej'
        # in a healthy block
        def fail(cls):
            self.failed = True
            return cls
        if k == 'S':
            return fail('rej')
        if k == 'M':                    # START MIGRATION inside the block: compiler-side only
            if self.mig is not None:
                return fail('rej')
            self.mig = len(self.frames)
            return 'ok'
        if k == 'N':
            if self.mig is None:
                return fail('rej')
            self.mig = None
            return 'ok'
        if k == 'C' and self.mig is not None:
            return fail('rej')          # "cannot execute COMMIT in a migration block"
        if k == 'C':
            if bf == 2:                 # failed, and the backend is still in the (now aborted) block
                return fail('failed')
            if bf:
                self.in_tx = False
                return 'failed'
            self.base, self.in_tx = self.cur, False
            return 'ok'
        if k == 'R' and not bf:
            self.mig = None
        if k == 'R' and bf:             # a ROLLBACK that failed: the block is still there, aborted
            return fail('failed')
        if k == 'R':
            self.in_tx = False
            return 'ok'
        if k == 'D':
            if bf:
                return fail('failed')
            self.frames.append((w[1], self.cur))
            return 'ok'
        if k in 'LB':
            i = self.find(w[1])
            if i is None:
                return fail('rej')
            if k == 'L':
                if bf:
                    return fail('failed')
                del self.frames[i:]
            else:
                self.cur = self.frames[i][1]
                del self.frames[i + 1:]
                if self.mig is not None and i < self.mig:
                    self.mig = None
            return 'ok'
        if cf:
            return fail('rej')
        if bf:
            return fail('failed')
        self.cur = self.upd(self.cur, w)
        return 'ok'


def split_cs(stmt: str):
    """`@a,v <statement>`: the client sends the session state (aliases a, config v) along with the
    statement (binary protocol: every Execute carries the state; dbview.decode_state installs it)"""
    if stmt.startswith('@'):
        head, rest = stmt.split(' ', 1)
        a, v = head[1:].split(',')
        return (int(a), int(v)), rest
    return None, stmt


def classify_uncovered(evs, upto: int, transport: str = 'p') -> str | None:
    """Which feature for which the real code is KNOWN to diverge from the spec occurs in evs[:upto+1]
    (None = the real code is expected to agree: the proved envelope, plus COMMIT / ROLLBACK failing in
    place, which is tested but not proved)."""
    pg = PG2((0, 0, 0, 0))
    cls = None
    mark = None       # number of frames right after the last accepted ROLLBACK TO of this block
    pending = False   # an accepted ROLLBACK TO whose sync_to_savepoint has not happened yet
    for (stmt0, cf, bf) in evs[:upto + 1]:
        cs, stmt = split_cs(stmt0)
        w = stmt.split(' ')
        healthy = pg.in_tx and not pg.failed
        if pg.in_tx and pg.mig is not None:
            if bf:
                # START MIGRATION inside a block sends no SQL: a backend failure inside the migration
                # block aborts PostgreSQL's transaction, ABORT MIGRATION clears only the server's flag
                cls = cls or 'migration-fault'
            if w[0] == 'L' and healthy and pg.find(w[1]) is not None and pg.find(w[1]) < pg.mig:
                # releases the migration's internal savepoint too: ABORT MIGRATION then fails
                cls = cls or 'migration-release-outer'
            if w[0] == 'N' and len(pg.frames) > pg.mig:
                # savepoints declared inside the block: the compiler forgets them, PostgreSQL has them
                cls = cls or 'migration-inner-savepoint'
        if cs is not None and pending and pg.in_tx:
            # session differences are applied before sync_tx and overwritten by sync_to_savepoint
            cls = cls or 'client-state-after-rollback-to'
        if healthy and '; ' not in stmt and ((w[0] == 'C' and bf == 2) or (w[0] == 'R' and bf)) \
                and mark is not None and len(pg.frames) > mark:
            # detaching failure while a savepoint declared after the server's savepoint id is alive:
            # sync_to_savepoint purges it when it re-attaches the transaction
            cls = cls or 'detached-later-savepoint'
        if bf and w[0] == 'S' and not pg.in_tx and not cf:
            cls = cls or 'fault-start'
        if bf and healthy and w[0] == 'D':
            cls = cls or 'fault-declare'
        if healthy and w[0] == 'L':
            i = pg.find(w[1])
            if i is not None:
                if bf:
                    cls = cls or 'fault-release'
                else:
                    gone = {n for n, _ in pg.frames[i:]}
                    if gone & {n for n, _ in pg.frames[:i]}:
                        cls = cls or 'release-shadowed'
        r = pg.step(stmt0, cf, bf)
        if not pg.in_tx:
            mark = None
            pending = False
        elif w[0] == 'B' and r == 'ok' and '; ' not in stmt:
            mark = len(pg.frames)
            pending = True
        else:
            if mark is not None:
                mark = min(mark, len(pg.frames))
            if r != 'rej':
                pending = False
    return cls


def run_l2(env: Env, case):
    """case = (transport, pl, [(stmt, cf, bf)]).  Returns (real line, oracle complaints with
    the index of the first one)."""
    transport, pl, evs = case
    sim = Sim(env, pl, transport)
    pg = PG2(pl)
    outs, bad = [], []
    T0 = 0
    probe = env.probe
    for i, (stmt, cf, bf) in enumerate(evs):
        exposed = pg.exposed()
        was_failed = pg.in_tx and pg.failed
        # the payload the statement is compiled against: read off the real state right after
        # compile_in_tx's sync (by the parse_block stand-in, which runs exactly there)
        probe.clear()
        raw = stmt
        cs, stmt = split_cs(stmt)
        if cs is not None:          # dbview.decode_state(): the client's state goes into the view
            sim.set_modaliases(CODEC.mk_aliases(cs[0]))
            sim.set_session_config(CODEC.mk_config(cs[1]))
            exposed = (exposed[0], exposed[1], cs[0], cs[1])
        parts = stmt.split('; ')
        if (len(parts) > 1 or stmt in ('M', 'N')) and not sim._in_tx:
            outs.append('unmodelled')    # scripts / migration blocks outside a transaction block
            continue
        outcome, unit = sim.statement(parts, cf, bf)
        if len(parts) > 1 and unit is not None:
            # an accepted script (possible only through the `_try_compile_rollback` escape, which
            # looks at the first statement alone): execute_script is outside the model — the
            # history ends here
            evs = evs[:i]
            break
        if unit is not None and unit.tx_id is not None:
            T0 = unit.tx_id - 1
        against = probe[0] if probe else None
        e = pg.step(raw, cf, bf)
        cls = outcome.split(':')[0]
        if cls != e:
            bad.append((i, f'step {i} {raw!r}: outcome {outcome}, PostgreSQL-style spec says {e}'))
        elif cls in ('ok', 'failed') and not was_failed and against is not None and against != exposed:
            bad.append((i, f'step {i} {raw!r}: compiled against {against}, a PostgreSQL-style '
                           f'transaction exposes {exposed}'))
        elif cls == 'ok' and unit is not None and unit.modaliases is not None \
                and tok_aliases(unit.modaliases) != pg.exposed()[2]:
            # what the unit reports to the frontend as the session's module aliases after the statement
            # (COMMIT / ROLLBACK / ROLLBACK TO / SET ALIAS / CONFIGURE): must be the spec's
            bad.append((i, f'step {i} {raw!r}: the unit reports aliases {tok_aliases(unit.modaliases)} to the '
                           f'frontend, a PostgreSQL-style session has {pg.exposed()[2]} after this statement'))
        ag = '-' if against is None else ','.join(map(str, against))
        un = '-' if unit is None else show_unit(unit, T0)
        cs = '-'
        if sim._in_tx and sim._last_comp_state is not None:
            cs = obs(sim.pool.effective_state(sim._last_comp_state, sim._in_tx_root_user_schema_pickle), T0)
        outs.append(f'{outcome} @{ag} <{un}> {show_sim(sim, T0)} ~ {cs}')
    sim.pool.close()
    return '|'.join(outs), bad, (transport, pl, evs)


def l2_line(case) -> str:
    transport, pl, evs = case
    return (f'2 {transport}|' + ' '.join(map(str, pl))
            + ''.join(f'|{s} {int(cf)}{int(bf)}' for (s, cf, bf) in evs))


# --------------------------------------------------------------- generators
NAMES = ['1', '2']


def gen_l1_random(rng, n_cases, maxlen, with_sync):
    for _ in range(n_cases):
        ln = rng.randint(1, maxlen)
        names = rng.choice([['1'], ['1', '2'], ['1', '2', '3']])
        pl = (1, 2, 3, 4)
        ops, tag, cnt = [], 10, 1
        w_tx = rng.choice([1, 2, 4])
        for _ in range(ln):
            r = rng.random()
            if with_sync and r < 0.12:
                ops.append(f'Y {rng.randint(1, cnt + 1)}')
                continue
            k = rng.choices(['S', 'C', 'R', 'D', 'L', 'B', 'U', 'A', 'F'],
                            weights=[w_tx, 1, 1, 5, 3, 3, 3, 2, 2])[0]
            if k in 'SCR':
                ops.append(k)
                cnt += 1
            elif k in 'DLB':
                ops.append(f'{k} {rng.choice(names)}')
                cnt += 1
            elif k == 'U':
                tag += 2
                ops.append(f'U {tag} {tag + 1}')
            else:
                tag += 1
                ops.append(f'{k} {tag}')
        yield (pl, ops)


def gen_l1_exhaustive(maxlen):
    al = ['S', 'C', 'R', 'D 1', 'D 2', 'L 1', 'L 2', 'B 1', 'B 2', 'U', 'A', 'F']
    for ln in range(1, maxlen + 1):
        for seq in itertools.product(al, repeat=ln):
            ops, tag = [], 10
            for o in seq:
                if o == 'U':
                    tag += 2
                    ops.append(f'U {tag} {tag + 1}')
                elif o in 'AF':
                    tag += 1
                    ops.append(f'{o} {tag}')
                else:
                    ops.append(o)
            yield ((1, 2, 3, 4), ops)


def gen_l2_random(rng, n_cases, maxlen, covered: bool):
    """random histories.  Bias: after an accepted ROLLBACK TO (the server's transaction id is then a
    savepoint id) a COMMIT / ROLLBACK that fails while the backend stays in the block is likely, followed
    by savepoint / transaction statements — the compiler's current Transaction object is then a fresh
    implicit one and `sync_tx` has to bring the old one back."""
    for _ in range(n_cases):
        ln = rng.randint(1, maxlen)
        names = rng.choice([['1'], ['1', '2'], ['1', '2', '3']])
        evs, tag = [], 10
        pf = rng.choice([0.0, 0.05, 0.15])
        pdet = rng.choice([0.0, 0.3, 0.6])
        pnest = rng.choice([0.0, 0.04, 0.1])     # nested savepoints with alias / config changes between
        pcs = rng.choice([0.0, 0.0, 0.05, 0.15])  # the client sends a changed session state along
        pg = PG2((0, 0, 0, 0))
        detached = 0          # > 0: right after a detaching failure, prefer tx / savepoint statements
        queue = []
        forced_name = None
        for _ in range(ln):
            for _try in range(20):
                if not queue and pg.in_tx and not pg.failed and rng.random() < pnest:
                    a, b = rng.sample(['1', '2', '3'], 2) if len(names) > 1 else ('1', '1')
                    queue += [('D ' + a, False, 0), (rng.choice(['A', 'F']), False, 0), ('D ' + b, False, 0)]
                    if rng.random() < 0.5:
                        queue.append((rng.choice(['A', 'F', 'U']), False, 0))
                    queue += [('B ' + a, False, 0), (rng.choice(['Q', 'U', 'F']), False, 0),
                              (rng.choice(['Q', 'A', 'C', 'D ' + b]), False, 0)]
                if not queue and pg.in_tx and not pg.failed and rng.random() < pnest / 2:
                    # shadowed name: SAVEPOINT a; X; SAVEPOINT a; Y; ROLLBACK TO a; RELEASE a; ROLLBACK TO a; …
                    a = rng.choice(names)
                    queue += [('D ' + a, False, 0), (rng.choice(['A', 'F', 'U']), False, 0), ('D ' + a, False, 0),
                              (rng.choice(['A', 'F', 'U', 'Q']), False, 0), ('B ' + a, False, 0),
                              ('L ' + a, False, 0), ('B ' + a, False, 0), ('Q', False, 0), ('Q', False, 0)]
                if queue:
                    k, cf, bf = queue.pop(0)
                    if ' ' in k:
                        k, forced_name = k.split(' ')
                    else:
                        forced_name = None
                elif detached > 0:
                    k = rng.choices(['B', 'D', 'C', 'S', 'R', 'Q', 'L'], weights=[6, 3, 2, 2, 2, 1, 1])[0]
                    cf = bf = False
                else:
                    k = rng.choices(['S', 'C', 'R', 'D', 'L', 'B', 'U', 'A', 'F', 'Q'],
                                    weights=[3, 1, 1, 6, 3, 4, 3, 2, 2, 2])[0]
                    cf = bf = False
                    if k in 'UAFQS' and rng.random() < pf:
                        cf = True
                    if rng.random() < pf and k in ('UAFQCR' if covered else 'UAFQCRSDL'):
                        bf = rng.choice([1, 2]) if k == 'C' else 1
                if k in 'DLB':
                    s = f'{k} {forced_name or rng.choice(names)}'
                elif k == 'U':
                    s = f'U {tag + 2} {tag + 3}'
                elif k in 'AF':
                    s = f'{k} {tag + 1}'
                else:
                    s = k
                forced_name = None
                if pcs and rng.random() < pcs:
                    s = f'@{tag + 1},{tag + 2} ' + s
                healthy = pg.in_tx and not pg.failed
                if k == 'B' and pg.in_tx and pg.failed and pg.find(split_cs(s)[1].split(' ')[1]) is None and detached:
                    # the model's backend never refuses a statement by itself: a ROLLBACK TO of a name
                    # PostgreSQL does not have, sent through the `_try_compile_rollback` escape, would be
                    # refused by the real backend only (see notes: outside the model)
                    continue
                if covered and classify_uncovered(evs + [(s, cf, bf)], len(evs)) is not None:
                    continue
                break
            else:
                s, cf, bf = 'Q', False, 0
            tag += 4
            was_healthy = pg.in_tx and not pg.failed
            r = pg.step(s, cf, bf)
            evs.append((s, cf, bf))
            w0 = split_cs(s)[1][0]
            if was_healthy and r == 'failed' and ((w0 == 'C' and bf == 2) or w0 == 'R'):
                detached = rng.randint(1, 3) + 1
            elif not pg.in_tx or not pg.failed:
                detached = 0
            if detached > 0:
                detached -= 1 if detached > 1 else 0
            # after an accepted ROLLBACK TO: maybe  [payload]; COMMIT/ROLLBACK that fails in place
            if w0 == 'B' and r == 'ok' and not queue and rng.random() < pdet:
                if not covered and rng.random() < 0.3:
                    queue.append(('D', False, 0))       # a later savepoint: known divergence
                if rng.random() < 0.6:
                    queue.append((rng.choice(['U', 'A', 'F', 'Q']), False, 0))
                queue.append(rng.choice([('C', False, 2), ('R', False, 1)]))
        yield (rng.choice(['p', 'p', 'r']), (1, 2, 3, 4), evs)


def gen_l2_mig(rng, n_cases, maxlen, covered: bool):
    """histories with migration blocks (START MIGRATION … ABORT MIGRATION) opened INSIDE explicit
    transaction blocks, with savepoints (also shadowed names, RELEASE, ROLLBACK TO) before, inside and
    after them; no DDL and no backend failures inside a block.  These run against the spec oracle only
    (migration blocks are not in the Lean model)."""
    for _ in range(n_cases):
        names = rng.choice([['1', '2'], ['1', '2', '3'], ['1']])
        evs, tag = [], 10
        pg = PG2((0, 0, 0, 0))
        ln = rng.randint(5, maxlen)
        for _ in range(ln):
            for _try in range(20):
                cf = False
                if not pg.in_tx:
                    k = rng.choices(['S', 'U', 'A', 'Q'], weights=[6, 1, 1, 1])[0]
                elif pg.mig is None:
                    k = rng.choices(['D', 'B', 'L', 'U', 'A', 'F', 'Q', 'M', 'N', 'C', 'R'],
                                    weights=[5, 4, 2, 3, 1, 1, 2, 4, 0.3, 0.7, 0.4])[0]
                else:
                    k = rng.choices(['Q', 'A', 'F', 'D', 'B', 'L', 'N', 'M', 'C', 'S', 'R'],
                                    weights=[3, 1, 1, 1.5, 2, 1, 4, 0.4, 0.6, 0.3, 0.3])[0]
                    cf = k == 'Q' and rng.random() < 0.15
                if k in 'DLB':
                    s = f'{k} {rng.choice(names)}'
                elif k == 'U':
                    s = f'U {tag + 2} {tag + 3}'
                elif k in 'AF':
                    s = f'{k} {tag + 1}'
                else:
                    s = k
                if covered and classify_uncovered(evs + [(s, cf, 0)], len(evs)) is not None:
                    continue
                break
            else:
                s, cf = 'Q', False
            tag += 4
            evs.append((s, cf, 0))
            pg.step(s, cf, 0)
        yield (rng.choice(['p', 'r']), (1, 2, 3, 4), evs)


def gen_l2_scripts(rng, n_cases):
    """histories in which some statements are scripts containing transaction control (always
    refused by the compiler, after it has written to the state)"""
    for (t, pl, evs) in gen_l2_random(rng, n_cases, 25, covered=True):
        out, tag = [], 500
        for ev in evs:
            out.append(ev)
            if rng.random() < 0.2:
                tag += 4
                k = rng.choice(['L', 'B', 'D', 'C', 'R', 'S'])
                tc = f'{k} {rng.choice(NAMES)}' if k in 'LBD' else k
                pre = rng.choice([[], [f'U {tag} {tag + 1}'], ['Q'], [f'A {tag}']])
                post = rng.choice([[], ['Q']]) if pre else ['Q']
                out.append(('; '.join(pre + [tc] + post), False, False))
        yield (t, pl, out)


def gen_l2_bridge(rng, n_cases, ddl_budget):
    """histories for the bridge stream: the same shapes, with alias tokens folded into the ten
    std modules and DDL (`create module`, ~1 s each through the real DDL compiler) rationed"""
    left = [ddl_budget]
    srcs = itertools.chain(gen_l2_random(rng, n_cases // 2, 25, covered=True),
                           gen_l2_random(rng, n_cases // 4, 25, covered=False),
                           gen_l2_scripts(rng, n_cases - n_cases // 2 - n_cases // 4))
    for (t, pl, evs) in srcs:
        out = []
        for (stmt, cf, bf) in evs:
            cs, stmt = split_cs(stmt)
            parts = []
            for st in stmt.split('; '):
                w = st.split(' ')
                if w[0] == 'A':
                    st = f'A {int(w[1]) % len(MODS)}'
                elif w[0] == 'U':
                    if left[0] > 0 and not cf and rng.random() < 0.3:
                        left[0] -= 1
                        st = f'U {w[1]} 2'
                    else:
                        st = 'Q'
                parts.append(st)
            pre = '' if cs is None else f'@{cs[0] % len(MODS)},{cs[1]} '
            out.append((pre + '; '.join(parts), cf, bf))
        yield (t, pl, out)


def gen_l2_exhaustive(maxlen):
    al = ['S', 'C', 'R', 'D 1', 'D 2', 'L 1', 'L 2', 'B 1', 'B 2', 'U', 'Ub', 'A', 'Qc']
    for ln in range(1, maxlen + 1):
        for seq in itertools.product(al, repeat=ln - 1):
            evs, tag = [('S', False, False)], 10
            for o in seq:
                tag += 4
                if o == 'U':
                    evs.append((f'U {tag} {tag + 1}', False, False))
                elif o == 'Ub':
                    evs.append((f'U {tag} {tag + 1}', False, True))
                elif o == 'A':
                    evs.append((f'A {tag}', False, False))
                elif o == 'Qc':
                    evs.append(('Q', True, False))
                else:
                    evs.append((o, False, False))
            yield ('p', (1, 2, 3, 4), evs)


# Fixed witnesses of behaviour outside the proved envelope (each is also a `decide`d
# counterexample in Props/C09.lean); replayed on the real classes on every run.
WITNESSES = {
    'release-shadowed': [('S', 0, 0), ('D 1', 0, 0), ('U 5 6', 0, 0), ('D 1', 0, 0), ('U 7 8', 0, 0),
                         ('L 1', 0, 0), ('B 1', 0, 0), ('Q', 0, 0)],
    'fault-release': [('S', 0, 0), ('D 1', 0, 0), ('L 1', 0, 1), ('B 1', 0, 0)],
    'fault-declare': [('S', 0, 0), ('D 1', 0, 0), ('B 1', 0, 0), ('U 5 6', 0, 0), ('D 1', 0, 1),
                      ('B 1', 0, 0), ('Q', 0, 0)],
    'fault-start': [('S', 0, 1), ('Q', 0, 0)],
    'migration-inner-savepoint': [('S', 0, 0), ('D 1', 0, 0), ('M', 0, 0), ('D 2', 0, 0), ('N', 0, 0), ('B 2', 0, 0)],
    'migration-release-outer': [('S', 0, 0), ('D 1', 0, 0), ('M', 0, 0), ('L 1', 0, 0), ('N', 0, 0)],
    'client-state-after-rollback-to': [('S', 0, 0), ('D 1', 0, 0), ('B 1', 0, 0), ('@7,4 Q', 0, 0), ('Q', 0, 0)],
    'detached-later-savepoint': [('S', 0, 0), ('D 1', 0, 0), ('B 1', 0, 0), ('Q', 0, 0), ('D 2', 0, 0), ('C', 0, 2),
                                 ('B 2', 0, 0)],
}


def real_core_release_shadowed() -> dict:
    """The compiler-side half of `proto:release-shadowed` on the REAL dbstate classes alone (no
    server transcription involved): after `SAVEPOINT a; X; SAVEPOINT a; RELEASE a; ROLLBACK TO a`
    the compiler is at the outer `a`, yet `sync_tx(<id of the released inner a>)` still succeeds
    and moves it to the inner one (X applied).  What the server contributes is only the id."""
    R = L1Real((1, 2, 3, 4))
    st = R.st
    st.start_tx()
    a1 = st.current_tx().declare_savepoint('a')
    st.current_tx().update_modaliases(mk_aliases(7))            # X
    a2 = st.current_tx().declare_savepoint('a')
    st.current_tx().release_savepoint('a')
    st.current_tx().rollback_to_savepoint('a')
    before = st_payload(st.current_tx()._current)
    can = st.can_sync_to_savepoint(a2)
    try:
        st.sync_tx(a2)
        after = st_payload(st.current_tx()._current)
    except Exception as e:  # noqa: BLE001
        after = 'sync_tx raised ' + type(e).__name__
    return {'payload_after_rollback_to_outer_a': before, 'released_inner_a_still_in_log': can,
            'payload_after_sync_tx_to_released_inner_a': after, 'ids': [a1 - R.T0, a2 - R.T0]}


def detached_stats(evs):
    """(detaching failures after a ROLLBACK TO in the same block, statements sent while detached,
    ROLLBACK TOs among them)"""
    pg = PG2((0, 0, 0, 0))
    rb_to = det = False
    n_det = n_st = n_b = 0
    for (stmt0, cf, bf) in evs:
        _, stmt = split_cs(stmt0)
        healthy = pg.in_tx and not pg.failed
        if det:
            n_st += 1
            n_b += stmt[0] == 'B'
        r = pg.step(stmt0, cf, bf)
        if not pg.in_tx:
            rb_to = det = False
        elif stmt[0] == 'B' and r == 'ok':
            rb_to, det = True, False
        elif healthy and r == 'failed' and rb_to and '; ' not in stmt and (
                (stmt[0] == 'C' and bf == 2) or stmt[0] == 'R'):
            det = True
            n_det += 1
    return n_det, n_st, n_b


def real_release_unit_cacheable(env) -> dict:
    """`cacheable` of the units (and groups) the REAL compiler builds for transaction control: all must be
    non-cacheable (RELEASE SAVEPOINT was left cacheable until fix 0236887)"""
    st = L1Real((1, 2, 3, 4)).st
    ctx = C.CompileContext(compiler_state=env.cstate, state=st, output_format=enums.OutputFormat.BINARY,
                           expected_cardinality_one=False, protocol_version=defines.CURRENT_PROTOCOL)
    out = {}
    for s_ in ['S', 'D 1', 'L 1', 'D 1', 'B 1', 'C', 'S', 'R']:
        g = C.compile(ctx=ctx, source=FakeSource([ast_of(s_, False)], s_))
        out[s_.split(' ')[0]] = bool(g.cacheable) or any(bool(u.cacheable) for u in g)
    return out


def has_mig(evs) -> bool:
    return any(st in ('M', 'N') for s, _, _ in evs for st in split_cs(s)[1].split('; '))


def REGRESSIONS(quick_bridge_only: bool = False):
    """corpus/C09/regressions.json: histories that once diverged (run first)"""
    import os
    path = os.path.join(core.VERIF, 'corpus', 'C09', 'regressions.json')
    out = []
    for c in json.load(open(path))['cases']:
        if quick_bridge_only and not c.get('quick_bridge'):
            continue
        out.append((c['name'], (c['transport'], tuple(c['payload']),
                                [(s, bool(cf), int(bf)) for s, cf, bf in c['events']])))
    return out


# ---------------------------------------------------------------------- run
def run(ctx: core.Ctx):
    global CODEC
    proved = ctx.proof_stage(PROPS, ['EdbVerif.Props.C09', 'Driver.C09'], required=REQUIRED)
    ctx.log('proof stage:', 'ok' if proved else ctx.proof['broken'])
    rng = ctx.rng

    l1_cases, l2_cases, l2b_cases = [], [], []      # (case, stream)
    if ctx.replay:
        rp = json.load(open(ctx.replay))
        for f in rp['failures']:
            d = f.get('detail')
            if isinstance(d, dict) and 'l1' in d:
                l1_cases.append(((tuple(d['l1'][0]), list(d['l1'][1])), 'replay', d.get('pickles')))
            if isinstance(d, dict) and 'l2' in d:
                t, pl, evs = d['l2']
                (l2b_cases if d.get('bridge') else l2_cases).append(
                    ((t, tuple(pl), [(s, bool(c), int(b)) for s, c, b in evs]), 'replay'))
    else:
        for c in gen_l1_exhaustive(ctx.budget(3, 5)):
            l1_cases.append((c, 'exh', None))
        for c in gen_l1_random(rng, ctx.budget(1500, 30000), 60, with_sync=False):
            l1_cases.append((c, 'rand', None))
        for c in gen_l1_random(rng, ctx.budget(1000, 20000), 40, with_sync=True):
            l1_cases.append((c, 'sync', None))
        for c in gen_l2_exhaustive(ctx.budget(4, 5)):
            l2_cases.append((c, 'exh2'))
        for c in gen_l2_random(rng, ctx.budget(1500, 30000), 40, covered=True):
            l2_cases.append((c, 'covered'))
        for c in gen_l2_random(rng, ctx.budget(700, 15000), 30, covered=False):
            l2_cases.append((c, 'uncovered'))
        for k, evs in WITNESSES.items():
            tr = 'p'
            if isinstance(evs, tuple):
                tr, evs = evs
            l2_cases.append(((tr, (1, 2, 3, 4), [(s, bool(c), int(b)) for s, c, b in evs]), 'witness:' + k))
        for (t, pl, evs) in gen_l2_random(rng, ctx.budget(120, 4000), 30, covered=True):
            l2_cases.append((('c', pl, evs), 'query-cache'))
        # the REUSE transport on a statement that is rejected after it has written to the state
        for name, c in REGRESSIONS():
            l2_cases.insert(0, (c, 'regression'))
            l2_cases.append(((('p',) + c[1:]), 'regression'))
        for c in gen_l2_mig(rng, ctx.budget(350, 10000), 24, covered=True):
            l2_cases.append((c, 'migration'))
        for c in gen_l2_mig(rng, ctx.budget(150, 5000), 20, covered=False):
            l2_cases.append((c, 'migration-uncovered'))
        for c in gen_l2_scripts(rng, ctx.budget(150, 3000)):
            l2_cases.append((c, 'script'))
        # the same through the REAL parser and compilers (front-end bridge)
        for c in gen_l2_bridge(rng, ctx.budget(5, 1500), ctx.budget(1, 80)):
            l2b_cases.append((c, 'bridge'))
        for (t, pl, evs) in gen_l2_mig(rng, ctx.budget(1, 400), 12, covered=True):
            evs_b, nddl = [], 0
            for st, cf, bf in evs:
                w = st.split(' ')
                if w[0] == 'A':
                    st = f'A {int(w[1]) % len(MODS)}'
                elif w[0] == 'U':
                    nddl += 1
                    st = f'U {w[1]} 2' if nddl <= 1 else 'Q'
                evs_b.append((st, cf, bf))
            l2b_cases.append(((t, pl, evs_b), 'migration'))
        l2b_cases.append((('p', (1, 2, 3, 4), [(s.replace('U 5 6', 'U 5 2').replace('U 7 8', 'U 7 2'), bool(c), bool(b))
                                               for s, c, b in WITNESSES['release-shadowed']]),
                          'witness:release-shadowed'))
        for name, c in REGRESSIONS(quick_bridge_only=ctx.quick()):
            import re as _re
            # real DDL is slow (0.5 s, several seconds on a loaded machine): the first DDL of a history
            # stays a DDL, further ones become config changes (equally visible in the payload)
            # (quick tier: only the seed-c09e history keeps its DDL)
            evs_b, nddl = [], (1 if ctx.quick() and not name.startswith('seed c09e, silent') else 0)
            for st, cf, bf in c[2]:
                mm = _re.fullmatch(r'((?:@\S+ )?)U (\d+) \d+', st)
                if mm:
                    nddl += 1
                    st = f'{mm.group(1)}U {mm.group(2)} 2' if nddl == 1 else f'{mm.group(1)}F {mm.group(2)}'
                evs_b.append((st, cf, bf))
            l2b_cases.insert(0, ((c[0], c[1], evs_b), 'regression'))

    # ---------------- level 1
    lines, reals = [], []
    n_oracle = n_rej = 0
    hist = {}
    for case, stream, pk in l1_cases:
        pl, ops = case
        bits = pk if pk is not None else [rng.choice([0, 0, 1, 2]) for _ in ops]
        line, bad, rep = run_l1(case, bits)
        lines.append(l1_line(case))
        reals.append(line)
        detail = {'l1': [list(pl), ops], 'pickles': bits}
        for b in bad:
            n_oracle += 1
            ctx.fail(f'oracle1:{lines[-1]}', b, detail)
        for b in rep:
            ctx.fail(f'repr1:{lines[-1]}', 'representation fact the model relies on is false: ' + b,
                     detail, no_input=True)
        for o in line.split('|')[1:]:
            k = o.split(' ')[0]
            hist[k] = hist.get(k, 0) + 1
            n_rej += k.startswith('err')
    ctx.log(f'level 1: {len(l1_cases)} histories / {sum(hist.values())} real calls; {n_rej} rejected; '
            f'{n_oracle} oracle failures')

    # ---------------- level 2
    lines2, reals2, bads2 = [], [], []
    hist2 = {}
    env = Env('standin')
    try:
        cacheable_flags = real_release_unit_cacheable(env)
        kinds = {'S': 'START TRANSACTION', 'D': 'DECLARE SAVEPOINT', 'L': 'RELEASE SAVEPOINT',
                 'B': 'ROLLBACK TO SAVEPOINT', 'C': 'COMMIT', 'R': 'ROLLBACK'}
        for k_, flag in cacheable_flags.items():
            if flag:
                # a cacheable transaction-control unit is served from dbview's compiled-query cache on a
                # repeat and never reaches the compiler state (fixed for RELEASE by 0236887)
                ctx.fail(f'oracle:tx-control-cacheable:{k_}',
                         f'the real compiler builds a cacheable unit for {kinds[k_]}: a repeated statement '
                         f'would be served from the query cache without updating the compiler state',
                         {'statement': kinds[k_], 'flags': cacheable_flags})
        for j, (case, stream) in enumerate(l2_cases):
            line, bad, case = run_l2(env, case)
            l2_cases[j] = (case, stream)
            lines2.append(l2_line(case))
            reals2.append(line)
            bads2.append(bad)
            for o in line.split('|'):
                k = o.split(' ')[0].split(':')[0]
                hist2[k] = hist2.get(k, 0) + 1
    finally:
        env.uninstall()
    ctx.log(f'level 2: {len(l2_cases)} histories; outcomes {hist2}')
    hist2b = {}
    n_l2 = len(l2_cases)
    if l2b_cases:
        t_b = time.time()
        env = Env('bridge')
        CODEC = env.codec
        try:
            for j, (case, stream) in enumerate(l2b_cases):
                line, bad, case = run_l2(env, case)
                l2b_cases[j] = (case, stream)
                lines2.append(l2_line(case))
                reals2.append(_drop_g(line))
                bads2.append(bad)
                for o in line.split('|'):
                    k = o.split(' ')[0].split(':')[0]
                    hist2b[k] = hist2b.get(k, 0) + 1
        finally:
            env.uninstall()
            CODEC = STANDIN
        ctx.log(f'level 2 through the bridge (real parser + compilers): {len(l2b_cases)} histories in '
                f'{time.time() - t_b:.1f}s; outcomes {hist2b}')
    l2_all = l2_cases + l2b_cases

    # ---------------- the model on the same inputs
    # histories with migration blocks are outside the Lean model: spec oracle only
    modelled2 = [not has_mig(c[2]) and c[0] != 'c' for c, _ in l2_all]
    model = ctx.driver('C09', lines + [l for l, ok in zip(lines2, modelled2) if ok])
    if len(model) != len(lines) + sum(modelled2):
        raise core.Infra(f'driver returned {len(model)} lines for {len(lines) + sum(modelled2)}')
    it2 = iter(model[len(lines):])
    model2 = [next(it2) if ok else None for ok in modelled2]
    n_dis = 0
    for (case, stream, _pk), line, real, m in zip(l1_cases, lines, reals, model[:len(lines)]):
        if real != m:
            n_dis += 1
            rs, ms = real.split('|'), m.split('|')
            i = next((j for j in range(min(len(rs), len(ms))) if rs[j] != ms[j]), -1)
            ctx.fail(f'corr1:{line}', 'model and implementation disagree (level 1)',
                     {'l1': [list(case[0]), case[1]], 'step': i,
                      'real': rs[i] if 0 <= i < len(rs) else None,
                      'model': ms[i] if 0 <= i < len(ms) else m[:200]}, no_input=True)
    findings = {}
    bridge_confirms = set()
    for j, ((case, stream), line, real, bad, m) in enumerate(
            zip(l2_all, lines2, reals2, bads2, model2)):
        detail = {'l2': [case[0], list(case[1]), [[s, int(c), int(b)] for s, c, b in case[2]]]}
        if j >= n_l2:
            detail['bridge'] = True
            m = _drop_g(m) if m is not None else None
            line = 'bridge ' + line
        if m is not None and real != m:
            n_dis += 1
            rs, ms = real.split('|'), m.split('|')
            i = next((j for j in range(min(len(rs), len(ms))) if rs[j] != ms[j]), -1)
            ctx.fail(f'corr2:{line}', 'model and implementation disagree (level 2)',
                     detail | {'step': i, 'real': rs[i] if 0 <= i < len(rs) else None,
                               'model': ms[i] if 0 <= i < len(ms) else m[:200]}, no_input=True)
        if bad:
            i, what = bad[0]
            cls = classify_uncovered(case[2], i, case[0])
            # A divergence is attributed to a known family only if the model of the UNMODIFIED code
            # shows the very same divergence at that statement (same outcome, same payload compiled
            # against); otherwise the real code has left the spec on its own: ordinary violation.
            rs_, ms_ = real.split('|'), (m.split('|') if m is not None else [])
            same_as_model = m is None or (i < len(rs_) and i < len(ms_)
                                          and rs_[i].split(' <')[0] == ms_[i].split(' <')[0])
            if cls is not None and not same_as_model:
                what += (f'  [the history has the known feature {cls!r}, but the model of the unmodified '
                         f'code does not diverge here: model {ms_[i].split(" <")[0] if i < len(ms_) else "-"}]')
                cls = None
            if cls is None:
                ctx.fail(f'oracle2:{line}', what, detail)
            else:
                findings.setdefault(cls, 0)
                findings[cls] += 1
                if j >= n_l2:
                    bridge_confirms.add(cls)
                ctx.fail(f'proto:{cls}', what + f'  [history {line}]', detail)
        elif stream.startswith('witness:'):
            ctx.fail(f'witness-stale:{stream}', 'a recorded counterexample no longer diverges on the real '
                     'classes (update Props/C09.lean and notes)', detail, no_input=True)
    if not proved:
        ctx.proof_broken_verdict()

    distinct = set(lines) | set(lines2)
    nontrivial = sum(1 for l in distinct if ('|D ' in l and ('|B ' in l or '|L ' in l)))
    ctx.cov.update({
        'evaluations': len(l1_cases) + len(l2_all),
        'distinct_nontrivial': nontrivial,
        'rule': 'a history = a list of statements run against ONE real CompilerConnectionState (level 1) or '
                'through real Compiler.compile/compile_in_tx + worker transport + transcribed server (level 2); '
                'non-trivial = declares a savepoint and later releases / rolls back to one; distinct = distinct '
                'protocol line',
        'samples': [lines[i] for i in sorted({0, len(lines) // 2, len(lines) - 1}) if 0 <= i < len(lines)]
                   + [lines2[i] for i in sorted({0, len(lines2) // 2, len(lines2) - 1}) if 0 <= i < len(lines2)],
        'real_calls_level1': sum(hist.values()), 'level1_results': hist,
        'level1_streams': _count(s for _, s, _ in l1_cases),
        'level2_statements': sum(hist2.values()), 'level2_outcomes': hist2,
        'level2_streams': _count(s.split(':')[0] for _, s in l2_all),
        'bridge_statements': sum(hist2b.values()), 'bridge_outcomes': hist2b,
        'detached_transaction_shapes': dict(zip(
            ('commit_or_rollback_failing_in_place_after_rollback_to', 'statements_sent_while_detached',
             'rollback_to_while_detached'),
            map(sum, zip(*[detached_stats(c[2]) for c, _ in l2_all])))),
        'real_tx_control_units_cacheable': cacheable_flags,
        'outside_envelope_divergences': findings,
        'release_shadowed_compiler_side_on_real_classes_only': real_core_release_shadowed(),
        'divergences_also_seen_through_real_parser_and_compilers': sorted(bridge_confirms),
        'disagreements_model_vs_impl': n_dis,
        'exhaustive': False,
        'correspondence': 'level 1: real dbstate.CompilerConnectionState/Transaction vs Lean EdbVerif.Tx (full visible '
                          'state after every call, ids relative to the initial _tx_count, pickle round trips in a '
                          'random subset of steps); level 2: real Compiler.compile/compile_in_tx/_try_compile_ast/'
                          '_compile_ql_transaction/_compile_ql_sess_state/_make_query_unit + real '
                          'worker.compile_in_tx vs Lean Server.step (outcome, payload compiled against, unit '
                          'fields, server fields, compiler state after every statement)',
    })
    ctx.assumptions += [
        'payloads are opaque: a schema / alias map / session config is only ever copied, replaced or compared, '
        'never inspected, by the transaction code (true of dbstate.py; the DDL/config compilers that compute the '
        'new values are outside this property)',
        'the level-1 spec treats the compiler\'s implicit transaction as an open block (ROLLBACK restores its '
        'baseline); autocommit of statements outside a block is a server-level fact (fresh state per compile)',
        'protocol theorem envelope (pickle transport, and the pool\'s marker transport by reuse_fixed_is_pickle): backend failures on DDL/alias/config/query statements and '
        'COMMIT; compile failures anywhere; no RELEASE that removes a savepoint whose name is also carried by an '
        'enclosing savepoint.  Outside the envelope the check reports concrete divergences as proto:* findings',
        'START MIGRATION / migration rewrite savepoints (uuid-named, declared in implicit transactions) are not modelled',
    ]
    ctx.trusted_base += [
        'hand-written model EdbVerif/Model/Tx.lean of dbstate.py + compile_in_tx + unit construction; tied by the '
        'differential run above',
        'server half (dbview.pyx / execute.pyx / binary.pyx are Cython and cannot run here): Python transcription '
        '`Sim` in harness/props/c09.py and Lean `Server`, compared with each other but not with the Cython code',
        'compiler pool: real FixedPool + real worker.py module instances over the in-process transport of '
        'harness/lib/c17rig.py (socket replaced)',
        'stand-in stream: stand-ins installed into the compiler module namespace: parser (prepared ASTs), DDL / '
        'CONFIGURE / query compilers (perform the real update_* calls), rpc.CompilationRequest, empty edb.graphql '
        'package; bridge stream: the front-end bridge (harness/bridge) as parser, rpc.CompilationRequest stand-in',
        'harness/props/c09.py generators, oracles PG1/PG2 and canonicalisation',
    ]


def _drop_g(line: str) -> str:
    """bridge stream: `create module` leaves unit.global_schema unset, the model's DDL sets it to
    the (unchanged) token; drop that unit field on both sides"""
    import re
    return re.sub(r' g\S+ f', ' f', line)


def _count(it):
    d = {}
    for x in it:
        d[x] = d.get(x, 0) + 1
    return d
