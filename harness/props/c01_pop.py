"""C01 populations of TEXTS (everything here yields (origin, entry, text)).

  corpus      upstream syntax-test docstrings, edb/lib/*.edgeql, tests/schemas/*
  mutants     corpus statements (re-printed) with IDENT / string / number tokens replaced
  idents      identifier-in-position templates x identifiers needing quoting
  literals    string / bytes / number literal source forms
  stmts       hand-written statement / DDL / SDL / config templates with generated expressions
"""
from __future__ import annotations

import re

from lib import core

from . import c01_gen as gen
from . import c01_rt as rt


# ----------------------------------------------------------------------------- corpus
def corpus():
    out = []
    for name, src, _mf in rt.docstring_cases(core.REPO + '/tests/test_edgeql_syntax.py'):
        out.append((f'corpus:{name}', 'block', src))
    for name, src, _mf in rt.docstring_cases(core.REPO + '/tests/test_schema_syntax.py'):
        out.append((f'corpus:{name}', 'sdl', src))
    for name, src in rt.file_cases(core.REPO + '/edb/lib'):
        out.append((f'corpus:{name}', 'block', src))
    for name, src in rt.file_cases(core.REPO + '/tests/schemas'):
        out.append((f'corpus:{name}', 'sdl' if name.endswith(('.esdl', '.gel')) else 'block', src))
    return out


# ----------------------------------------------------------------------------- literals
def str_literal_source(rng, hostile=0.7):
    """source text of ONE string literal, generated at source level (escapes, raw chars, quoting form)"""
    form = rng.choice(["'", '"', "r'", 'r"', '$$', '$tag$', "'", '"'])
    raw_chars = ['a', 'Z', '0', ' ', '_', '-', '.', ':', ';', '#', '(', ')', '{', '}', '`', '%', '$', 'é',
                 '💯', '\t', '\n', '\x7f', '\x85', '\x9f', '\x80', '\xa0', '​', ' ', '﻿', 'b', 'r', 'n']
    esc = ['\\\\', "\\'", '\\"', '\\n', '\\t', '\\r', '\\b', '\\f', '\\x00', '\\x01', '\\x1f', '\\x41', '\\x7f',
           '\\u0041', '\\u00e9', '\\u0085', '\\u009f', '\\u0080', '\\u202e', '\\u202a', '\\u2066', '\\u2069',
           '\\u200b', '\\ufeff', '\\U0001f4af', '\\U0000202e', '\\u0000', '\\\n   ', '\\$', '\\(']
    n = rng.randint(0, 6)
    parts = []
    for _ in range(n):
        if form in ("'", '"') and rng.random() < (0.5 if rng.random() < hostile else 0.1):
            parts.append(rng.choice(esc))
        else:
            c = rng.choice(raw_chars + ["'", '"', '$', '$$', '\\'])
            parts.append(c)
    body = ''.join(parts)
    if form == "'":
        body = re.sub(r"(?<!\\)'", '"', body)
        return "'" + body + "'"
    if form == '"':
        body = re.sub(r'(?<!\\)"', "'", body)
        return '"' + body + '"'
    if form == "r'":
        return "r'" + body.replace("'", '"') + "'"
    if form == 'r"':
        return 'r"' + body.replace('"', "'") + '"'
    if form == '$$':
        return '$$' + body.replace('$$', '$ $') + '$$'
    return '$tag$' + body.replace('$tag$', '') + '$tag$'


def bytes_literal_source(rng):
    q = rng.choice(["'", '"'])
    pieces = ['a', ' ', '\\x00', '\\xff', '\\x7f', '\\x80', '\\n', '\\t', '\\r', '\\\\', "\\'", '\\"', '$', '~', '\x7e',
              '\n', '\t', '`', '\\x27', '\\x5c']
    body = ''.join(rng.choice(pieces) for _ in range(rng.randint(0, 6)))
    return rng.choice(['b', 'br', 'rb'])[:1] + q + body.replace(q, '') + q


NUM_SOURCES = ['0', '1', '42', '007', '1_000', '9223372036854775807', '9223372036854775808', '0.0', '1.5', '1e10',
               '1E10', '1e+10', '1e-10', '1.0e-3', '1_0.0_1', '1e308', '1e309', '1e400', '0e0', '1.e5', '.5',
               '1n', '0n', '1e400n', '1_0n', '1.5n', '1.0e-400n', '0.0n', '1e-5n', '12345678901234567890123n',
               '1e5n', '1.e5n', '00n', '-1', '- 1', '-1.5', '-1n', '-1.5n', '--1', '-+1', '+-1', '- - 1',
               '-(1)', '(-1)', '-(-1)', '+1', '0x10', '1f', '1.5e', 'true', 'false', 'TRUE', 'False']


def _fixed_literals():
    import os
    out = []
    with open(os.path.join(os.path.dirname(__file__), 'c01_literals.txt'), encoding='utf-8') as f:
        for line in f.read().split('\n'):
            if not line or line.startswith('# '):
                continue
            out.append(line.replace('<NL>', '\n').replace('<TAB>', '\t').replace('<CR>', '\r'))
    return out


FIXED_LITERALS = _fixed_literals()


def fixed_literals():
    ctxs = ['select {L}', 'select ({L}, {L})', 'select f(a := {L})', 'create type A {{ create annotation t := {L} }}',
            'select x filter .a = {L}', "select 'i\\({L})j'".replace(chr(92) * 2, chr(92))]
    i = 0
    for lit in FIXED_LITERALS + NUM_SOURCES:
        for c in ctxs[:2] if lit in NUM_SOURCES else ctxs:
            i += 1
            yield (f'fixedlit:{i}', 'block', c.replace('{L}', lit).replace('{{', '{').replace('}}', '}'))


def literals(rng, n):
    for i in range(n):
        k = rng.random()
        if k < 0.6:
            lit = str_literal_source(rng)
        elif k < 0.8:
            lit = bytes_literal_source(rng)
        else:
            lit = rng.choice(NUM_SOURCES)
        ctx = rng.choice(['select {L}', 'select {L} ++ {L}', 'select <str>{L}', 'select f({L})', 'select x[{L}]',
                          'select {L} ^ 2', 'select 2 ^ {L}', 'select ({L}).a', 'select {L} {{ a }}',
                          'create type A {{ create annotation title := {L} }}',
                          'alter type A set default := {L}',
                          'select {{ a := {L} }}', 'for x in {L} union x', 'select ({L}, {L})', 'select [{L}]',
                          'select {L} if {L} else {L}', 'select {L}[1]', 'select {L} is str', 'select -{L}',
                          'select not {L}', 'select <int64>{L} ^ 2', 'select x filter {L}',
                          "select 'a\\({L})b'"])
        text = ctx
        while '{L}' in text:
            text = text.replace('{L}', lit if rng.random() < 0.7 else
                                (str_literal_source(rng) if rng.random() < 0.6 else rng.choice(NUM_SOURCES)), 1)
        text = text.replace('{{', '{').replace('}}', '}')
        yield (f'literal:{i}', 'block', text)


# ----------------------------------------------------------------------------- identifiers
IDENT_TEMPLATES = [
    ('block', 'select {N}'), ('block', 'select {N}::{N}'), ('block', 'select {N}::{M}::{N}'),
    ('block', 'select x.{N}'), ('block', 'select x.<{N}'), ('block', 'select x@{N}'), ('block', 'select .{N}'),
    ('block', 'select x.<{N}[is {N}]'), ('block', 'select x {{ {N} := 1 }}'), ('block', 'select x {{ {N} }}'),
    ('block', 'select x {{ {N}: {{ {N} }} }}'), ('block', 'select x {{ @{N} }}'), ('block', 'select x {{ [is {N}].{N} }}'),
    ('block', 'select x {{ {N}.* }}'), ('block', 'select {{ {N} := 1 }}'),
    ('block', 'with {N} := 1 select 1'), ('block', 'for {N} in x union 1'), ('block', 'select {N} := x filter {N}'),
    ('block', 'select ${P}'), ('block', 'select <int64>${P}'),
    ('block', 'select {N}(1)'), ('block', 'select {N}::{N}(1)'), ('block', 'select f({N} := 1)'),
    ('block', 'select ({N} := 1)'), ('block', 'select <{N}>x'), ('block', 'select <tuple<{N}: int64>>x'),
    ('block', 'select <array<{N}::{N}>>x'), ('block', 'select x is {N}'), ('block', 'select x[is {N}]'),
    ('block', 'select global {N}'), ('block', 'select global {N}::{N}'), ('block', 'select introspect {N}'),
    ('block', 'with module {N} select 1'), ('block', 'with module {N}::{N} select 1'),
    ('block', 'with {N} as module std select 1'),
    ('block', 'group x using {N} := 1 by {N}'), ('block', 'group {N} := x by .{N}'),
    ('block', 'for group x using {N} := 1 by {N} in {N} union 1'),
    ('block', 'for group x using a := 1 by a in g, {N} union 1'),
    ('block', 'select x order by .{N} then .{N} desc'),
    ('block', 'insert {N} {{ {N} := 1 }}'), ('block', 'update {N} set {{ {N} += 1 }}'), ('block', 'delete {N}'),
    ('block', 'insert {N}::{N} unless conflict on .{N} else (select {N})'),
    ('block', 'set module {N}'), ('block', 'set alias {N} as module std'), ('block', 'reset alias {N}'),
    ('block', 'set global {N} := 1'), ('block', 'reset global {N}::{N}'),
    ('block', 'create type {N}'), ('block', 'create type {N}::{N}'), ('block', 'create type {M}::{N}'),
    ('block', 'create type A {{ create property {N}: str }}'), ('block', 'create type A {{ create link {N}: {N} }}'),
    ('block', 'create type A {{ create multi link {N}: {N} {{ create property {N}: str }} }}'),
    ('block', 'create type A {{ create constraint {N} }}'), ('block', 'create type A {{ create constraint {N}::{N}(1) on (.{N}) }}'),
    ('block', "create type A {{ create annotation {N} := 'x' }}"), ('block', 'create type A {{ create index on (.{N}) }}'),
    ('block', 'create type A {{ create index {N}::{N} on (.a) }}'), ('block', 'create type A {{ create index {N}({N} := 1) on (.a) }}'),
    ('block', 'create type A {{ create access policy {N} allow all }}'),
    ('block', 'create type A {{ create trigger {N} after insert for each do (1) }}'),
    ('block', 'create type A extending {N}, {N}::{N}'),
    ('block', 'create function {N}({N}: int64) -> int64 using (1)'),
    ('block', 'create function {N}::{N}(named only {N}: {N} = 1, variadic {N}: {N}) -> set of {N} using (1)'),
    ('block', 'create module {N}'), ('block', 'create module {N}::{N}'), ('block', 'create alias {N} := 1'),
    ('block', 'create global {N}: str'), ('block', 'create global {N}::{N} := 1'),
    ('block', 'create role {N}'), ('block', 'create superuser role {N} extending {N}'),
    ('block', 'create database {N}'), ('block', 'create empty branch {N}'), ('block', 'create schema branch {N} from {N}'),
    ('block', 'drop branch {N}'), ('block', 'alter branch {N} rename to {N}'),
    ('block', 'create extension {N}'), ('block', "create extension {N} version '1.0'"), ('block', 'create future {N}'),
    ('block', "create extension package {N} version '1.0'"),
    ('block', 'create migration {N} onto {N} {{}}'), ('block', 'declare savepoint {N}'),
    ('block', 'release savepoint {N}'), ('block', 'rollback to savepoint {N}'),
    ('block', 'configure session set {N} := 1'), ('block', 'configure instance set {N}::{N} := 1'),
    ('block', 'configure instance insert {N} {{ {N} := 1 }}'), ('block', 'configure current branch reset {N}'),
    ('block', 'configure current branch reset {N} filter .{N} = 1'),
    ('block', 'describe type {N}'), ('block', 'describe object {N}::{N} as sdl'), ('block', 'describe function {N} as text verbose'),
    ('block', 'create scalar type {N} extending enum<{N}, {N}>'), ('block', 'create scalar type {N} extending {N}::{N}'),
    ('block', 'create abstract constraint {N}({N}: int64) on (.{N})'),
    ('block', 'alter type {N} rename to {N}'), ('block', 'drop type {N}'), ('block', 'create abstract link {N}'),
    ('block', 'create abstract property {N}::{N}'),
    ('block', 'alter type A alter property {N} set required'), ('block', 'alter type A alter link {N} rename to {N}'),
    ('block', 'alter type A drop property {N}'), ('block', 'alter type A drop constraint {N}'),
    ('block', 'alter type A alter access policy {N} rename to {N}'),
    ('block', 'create abstract annotation {N}'), ('block', 'create abstract inheritable annotation {N}::{N}'),
    ('block', 'create abstract index {N}'), ('block', 'create abstract index {N}({N}: str)'),
    ('block', 'alter type A set {N} := 1'), ('block', 'alter type A reset {N}'),
    ('block', 'create cast from {N} to {N} {{ using sql cast }}'),
    ('block', 'create infix operator {N}::`+`({N}: int64, {N}: int64) -> int64 using sql operator r\'+\''),
    ('block', 'administer {N}()'), ('block', 'analyze select {N}'),
    ('sdl', 'type {N}'), ('sdl', 'type {N} {{ property {N}: str; link {N}: {N}; }}'),
    ('sdl', 'type {N} {{ required multi {N}: {N}; {N} := 1; }}'),
    ('sdl', 'module {N} {{ type {N}; }}'), ('sdl', 'module {N} {{ module {N} {{ type {N} }} }}'),
    ('sdl', 'function {N}({N}: int64) -> int64 using (1);'), ('sdl', 'alias {N} := 1;'), ('sdl', 'global {N}: str;'),
    ('sdl', 'scalar type {N} extending enum<{N}>;'), ('sdl', 'abstract constraint {N}({N}: str);'),
    ('sdl', 'abstract link {N};'), ('sdl', 'abstract annotation {N};'), ('sdl', 'using extension {N};'),
    ('sdl', 'using future {N};'), ('sdl', 'type A {{ constraint {N} on (.{N}); index on (.{N}); annotation {N} := \'a\'; }}'),
    ('sdl', 'type A {{ access policy {N} allow all; trigger {N} after update for each do (1); }}'),
    ('sdl', 'type {N}::{N};'), ('sdl', 'type A extending {N}::{N};'),
    ('fragment', '{N}.{N}'), ('fragment', '{N}::{N}'), ('migration', 'create type {N};'),
]


def ident_source(rng, name):
    if re.fullmatch(r'[A-Za-z_][A-Za-z0-9_]*', name) and rng.random() < 0.35:
        return name                      # bare (valid only for non-reserved words; else rejected = skipped)
    return gen.bq(name)


def idents(rng, n, odd):
    all_odd = [i for v in odd.values() for i in v]
    for i in range(n):
        entry, tpl = rng.choice(IDENT_TEMPLATES)
        text = tpl
        one = rng.choice(all_odd)
        while '{N}' in text:
            nm = one if rng.random() < 0.6 else rng.choice(all_odd + gen.PLAIN_IDENTS * 10)
            text = text.replace('{N}', ident_source(rng, nm), 1)
        while '{M}' in text:
            text = text.replace('{M}', '::'.join(ident_source(rng, rng.choice(all_odd + gen.PLAIN_IDENTS * 5))
                                                 for _ in range(rng.randint(1, 3))), 1)
        while '{P}' in text:
            nm = rng.choice(all_odd + ['0', '1', '10', 'p'])
            text = text.replace('{P}', nm if re.fullmatch(r'[A-Za-z_][A-Za-z0-9_]*|\d+', nm) and rng.random() < 0.6
                                else gen.bq(nm), 1)
        text = text.replace('{{', '{').replace('}}', '}')
        yield (f'ident:{i}', entry, text)


# ----------------------------------------------------------------------------- token mutants
def mutate_text(rng, text, lexres, odd_all):
    """replace some IDENT / literal tokens of an accepted text"""
    if lexres.error or not lexres.toks:
        return None
    data = text.encode('utf-8')
    toks = [t for t in lexres.toks if t.kind in ('Ident', 'Str', 'IntConst', 'FloatConst', 'BigIntConst',
                                                 'DecimalConst', 'BinStr')]
    if not toks:
        return None
    k = rng.randint(1, min(3, len(toks)))
    chosen = sorted(rng.sample(toks, k), key=lambda t: -t.start)
    for t in chosen:
        if t.kind == 'Ident':
            new = gen.bq(rng.choice(odd_all))
        elif t.kind == 'Str':
            new = str_literal_source(rng)
        elif t.kind == 'BinStr':
            new = bytes_literal_source(rng)
        else:
            new = rng.choice([s for s in NUM_SOURCES if s[0].isdigit()])
        data = data[:t.start] + new.encode('utf-8') + data[t.end:]
    return data.decode('utf-8', 'replace')


# ----------------------------------------------------------------------------- statements
STMT_TEMPLATES = [
    'select {E}', 'select {E} filter {E} order by {E} asc empty first then {E} desc empty last offset {E} limit {E}',
    'with a := {E}, module m, b as module std::cal select {E}', 'select a := {E} filter a',
    'for x in {A} union {E}', 'for optional x in {A} union {E}', 'for x in {A} select {E}',
    'for x in {A} for y in {A} union {E}', 'for x in {A} insert Foo {{ a := {E} }}',
    'with w := {E} for x in {A} union (with q := {E} select {E})',
    'insert Foo {{ a := {E}, multi b := {E}, required single c := {E}, @lp := {E} }}',
    'insert Foo {{ a := {E} }} unless conflict', 'insert Foo unless conflict on {E}',
    'insert Foo {{ a := 1 }} unless conflict on {E} else {E}',
    'update {E} filter {E} set {{ a := {E}, b += {E}, c -= {E}, d: {{ @e := {E} }} }}',
    'delete {E} filter {E} order by {E} offset {E} limit {E}',
    'group {E} by .a', 'group x := {E} using a := {E}, b := {E} by a, b', 'group {E} using a := {E} by cube (a, .b)',
    'group {E} using a := {E}, b := 1 by {{a, rollup (a, b), (a, b), ()}}',
    'select {E} {{ a, b: {{ c }} filter {E} order by {E} offset {E} limit {E}, d := {E}, [is T].e, multi f := {E}, '
    'optional g := {E}, required multi h := {E}, *, **, T.*, [is T].**, x: {{ y := {E} }} }}',
    'select {{ a := {E}, b := {E} }}', 'select {E} {{ a := {E} }} {{ b := {E} }}',
    'select f({E}, {E}, k := {E})', 'select f({E} filter {E} order by {E})',
    'select ({E} if {E} else {E})', 'select if {E} then {E} else {E}', 'select if {E} then {E} else if {E} then {E} else {E}',
    'select {E} if {E} else {E} if {E} else {E}',
    'select (a := {E}, b := {E})', 'select ({E},)', 'select ({E}, {E})', 'select [{E}, {E}]', 'select {{{E}, {E}}}',
    'select {E}[{E}]', 'select {E}[{E}:{E}]', 'select {E}[{E}:]', 'select {E}[:{E}]', 'select {E}[{E}][{E}:{E}]',
    'select <T>{E}', 'select <optional T>{E}', 'select <required T>{E}', 'select <array<T>>{E}',
    'select <tuple<a: T, b: array<U>>>{E}', 'select <T | U>{E}', 'select <typeof {E}>{E}', 'select {E} is (T | U & V)',
    'select {E} is not typeof {E}', 'select introspect (typeof {E})', 'select detached {E}', 'select exists {E}',
    'select distinct {E}', 'select not {E}', 'select -{E}', 'select +{E}',
    "select 'a\\({E})b\\({E})c'", 'select {E}.a.<b[is T]@c', 'select {E}.0', 'select {E}.a.1.b',
    'select assert_single((select {E}))', 'select ((select {E}), (insert Foo), (delete {E}), (update {E} set {{a := 1}}), '
    '(for x in {A} union {E}), (group {E} by .a), (with a := 1 select a))',
    'select count({E}) over (partition by {E} order by {E})' ,
    'analyze select {E}', 'analyze (buffers) select {E}'.replace('(buffers) ', ''),
    'describe schema', 'describe schema as ddl', 'describe schema as sdl', 'describe roles', 'describe instance config',
    'describe system config as ddl', 'describe current database config', 'describe current branch config',
    'describe current migration as json', 'describe current migration as ddl', 'describe type Foo as text verbose',
    'describe module m', 'describe object Foo as sdl', 'describe function f', 'describe scalar type T',
    'describe constraint c', 'describe link l', 'describe property p', 'describe annotation a', 'describe alias a',
    'describe operator `+`', 'describe cast c'.replace('cast c', 'type c'),
    'start transaction', 'start transaction isolation serializable, read only, deferrable',
    'start transaction isolation repeatable read, read write, not deferrable', 'start transaction read only',
    'commit', 'rollback', 'declare savepoint s', 'release savepoint s', 'rollback to savepoint s',
    'set module m', 'set alias a as module m::n', 'reset module', 'reset alias a', 'reset alias *',
    'set global g := {E}', 'reset global g', 'configure session set x := {E}', 'configure instance set m::x := {E}',
    'configure current branch set x := {E}', 'configure current database set x := {E}', 'configure system set x := {E}',
    'configure instance insert Foo {{ a := {E}, b := (insert Bar {{ c := {E} }}) }}',
    'configure session reset x', 'configure instance reset Foo filter {E}',
    'administer vacuum()', 'administer statistics_update(Foo, full := {E})', 'administer f({E}, k := {E})',
    'start migration to {{ type A {{ property a: str {{ default := {E} }} }} }}', 'populate migration', 'commit migration',
    'abort migration', 'start migration to committed schema', 'start migration rewrite', 'commit migration rewrite',
    'abort migration rewrite', 'alter current migration reject proposed', 'reset schema to initial',
    'create migration {{ create type A; alter type A create property a: str; }}',
    "create migration m1 onto m0 {{ set message := 'x'; create type A {{ create property a := {E} }}; }}",
    'create applied migration m1 onto initial {{ create type A; }}', 'alter migration m1 set message := \'m\'',
    'drop migration m1',
    # DDL with expressions
    'create type A {{ create property a: str {{ set default := {E}; create constraint c({E}, {E}) on ({E}) except ({E}) {{ set errmessage := \'m\' }} }} }}',
    'create type A {{ create required multi link l: B {{ on target delete allow; on source delete delete target; create property p := {E} }} }}',
    'create type A {{ create property a := {E}; create link b := {E}; create multi property c := {E} }}',
    'create type A {{ create index on ({E}) except ({E}); create index pg::gin on ({E}); create index fts::index(language := {E}) on ({E}); create deferred index on ({E}) }}',
    'create type A {{ create access policy p when ({E}) allow select, insert, update read, update write, delete using ({E}) {{ set errmessage := \'e\' }} }}',
    'create type A {{ create access policy p deny all; create access policy q allow update using ({E}) }}',
    'create type A {{ create trigger t after update, delete, insert for each when ({E}) do ({E}) }}',
    'create type A {{ create trigger t after insert for all do ({E}) }}',
    'create type A {{ create property a: str {{ create rewrite insert, update using ({E}) }} }}',
    'create type A {{ create constraint expression on ({E}) }}', 'create type A {{ create delegated constraint exclusive on ({E}) }}',
    'alter type A {{ alter property a {{ set type T using ({E}); set required using ({E}); set multi using ({E}); set default := {E}; reset default; drop owned; set owned; reset optionality; reset cardinality; set single }} }}',
    'alter type A {{ alter link l {{ set type B; on target delete restrict; reset on target delete; alter property p rename to q; drop constraint c({E}) on ({E}) }} }}',
    'alter type A {{ drop index on ({E}) except ({E}); alter index on ({E}) set annotation title := \'t\'; drop access policy p; drop trigger t; extending B first; extending C before D; extending C after D; extending C last; drop extending B }}',
    'alter type A {{ alter access policy p {{ when ({E}); reset when; allow select; deny all; using ({E}); reset expression }}; alter trigger t using ({E}); alter property a alter rewrite insert using ({E}); alter property a drop rewrite update }}',
    'create alias A := {E}', 'create alias A {{ using ({E}); create annotation title := \'t\' }}', 'alter alias A using ({E})',
    'create global g := {E}', 'create required multi global g: T {{ set default := {E} }}', 'create global g {{ using ({E}) }}',
    'alter global g {{ set type T reset to default; set type T using ({E}); using ({E}); reset default; set optional; set required }}',
    'create function f(a: int64 = {E}, named only b: optional str = {E}, variadic c: set of T) -> set of T using ({E})',
    'create function f() -> optional T {{ set volatility := \'Immutable\'; create annotation title := \'t\'; using ({E}) }}',
    "create function f(a: T) -> T using sql $$ select 1 $$", "create function f(a: T) -> T {{ using sql function 'x' }}",
    'create function f(a: T) -> T using sql expression', 'alter function f(a: T) {{ using ({E}); set volatility := \'Stable\'; rename to g }}',
    'drop function f(a: T, named only b: U)',
    'create abstract constraint c(a: T, b: U) on ({E}) extending d, e {{ using ({E}); set errmessage := \'m\' }}',
    'alter abstract constraint c {{ using ({E}); reset expression; set delegated; set not delegated; reset delegated }}'.replace('set delegated; set not delegated; reset delegated', 'rename to d'),
    'create scalar type T extending int64 {{ create constraint max_value({E}); create constraint expression on ({E}) }}',
    'create abstract scalar type T', 'create final scalar type T extending enum<A, B>'.replace('final ', ''),
    'create abstract index i(named only a: str = {E}) {{ set code := \'c\' }}', 'create abstract index i using a(b := {E}), c',
    'create abstract link l extending m {{ create property p: str; create index on ({E}) }}',
    'create abstract property p {{ set readonly := true }}',
    'create abstract annotation a', 'create abstract inheritable annotation a', 'alter abstract annotation a rename to b',
    'create module m if not exists', 'create type A if not exists'.replace(' if not exists', ''), 'drop module m',
    'create role r {{ set password := \'p\' }}', 'alter role r {{ extending a, b; drop extending c; set password := {E}; reset password }}',
    'create cast from A to B {{ using sql function \'f\'; allow implicit; allow assignment; set volatility := \'Stable\' }}',
    'create cast from A to B {{ using sql cast }}', 'create cast from A to B {{ using sql expression }}',
    'create cast from A to B {{ using sql $$ select 1 $$ }}', 'alter cast from A to B create annotation t := \'x\'',
    'drop cast from A to B',
    "create infix operator std::`+`(l: T, r: T) -> T {{ set commutator := 'std::+'; using sql operator r'+' }}",
    "create prefix operator std::`-`(l: T) -> T using sql function 'f'", "create abstract infix operator std::`=`(l: anytype, r: anytype) -> bool",
    "create postfix operator std::`!`(l: T) -> T using sql expression", "create ternary operator std::`IF`(a: T, b: bool, c: T) -> T using sql $$x$$",
    'alter infix operator std::`+`(l: T, r: T) create annotation t := \'x\'', 'drop infix operator std::`+`(l: T, r: T)',
    'create index match for T using i', 'drop index match for T using i',
    'create extension package p version \'1.0\' {{ set ext_module := \'m\'; create module m; create type m::A {{ create property a := {E} }} }}',
    'create extension package p migration from version \'1.0\' to version \'2.0\' {{ create type A }}',
    'drop extension package p version \'1.0\'', 'drop extension package p migration from version \'1.0\' to version \'2.0\'',
    'create extension e version \'1.0\'', 'alter extension e to version \'2.0\'', 'drop extension e', 'create future f', 'drop future f',
    'create database d', 'drop database d', 'create empty branch b', 'create schema branch b from c', 'create data branch b from c',
    'create template branch b from c', 'alter branch b rename to c', 'alter branch b force rename to c', 'drop branch b',
    'drop branch b force', 'create pseudo type t',
]

SDL_TEMPLATES = [
    'type A {{ required property a: str {{ default := {E}; constraint c({E}) on ({E}) except ({E}); readonly := true; annotation t := \'x\' }}; }}',
    'type A {{ a: str; required b: B; multi c: C {{ p: str; on target delete allow }}; optional single d := {E}; overloaded e: E; }}',
    'type A {{ property a := {E}; link b := {E}; multi property c := {E}; required link d := {E}; }}',
    'type A extending B, C {{ index on ({E}) except ({E}); index pg::gin on ({E}); index i(a := {E}) on ({E}); deferred index on ({E}); }}',
    'type A {{ access policy p when ({E}) allow select, update read using ({E}) {{ errmessage := \'e\' }}; access policy q deny all; }}',
    'type A {{ trigger t after update, insert for each when ({E}) do ({E}); trigger u after delete for all do ({E}); }}',
    'type A {{ property a: str {{ rewrite insert, update using ({E}) }}; constraint expression on ({E}); delegated constraint exclusive; }}',
    'abstract type A; abstract constraint c(a: T) on ({E}) extending d {{ using ({E}); errmessage := \'m\' }};',
    'scalar type T extending int64 {{ constraint max_value({E}) }}; scalar type E extending enum<A, B>; abstract scalar type S;',
    'abstract link l {{ property p: str; index on ({E}) }}; abstract property p {{ readonly := true }};',
    'abstract annotation a; abstract inheritable annotation b; abstract index i(a: str) {{ code := \'c\' }};',
    'alias A := {E}; alias B {{ using ({E}); annotation t := \'x\' }};',
    'global g := {E}; required global h: T {{ default := {E} }}; global i {{ using ({E}) }}; multi global j := {E};',
    'function f(a: int64 = {E}, named only b: optional str = {E}, variadic c: set of T) -> set of T using ({E});',
    'function f() -> optional T {{ volatility := \'Immutable\'; annotation t := \'x\'; using ({E}) }};',
    'function f(a: T) -> T using sql $$ select 1 $$; function g(a: T) -> T {{ using sql function \'x\' }};',
    'module m {{ type A {{ a: str }}; module n {{ alias B := {E} }}; function f() -> T using ({E}) }}',
    'using extension e; using extension f version \'1.0\'; using future g; module default {{ }}',
    'type A {{ multi link l extending m: B {{ extending n; on source delete delete target if orphan; }} }}',
    'type A {{ overloaded required property a extending b: str; overloaded link c: D {{ constraint exclusive }} }}',
]


def stmts(rng, g, n, depth=2):
    """templates filled with generated expression texts ({E}: any expression through the safe printer;
    {A}: an atomic expression (FOR iterator))"""
    ql = g.qlast
    tpls = [('block', t) for t in STMT_TEMPLATES] + [('sdl', t) for t in SDL_TEMPLATES]
    for i in range(n):
        entry, tpl = tpls[i % len(tpls)] if i < len(tpls) else rng.choice(tpls)
        text = tpl
        odd = rng.choice([0.0, 0.0, 0.3])
        while '{E}' in text:
            try:
                e = gen.safe_text(g.expr(rng.randint(0, depth), odd, 0.3))
            except Exception:
                e = 'x'
            if rng.random() < 0.8:
                e = '(' + e + ')'
            text = text.replace('{E}', e, 1)
        while '{A}' in text:
            try:
                e = '(' + gen.safe_text(g.expr(rng.randint(0, depth), odd, 0.3)) + ')'
            except Exception:
                e = 'x'
            text = text.replace('{A}', e, 1)
        text = text.replace('{{', '{').replace('}}', '}')
        yield (f'stmt:{i}', entry, text)


# ----------------------------------------------------------------------------- command-block subsets of upstream seeds
def block_subsets(rng, text, lexres, max_variants=4, all_single=False):
    """text-level variants of an accepted text in which ONE `{ c1; c2; ... }` block keeps exactly one (or two) of
    its commands -- the minimal shapes the printer's `pure_computable` / `allow_short` / `render_commands`
    decisions hinge on, derived from upstream's own inputs without going through the printer."""
    if lexres.error or not lexres.toks:
        return
    data = text.encode('utf-8')
    toks = lexres.toks
    stack, blocks = [], []          # blocks: (open_tok, close_tok, [(start, end) of each command])
    cur = []
    for t in toks:
        if t.kind == 'OpenBrace':
            stack.append((t, cur))
            cur = {'start': t.end, 'cmds': []}
        elif t.kind == 'CloseBrace' and stack:
            ot, outer = stack.pop()
            if isinstance(cur, dict):
                if cur['start'] < t.start and data[cur['start']:t.start].strip():
                    cur['cmds'].append((cur['start'], t.start))
                blocks.append((ot, t, cur['cmds']))
            cur = outer
        elif t.kind == 'Semicolon' and isinstance(cur, dict):
            cur['cmds'].append((cur['start'], t.start))
            cur['start'] = t.end
    blocks = [b for b in blocks if len(b[2]) >= 2]
    if not blocks:
        return
    picks = []
    if all_single:
        for b in blocks:
            for c in b[2]:
                picks.append((b, [c]))
    else:
        for _ in range(max_variants):
            b = rng.choice(blocks)
            k = 1 if rng.random() < 0.7 else 2
            picks.append((b, sorted(rng.sample(b[2], min(k, len(b[2]))))))
    for (ot, ct, _cmds), keep in picks:
        inner = b'; '.join(data[s:e].strip() for s, e in keep)
        yield (data[:ot.end] + b' ' + inner + b' ' + data[ct.start:]).decode('utf-8', 'replace')
