"""C03 — DESCRIBE output rebuilds the same schema.

Proof: lean/EdbVerif/Props/C03.lean over Model/Describe.lean (names, schema
algebra, describe/replay for DDL and SDL, token printer/parser).

Tie (level 2, through the front-end bridge = the REAL schema engine):
  * schemas from a feature-directed SDL generator are loaded by the real
    ``apply_sdl``; ``ddl_text_from_schema`` / ``sdl_text_from_schema`` are
    re-applied to a std-only schema under several session contexts (default
    module, another module, module aliases incl. aliases that shadow a module
    name) and the rebuilt schema is compared with the original (delta empty
    both ways + a dump of every user object and field);
  * every schema is abstracted into the model's schema algebra; the model's
    predicted outcome of describe+replay for the same context is compared with
    the real outcome (driver op ``D``);
  * the abstraction is checked against the real text: every owned user object
    is a ``CREATE`` in the real DDL/SDL AST, the qualified names in the real
    text are the names of the abstraction;
  * name resolution (level 1): real ``FlatSchema.get`` with ``module_aliases``,
    real ``QualifiedObjectCommand._classname_from_ast`` and real
    ``tracer.resolve_name`` vs the model (ops ``R``/``C``/``T``);
  * the printed-field table per schema class extracted from the real
    ``Field.allow_ddl_set`` / ``ddl_identity`` / ``get_ast_attr_for_field`` /
    ``_apply_field_ast`` vs the model's table (op ``F``).
"""
from __future__ import annotations

import collections
import collections.abc
import copy
import enum
import hashlib
import inspect
import json
import re
import time
import uuid

from lib import core
from props import c03_exprgen, c03_history, c03_scope

PROPS = 'EdbVerif/Props/C03.lean'
REQUIRED = [
    'EdbVerif.C03.resolve_qualified_ctx_independent', 'EdbVerif.C03.resolve_qualified_cur_independent',
    'EdbVerif.C03.resolve_qualified_shadowed', 'EdbVerif.C03.define_qualified_ctx_independent',
    'EdbVerif.C03.C03_ddl', 'EdbVerif.C03.C03_sdl', 'EdbVerif.C03.C03_ctx_independent',
    'EdbVerif.C03.parse_print', 'EdbVerif.C03.C03_alias_shadow_counterexample',
    'EdbVerif.C03.C03_alias_shadow_not_equiv', 'EdbVerif.C03.C03_sdl_default_counterexample',
]

# ------------------------------------------------------------------ generator
# A feature-directed SDL generator.  Every declaration is tagged with the
# features it exercises; the histogram goes into the evidence.

SCALARS = ['str', 'int64', 'int32', 'float64', 'bool', 'datetime', 'uuid', 'json', 'bigint', 'decimal']
STRY = ['str']
MODULE_SETS = [
    ['default'], ['default', 'a'], ['default', 'a', 'a::b'], ['default', 'm1', 'm2'],
    ['default', 'a', 'a::b', 'a::b::c'], ['default', 'other'], ['a', 'b'], ['default', 'b', 'b::sub'],
]


class Gen:
    def __init__(self, rng, size):
        self.rng = rng
        self.size = size
        self.feats = collections.Counter()
        self.mods = list(rng.choice(MODULE_SETS))
        self.decls = {m: [] for m in self.mods}      # module -> [text]
        self.types = []        # (module, name, abstract, props{name:(scalar, multi)}, links{name:target})
        self.typebodies = {}   # (module, name) -> (header, [body lines]); rendered at the end
        self.ancestors = {}    # (module, name) -> set of (module, name)
        self.plain_links = []  # (owner module, owner name, link name, target module, target name)
        self.computed = set()  # types that carry a computed pointer
        self.mi_ancestors = set()   # ancestors of a type with several bases
        self.scalars = []      # (module, name, base)
        self.enums = []        # (module, name, [values])
        self.annos = []        # (module, name)
        self.absconstraints = []   # (module, name)
        self.abslinks = []     # (module, name)
        self.globals_ = []     # (module, name, scalar)
        self.funcs = []        # (module, name, argtype, rettype)
        self.n = 0

    def feat(self, *fs):
        for f in fs:
            self.feats[f] += 1

    def fresh(self, prefix):
        self.n += 1
        return f'{prefix}{self.n}'

    def q(self, here, mod, name):
        """refer to mod::name from module `here`: sometimes unqualified when legal"""
        if mod == here and self.rng.random() < 0.5:
            return name
        return f'{mod}::{name}'

    def mod(self):
        return self.rng.choice(self.mods)

    # -- declarations ------------------------------------------------------
    def gen_anno(self):
        m = self.mod()
        n = self.fresh('anno')
        inh = self.rng.random() < 0.4
        self.decls[m].append(f'abstract {"inheritable " if inh else ""}annotation {n};')
        self.annos.append((m, n))
        self.feat('abstract_annotation', *(['inheritable_annotation'] if inh else []))

    def anno_body(self, here):
        out = []
        r = self.rng
        if r.random() < 0.25:
            out.append(f"annotation title := 'T {self.fresh('t')}';")
            self.feat('annotation_std')
        if self.annos and r.random() < 0.3:
            m, n = r.choice(self.annos)
            out.append(f"annotation {self.q(here, m, n)} := 'v{self.n}';")
            self.feat('annotation_user')
        return out

    def gen_scalar(self):
        m = self.mod()
        r = self.rng
        n = self.fresh('S')
        k = r.random()
        if k < 0.35:
            vals = [f'V{i}' for i in range(r.randint(1, 4))]
            self.decls[m].append(f'scalar type {n} extending enum<{", ".join(vals)}>;')
            self.enums.append((m, n, vals))
            self.feat('enum')
        else:
            base = r.choice(['str', 'int64', 'float64'])
            body = []
            if base == 'str':
                c = r.choice(['max_len_value(%d)' % r.randint(5, 50), 'min_len_value(1)',
                              "regexp(r'[a-z]+')", "one_of('a', 'b', 'c')"])
            else:
                c = r.choice(['min_value(0)', 'max_value(100)'])
            if r.random() < 0.7:
                body.append(f'constraint {c};')
                self.feat('scalar_constraint')
            if self.absconstraints and base != 'str' and r.random() < 0.3:
                cm, cn = r.choice(self.absconstraints)
                body.append(f'constraint {self.q(m, cm, cn)}({r.randint(1, 9)});')
                self.feat('user_constraint_use')
            body += self.anno_body(m)
            self.decls[m].append(f'scalar type {n} extending {base}' +
                                 (' { ' + ' '.join(body) + ' }' if body else ';'))
            self.scalars.append((m, n, base))
            self.feat('scalar')

    def gen_absconstraint(self):
        m = self.mod()
        n = self.fresh('con')
        self.decls[m].append(
            f"abstract constraint {n}(v: std::int64) {{ errmessage := 'bad {n}'; "
            f"using (__subject__ <= v); }}")
        self.absconstraints.append((m, n))
        self.feat('abstract_constraint')

    def gen_abslink(self):
        m = self.mod()
        n = self.fresh('al')
        body = ['property weight -> int64;'] if self.rng.random() < 0.7 else []
        body += self.anno_body(m)
        self.decls[m].append(f'abstract link {n}' + (' { ' + ' '.join(body) + ' }' if body else ';'))
        self.abslinks.append((m, n))
        self.feat('abstract_link')

    def gen_global(self):
        m = self.mod()
        r = self.rng
        n = self.fresh('g')
        k = r.random()
        if k < 0.5 or not self.types:
            sc = r.choice(['str', 'int64', 'uuid'])
            dflt = {'str': "'x'", 'int64': '1', 'uuid': '<uuid>"00000000-0000-0000-0000-000000000000"'}[sc]
            if r.random() < 0.4:
                self.decls[m].append(f'required global {n} -> {sc} {{ default := {dflt}; }}')
                self.feat('global_required_default')
            else:
                self.decls[m].append(f'global {n} -> {sc};')
                self.feat('global')
            self.globals_.append((m, n, sc))
        else:
            tm, tn, *_ = r.choice(self.types)
            self.decls[m].append(f'global {n} := (select {self.q(m, tm, tn)} limit 1);')
            self.feat('global_computed')

    def gen_function(self):
        m = self.mod()
        r = self.rng
        n = self.fresh('f')
        k = r.random()
        if k < 0.4 or not self.types:
            extra = ''
            if r.random() < 0.3:
                extra = ', named only d: std::str = "z"'
                self.feat('function_named_default')
            body = "x ++ '!'" + (' ++ d' if extra else '')
            vol = r.choice(['', '', ' volatility := "Immutable";'])
            if vol:
                self.decls[m].append(f'function {n}(x: str{extra}) -> str {{{vol} using ({body}); }}')
                self.feat('function_volatility')
            else:
                self.decls[m].append(f'function {n}(x: str{extra}) -> str using ({body});')
            self.funcs.append((m, n, 'str', 'str'))
            self.feat('function')
            if not extra and r.random() < 0.25:
                self.decls[m].append(f'function {n}(x: int64) -> str using (<str>x);')
                self.feat('function_overload')
        else:
            tm, tn, ab, props, links = r.choice(self.types)
            sp = [p for p, (sc, multi, _c) in props.items() if sc == 'str' and not multi]
            if sp:
                p = r.choice(sp)
                self.decls[m].append(
                    f'function {n}(x: str) -> optional str using '
                    f'((select {self.q(m, tm, tn)} filter .{p} = x limit 1).{p});')
            else:
                self.decls[m].append(
                    f'function {n}() -> int64 using (count({self.q(m, tm, tn)}));')
            self.feat('function_over_type')

    def scalar_ref(self, here):
        r = self.rng
        k = r.random()
        if self.scalars and k < 0.2:
            m, n, base = r.choice(self.scalars)
            return self.q(here, m, n), base, True
        if self.enums and k < 0.3:
            m, n, vals = r.choice(self.enums)
            return self.q(here, m, n), 'enum:' + vals[0], True
        sc = r.choice(SCALARS)
        return (sc if r.random() < 0.7 else f'std::{sc}'), sc, False

    def gen_type(self):
        m = self.mod()
        r = self.rng
        n = self.fresh('T')
        abstract = r.random() < 0.25
        bases = []
        cands = [t for t in self.types if t[2] or r.random() < 0.3]
        if cands and r.random() < 0.5:
            k = 1 if r.random() < 0.6 else 2
            for t in r.sample(cands, min(k, len(cands))):
                key = (t[0], t[1])
                if any(key in self.ancestors[(b[0], b[1])] or (b[0], b[1]) in self.ancestors[key]
                       or (b[0], b[1]) == key for b in bases):
                    continue
                # computed pointers reached through several bases are rejected by the loader
                # ("… already exists"): keep multiple inheritance away from them
                if k == 2 and (({key} | self.ancestors[key]) & self.computed):
                    continue
                bases.append(t)
            if len(bases) == 2 and any((({(b[0], b[1])} | self.ancestors[(b[0], b[1])]) & self.computed)
                                       for b in bases):
                bases = bases[:1]
            self.feat('extending' if len(bases) == 1 else 'multiple_inheritance')
        anc = set()
        for b in bases:
            anc.add((b[0], b[1]))
            anc |= self.ancestors[(b[0], b[1])]
        self.ancestors[(m, n)] = anc
        if len(bases) > 1:
            self.mi_ancestors |= anc
        inherited_props = {}
        inherited_links = {}
        for b in bases:
            inherited_props.update(b[3])
            inherited_links.update(b[4])
        props, links = {}, {}
        body = []
        arrow = lambda: r.choice([' ->', ':'])
        # properties
        for _ in range(r.randint(0, 3 + self.size // 3)):
            pn = self.fresh('p')
            ty, base, user = self.scalar_ref(m)
            multi = r.random() < 0.2
            req = r.random() < 0.3
            quals = ('required ' if req else r.choice(['', '', 'optional '])) + \
                    ('multi ' if multi else r.choice(['', '', 'single ']))
            inner = []
            computed = False
            if base == 'str' and not multi and r.random() < 0.3:
                inner.append(f"default := '{pn}';")
                self.feat('default')
            elif base == 'int64' and not multi and r.random() < 0.3:
                inner.append('default := 1 + 2;')
                self.feat('default')
            elif base == 'datetime' and r.random() < 0.4:
                inner.append('default := datetime_current();')
                self.feat('default_function')
            elif base == 'str' and self.funcs and not multi and r.random() < 0.3:
                fm, fn, *_ = r.choice([f for f in self.funcs])
                inner.append(f"default := {self.q(m, fm, fn)}('d');")
                self.feat('default_user_function')
            if not multi and base in ('str', 'int64', 'uuid') and not user and r.random() < 0.3:
                if r.random() < 0.3:
                    inner.append('delegated constraint exclusive;')
                    self.feat('delegated_constraint')
                else:
                    inner.append('constraint exclusive;')
                    self.feat('constraint_exclusive')
            if base == 'str' and r.random() < 0.2:
                inner.append('constraint max_len_value(%d);' % r.randint(3, 99))
                self.feat('constraint_args')
            if base == 'int64' and self.absconstraints and r.random() < 0.3:
                cm, cn = r.choice(self.absconstraints)
                inner.append(f'constraint {self.q(m, cm, cn)}({r.randint(1, 9)});')
                self.feat('user_constraint_use')
            if base == 'str' and not multi and r.random() < 0.15:
                inner.append(f"constraint expression on (__subject__ != '{pn}') "
                             f"{{ errmessage := 'no {pn}'; }}")
                self.feat('constraint_expression', 'errmessage')
            if r.random() < 0.15:
                inner.append('readonly := true;')
                self.feat('readonly')
            if base == 'str' and not multi and r.random() < 0.15:
                kinds = r.choice(['insert', 'update', 'insert, update'])
                inner.append(f'rewrite {kinds} using (str_trim(__subject__.{pn}));')
                self.feat('rewrite')
            inner += self.anno_body(m)
            body.append(f'{quals}property {pn}{arrow()} {ty}' +
                        (' { ' + ' '.join(inner) + ' }' if inner else ';'))
            props[pn] = (base, multi, computed)
            self.feat('property', *(['multi_property'] if multi else []),
                      *(['required_property'] if req else []),
                      *(['user_scalar_property'] if user else []))
        allprops = dict(inherited_props)
        allprops.update(props)
        # computed property
        strs = [p for p, (b, mu, _c) in allprops.items() if b == 'str' and not mu]
        if strs and r.random() < 0.4:
            pn = self.fresh('c')
            src = r.choice(strs)
            e = r.choice([f'str_upper(.{src})', f".{src} ++ '_x'", f'len(.{src})'])
            body.append(f'property {pn} := ({e});')
            self.computed.add((m, n))
            self.feat('computed_property')
        # links
        tcands = list(self.types)
        for _ in range(r.randint(0, 2 + self.size // 4)):
            ln = self.fresh('l')
            plain = None
            if tcands and r.random() < 0.8:
                tm, tn, *_ = r.choice(tcands)
                target = self.q(m, tm, tn)
                plain = (tm, tn)
                if r.random() < 0.15 and len(tcands) > 1:
                    tm2, tn2, *_ = r.choice(tcands)
                    # (a union of a type with its own subtype is rejected by the loader when the base
                    # carries a computed pointer: "… already exists")
                    fam1 = {(tm, tn)} | self.ancestors[(tm, tn)]
                    fam2 = {(tm2, tn2)} | self.ancestors[(tm2, tn2)]
                    if not (fam1 & fam2) and not ((fam1 | fam2) & self.computed):
                        self.mi_ancestors |= fam1 | fam2      # no computed backlinks there later
                        target = f'{target} | {self.q(m, tm2, tn2)}'
                        plain = None
                        self.feat('union_target')
            else:
                target = n if r.random() < 0.5 else f'{m}::{n}'
                self.feat('self_link')
            multi = r.random() < 0.35
            req = r.random() < 0.2
            quals = ('required ' if req else '') + ('multi ' if multi else r.choice(['', 'single ']))
            inner = []
            ext = ''
            if self.abslinks and r.random() < 0.3:
                am, an = r.choice(self.abslinks)
                ext = f' extending {self.q(m, am, an)}'
                self.feat('link_extending_abstract')
            if r.random() < 0.35:
                lp = self.fresh('lp')
                lty, lbase, _ = self.scalar_ref(m)
                inner.append(f'property {lp}{arrow()} {lty}' +
                             (" { constraint max_len_value(9); }" if lbase == 'str' and r.random() < 0.3
                              else ';'))
                self.feat('link_property')
            if r.random() < 0.2:
                inner.append('on target delete ' + r.choice(
                    ['allow', 'delete source'] + ([] if req else ['deferred restrict'])) + ';')
                self.feat('on_target_delete')
            if r.random() < 0.1:
                inner.append('on source delete ' + r.choice(['delete target', 'allow']) + ';')
                self.feat('on_source_delete')
            if not multi and r.random() < 0.15:
                inner.append('constraint exclusive;')
                self.feat('link_constraint_exclusive')
            inner += self.anno_body(m)
            body.append(f'{quals}link {ln}{ext}{arrow()} {target}' +
                        (' { ' + ' '.join(inner) + ' }' if inner else ';'))
            links[ln] = target
            if plain and not abstract:
                self.plain_links.append((m, n, ln, plain[0], plain[1]))
            self.feat('link', *(['multi_link'] if multi else []), *(['required_link'] if req else []))
        # computed link / backlink
        if tcands and r.random() < 0.3:
            tm, tn, tab, tprops, tlinks = r.choice(tcands)
            ln = self.fresh('cl')
            body.append(f'multi link {ln} := (select {self.q(m, tm, tn)});')
            self.computed.add((m, n))
            self.feat('computed_link')
        # indexes
        idxp = [p for p, (b, mu, _c) in allprops.items() if not mu and b in ('str', 'int64', 'uuid', 'datetime')]
        if idxp and r.random() < 0.4:
            p = r.choice(idxp)
            if len(idxp) > 1 and r.random() < 0.3:
                p2 = r.choice([x for x in idxp if x != p])
                body.append(f'index on ((.{p}, .{p2}));')
                self.feat('index_tuple')
            elif r.random() < 0.25:
                body.append(f"index on (.{p}) {{ annotation title := 'idx {p}'; }}")
                self.feat('index_annotation')
            else:
                body.append(f'index on (.{p});')
            self.feat('index')
        # object-level constraints
        if len(idxp) > 1 and r.random() < 0.25:
            p, p2 = r.sample(idxp, 2)
            body.append(f'constraint exclusive on ((.{p}, .{p2}));')
            self.feat('constraint_on')
        if strs and r.random() < 0.2:
            p = r.choice(strs)
            body.append(f"constraint expression on (.{p} != 'bad');")
            self.feat('object_constraint_expression')
        # access policies
        if r.random() < 0.25:
            pn = self.fresh('ap')
            if self.globals_ and strs and r.random() < 0.7:
                gm, gn, gsc = r.choice(self.globals_)
                p = r.choice(strs)
                cond = f'(<str>(global {self.q(m, gm, gn)}) ?= .{p})'
                self.feat('policy_global')
            else:
                cond = '(true)'
            kinds = r.choice(['all', 'select', 'select, update read', 'insert, delete'])
            act = r.choice(['allow', 'allow', 'deny'])
            em = " { errmessage := 'nope'; }" if r.random() < 0.3 else ''
            body.append(f'access policy {pn} {act} {kinds} using {cond}{em};')
            self.feat('access_policy')
        # triggers
        if not abstract and strs and r.random() < 0.2:
            tn_ = self.fresh('tr')
            p = r.choice(strs)
            kind = r.choice(['insert', 'update', 'delete', 'insert, update'])
            ref = '__old__' if kind == 'delete' else '__new__'
            when = f" when ({ref}.{p} != 'q')" if r.random() < 0.3 and 'insert, update' != kind else ''
            body.append(f"trigger {tn_} after {kind} for each{when} do "
                        f"(select assert({ref}.{p} != 'zz', message := 'tr'));")
            self.feat('trigger')
        body += self.anno_body(m)
        ext = ''
        if bases:
            ext = ' extending ' + ', '.join(self.q(m, b[0], b[1]) for b in bases)
        self.typebodies[(m, n)] = (f'{"abstract " if abstract else ""}type {n}{ext}', body)
        self.decls[m].append(('type', m, n))
        allinks = dict(inherited_links)
        allinks.update(links)
        self.types.append((m, n, abstract, allprops, allinks))
        self.feat('abstract_type' if abstract else 'type')
        if m != 'default':
            self.feat('type_in_user_module')
        if '::' in m:
            self.feat('type_in_nested_module')

    def gen_alias(self):
        if not self.types:
            return
        m = self.mod()
        r = self.rng
        n = self.fresh('A')
        tm, tn, ab, props, links = r.choice(self.types)
        strs = [p for p, (b, mu, _c) in props.items() if b == 'str' and not mu]
        if strs and r.random() < 0.7:
            p = r.choice(strs)
            self.decls[m].append(f"alias {n} := {self.q(m, tm, tn)} {{ z := .{p} ++ '!' }};")
            self.feat('alias_shape')
        elif r.random() < 0.5:
            self.decls[m].append(f'alias {n} := (select {self.q(m, tm, tn)} limit 3);')
            self.feat('alias_select')
        else:
            self.decls[m].append(f'alias {n} := count({self.q(m, tm, tn)});')
            self.feat('alias_scalar')

    def gen_same_named(self):
        """objects with the SAME names in two modules, referenced unqualified from their own module
        inside expressions whose local names collide with them: an unqualified leftover in the stored
        text would mean the other module's object when replayed under that module"""
        r = self.rng
        two = self.mods[:2] if len(self.mods) > 1 else self.mods[:1]
        self.same_named_modules = list(two)
        for i, m in enumerate(two):
            extra = ' property extra -> str;' if i else ''
            d = self.decls[m]
            d.append(f'type Shared {{ property name -> str; property active -> bool;{extra} }}')
            d.append(f"function shf(x: str) -> str using (x ++ '{'!' if i == 0 else '?'}');")
            choices = [
                ("global gsh := (with Shared := (select Shared filter .active) select count(Shared));",
                 'with_alias_named_like_type'),
                ("alias ASh := (with Shared := (select Shared filter .active) select Shared { Shared := .name });",
                 'shape_element_named_like_type'),
                ("function fsh(x: str) -> int64 using ((with Shared := (select Shared filter .name = x) "
                 "select count(Shared)));", 'function_with_alias_named_like_type'),
                ("global gfor := (select count((for Shared in Shared union (Shared.name))));",
                 'for_variable_named_like_type'),
                ("global gcnt := (with count := count(Shared) select count);", 'with_alias_named_like_std_function'),
                ("global gshf := (with shf := shf('a') select shf);", 'with_alias_named_like_user_function'),
                ("type SharedHolder { property tag -> str; "
                 "property n := (with Shared := (select Shared filter .active) select count(Shared)); "
                 "access policy ap allow all using ((with Shared := (select Shared filter .active) "
                 "select exists Shared)); "
                 "trigger tr after insert for each do (select count((group Shared using name := .name by name))); }",
                 'holder_with_collisions'),
            ]
            for text, feat in r.sample(choices, r.randint(1, 3)):
                d.append(text)
                self.feat(feat)
        self.feat('same_named_objects_in_two_modules' if len(two) > 1 else 'same_named_single_module')

    def generate(self):
        r = self.rng
        plan = []
        plan += ['anno'] * r.randint(0, 2)
        plan += ['absconstraint'] * r.randint(0, 1)
        plan += ['scalar'] * r.randint(0, 3)
        plan += ['abslink'] * r.randint(0, 1)
        nt = r.randint(1, 2 + self.size)
        rest = ['type'] * nt + ['global'] * r.randint(0, 2) + ['function'] * r.randint(0, 2) + \
               ['alias'] * r.randint(0, 2)
        r.shuffle(rest)
        # globals/functions first half the time so that types can use them
        plan += rest
        for k in plan:
            getattr(self, 'gen_' + k)()
        self.gen_same_named()
        if len(self.mods) > 1:
            self.feat('multi_module')
        if any('::' in m for m in self.mods):
            self.feat('nested_module')
        # backlinks, added to the target type once every link is known
        for (om, on, ln, tm, tn) in self.plain_links:
            if (tm, tn) in self.mi_ancestors or (tm, tn) in self.ancestors[(om, on)] or (tm, tn) == (om, on):
                continue      # a computed in a base that mentions a subtype is rejected by the SDL loader
            if r.random() < 0.15:
                bl = self.fresh('bl')
                self.typebodies[(tm, tn)][1].append(
                    f'multi link {bl} := (.<{ln}[is {self.q(tm, om, on)}]);')
                self.feat('backlink')
        blocks = []
        for m in self.mods:
            lines = []
            for d in self.decls[m]:
                if isinstance(d, tuple):
                    hdr, body = self.typebodies[(d[1], d[2])]
                    lines.append(hdr + (' {\n    ' + '\n    '.join(body) + '\n  }' if body else ';'))
                else:
                    lines.append(d)
            blocks.append(f'module {m} {{\n  ' + '\n  '.join(lines) + '\n}')
        return '\n'.join(blocks)


def gen_schema(rng, size):
    g = Gen(rng, size)
    return g.generate(), g


# ------------------------------------------------------- fixed corpus schemas
FIXED = [
    # = EdbVerif.C03.exS (witness of C03_alias_shadow_counterexample)
    ('witness-two-modules', '''
module default { type User { link t -> a::T2; } }
module a { type T2 { property n -> str { constraint exclusive; } } }
'''),
    # = EdbVerif.C03.exS2
    ('witness-same-short-name', '''
module default { type User { link t -> a::T2; } }
module a { type T2 { property n -> str { constraint exclusive; } } type User; }
'''),
    # the migration path (POPULATE + COMMIT) fails for this accepted schema — see notes/C03.md
    ('alias-of-base-with-policy', '''
module default {
  abstract type T6;
  type T26 extending T6 { access policy ap allow all using (true); };
  alias A := T6 { z := 1 };
}
'''),
    ('nested-modules', '''
module default {
  abstract type Named { required property name -> str { constraint exclusive; annotation title := 'nm'; } }
  type User extending Named {
     multi link friends -> User { property since -> str; };
     property upper := str_upper(.name);
     link other -> a::b::Thing;
     index on (.name);
     access policy ap allow all using (global cur ?= .name);
  }
  alias UA := User { x := .name ++ '!' };
  scalar type Color extending enum<Red, Green>;
  global cur -> str;
  function f(x: str) -> str using (x ++ (select User filter .name = x limit 1).name ?? '');
}
module a { type T2 { link u -> default::User; } }
module a::b { type Thing { property c -> default::Color; } }
'''),
]


MIGRATION_WITNESSES = {'alias-of-base-with-policy'}

FIXED_DDL = [
    # = EdbVerif.C03.exS3 (witness of C03_sdl_default_counterexample): no module `default`
    ('no-default-module', 'create module a; create type a::T2;'),
]


def load_robust(R, sdl, stats):
    try:
        return R.load(sdl), False
    except Exception as e1:
        try:
            sch = R.load_as_ddl(sdl)
        except Exception:
            raise e1
        stats[f'apply_sdl rejected the generated order ({type(e1).__name__}); schema obtained '
              f'declaration by declaration as DDL'] += 1
        return sch, True


def migration_key(R, schema, exc, case_id):
    """`sdl-migration-fails:alias-of-policied-base:…` only for the root cause that was analysed
    (an alias over an object type one of whose descendants — or the type itself — owns an access
    policy, failing with "property 'id' does not exist"); any other failure of the migration path gets
    `sdl-migration-other:…` so that it is reported as new."""
    try:
        cause = "property 'id' does not exist" in str(exc) and _alias_of_policied_base(R, schema)
    except Exception:
        cause = False
    return (f'sdl-migration-fails:alias-of-policied-base:{case_id}' if cause
            else f'sdl-migration-other:{case_id}')


def _alias_of_policied_base(R, schema):
    policied = set()
    for o in user_objects(R, schema):
        if type(o).__name__ == 'ObjectType' and not o.get_is_derived(schema):
            if any(p.get_owned(schema) for p in o.get_access_policies(schema).objects(schema)):
                policied.add(o)
    if not policied:
        return False
    for o in user_objects(R, schema):
        if type(o).__name__ != 'Alias':
            continue
        # (any alias that gets a view type of its own: a shape, FILTER, LIMIT …; a bare `select T`
        # happens to migrate)
        vt = o.get_type(schema)
        bases = set()
        if hasattr(vt, 'get_bases'):
            for b in vt.get_bases(schema).objects(schema):
                bases.add(b)
        for d in policied:
            if any(b == d or d.issubclass(schema, b) for b in bases):
                return True
    return False


def fine_compare(mout, real, detail):
    """beyond the outcome class: which objects / modules a differing rebuild has, which kind of
    error a failing one raises.  -> None | ('fine-agree'|'fine-disagree'|'fine-unknown', text)"""
    if real == 'differs':
        det = detail.get('detail', {})
        if 'tops' not in det:
            return ('fine-unknown', 'rebuilt schema could not be abstracted')
        m = re.match(r'differs \+\[(.*?)\] -\[(.*?)\] \+m\[(.*?)\] -m\[(.*?)\]$', mout)
        if not m:
            return ('fine-disagree', f'unreadable model answer {mout!r}')
        plus, minus, mplus, mminus = [set(x.split(',')) - {''} for x in m.groups()]
        want = (set(detail['orig_tops']) | plus) - minus
        wantm = (set(detail['orig_modules']) | mplus) - mminus
        if want != set(det['tops']):
            return ('fine-disagree', f'model rebuilds objects {sorted(want)}, real engine {det["tops"]}')
        if wantm != set(det['modules']):
            return ('fine-disagree', f'model rebuilds modules {sorted(wantm)}, real engine {det["modules"]}')
        return ('fine-agree', '')
    if real == 'error':
        kind = detail.get('detail', {}).get('exc', ('', '', ''))[1]
        mk = mout.split(' ')[1] if ' ' in mout else ''
        mk = {'exists': 'exists', 'unresolved': 'unresolved', 'nomodule': 'unresolved',
              'noobject': 'unresolved'}.get(mk, mk)
        if kind in ('exists', 'unresolved'):
            # which error comes FIRST depends on the statement order, which the model does not mirror
            # (e.g. same-named objects in two modules: `already exists` vs an earlier dangling reference):
            # counted, not a disagreement
            return ('fine-agree', '') if mk == kind else ('fine-other-first-error', '')
        return ('fine-unknown', f'real error not classified: {detail["detail"]["exc"]}')
    return None


# ----------------------------------------------------------- real-engine glue
class Real:
    """lazy imports of the real modules (after env.setup())"""

    def __init__(self):
        from bridge import env
        env.setup()
        self.env = env
        self.std = env.std_schema()
        from edb import errors
        from edb.schema import ddl as s_ddl, objects as so, delta as sd, expr as s_expr
        from edb.schema import name as sn, schema as s_schema, utils as s_utils
        from edb.schema import modules as s_mod, functions as s_func, types as s_types
        from edb.schema import referencing as s_ref, inheriting as s_inh
        from edb.edgeql import parser as qlparser, ast as qlast, tracer as qltracer
        from edb import edgeql
        self.errors, self.s_ddl, self.so, self.sd, self.s_expr = errors, s_ddl, so, sd, s_expr
        self.sn, self.s_schema, self.s_utils, self.s_mod = sn, s_schema, s_utils, s_mod
        self.s_func, self.s_types, self.s_ref, self.s_inh = s_func, s_types, s_ref, s_inh
        self.qlparser, self.qlast, self.qltracer, self.edgeql = qlparser, qlast, qltracer, edgeql
        self._sdl_prefix = None
        self._scope_base = None
        self.std_modules = sorted(str(m.get_name(self.std)) for m in
                                  self.std.get_objects(type=s_mod.Module, exclude_global=False))

    # -- loading / describing / replaying
    def load(self, sdl):
        doc = self.qlparser.parse_sdl(sdl)
        sch, _ = self.s_ddl.apply_sdl(doc, base_schema=self.std, current_schema=self.std)
        return sch

    def replay_ddl(self, text, modaliases):
        """real apply of DDL text on the std-only schema under `modaliases` (as testbase run_ddl)"""
        schema = self.std
        for stmt in self.edgeql.parse_block(text):
            plan = self.s_ddl.delta_from_ddl(stmt, schema=schema, modaliases=modaliases, testmode=True)
            context = self.sd.CommandContext()
            context.testmode = True
            schema = plan.apply(schema, context)
        return schema

    def load_as_ddl(self, sdl):
        """Fallback when apply_sdl rejects a text whose declarations are written referenced-first:
        every top-level SDL declaration, in DOCUMENT order, is printed as the equivalent DDL command
        (the SDL parser builds the same Create* nodes) and applied on its own in a session whose
        current module is the declaration's module — no pass through sdl_to_ddl's ordering."""
        qlast = self.qlast
        doc = self.qlparser.parse_sdl(sdl)
        schema = self.std
        seen_mods = set()

        def apply(stmt_text, mod):
            nonlocal schema
            for stmt in self.edgeql.parse_block(stmt_text):
                plan = self.s_ddl.delta_from_ddl(stmt, schema=schema, modaliases={None: mod}, testmode=True)
                context = self.sd.CommandContext()
                context.testmode = True
                schema = plan.apply(schema, context)

        pending = []

        def walk(decls, mod):
            for d in decls:
                if isinstance(d, qlast.ModuleDeclaration):
                    m = d.name.name if mod is None else f'{mod}::{d.name.name}'
                    parts = m.split('::')
                    for i in range(1, len(parts) + 1):
                        mm = '::'.join(parts[:i])
                        if mm not in seen_mods:
                            seen_mods.add(mm)
                            apply(f'create module {mm} if not exists;', 'default')
                    walk(d.declarations, m)
                else:
                    if mod is not None and isinstance(getattr(d, 'name', None), qlast.ObjectRef) \
                            and not d.name.module:
                        d.name.module = mod
                    pending.append((self.edgeql.generate_source(d, pretty=False) + ';', mod or 'default'))

        if 'default' not in seen_mods:
            seen_mods.add('default')
            apply('create module default if not exists;', 'default')
        walk(doc.declarations, None)
        # document order; a declaration that refers to a later one is retried after the others
        last_err = None
        while pending:
            rest = []
            for stmt_text, mod in pending:
                try:
                    apply(stmt_text, mod)
                except self.errors.EdgeDBError as e:
                    last_err = e
                    rest.append((stmt_text, mod))
            if len(rest) == len(pending):
                raise last_err
            pending = rest
        return schema

    def build_scope(self, text):
        """c03_exprgen script: every statement is applied on top of BASE_SDL in a session whose
        current module is the module it populates.  A statement the engine rejects is skipped and
        returned in the second component (the unchanged tree accepts all of them)."""
        if self._scope_base is None:
            self._scope_base = self.load(c03_exprgen.BASE_SDL)
        schema = self._scope_base
        rejected = []
        for mod, stmt_text, _p, _k in c03_exprgen.parse_script_text(text):
            try:
                s2 = schema
                for stmt in self.edgeql.parse_block(stmt_text):
                    plan = self.s_ddl.delta_from_ddl(stmt, schema=s2, modaliases={None: mod}, testmode=True)
                    context = self.sd.CommandContext()
                    context.testmode = True
                    s2 = plan.apply(s2, context)
                schema = s2
            except Exception as e:
                rejected.append((mod, stmt_text, f'{type(e).__name__}: {str(e)[:160]}'))
        return schema, rejected

    def replay_sdl(self, text, modaliases):
        """START MIGRATION TO {text}; POPULATE MIGRATION; COMMIT MIGRATION under `modaliases`
        (the steps of edb.testbase.lang.BaseSchemaTest.run_ddl, with a general alias map).
        START/POPULATE do not look at the session's aliases (apply_sdl takes none), so their
        result (the migration script AST) is computed once per text and a fresh deep copy is applied
        for every context."""
        s_ddl, qlast = self.s_ddl, self.qlast
        if self._sdl_prefix is None or self._sdl_prefix[0] != text:
            doc = self.qlparser.parse_sdl(text)
            target, _ = s_ddl.apply_sdl(doc, base_schema=self.std, current_schema=self.std, testmode=True)
            diff = s_ddl.delta_schemas(self.std, target)
            script = list(s_ddl.ddlast_from_delta(self.std, target, diff))
            self._sdl_prefix = (text, script)
        script = copy.deepcopy(self._sdl_prefix[1])     # applying a script may touch its AST
        cm = qlast.CreateMigration(body=qlast.NestedQLBlock(commands=script), parent=None)
        plan = s_ddl.delta_from_ddl(cm, schema=self.std, modaliases=modaliases, testmode=True)
        context = self.sd.CommandContext()
        context.testmode = True
        return plan.apply(self.std, context)


# ------------------------------------------------------------ structural dump
SKIP_FIELDS = {'id', 'backend_id', 'sourcectx', 'span'}
SKIP_CLASSES = {'Migration', 'SchemaVersion', 'GlobalSchemaVersion'}


def canon(R, schema, v):
    so, s_expr, sn = R.so, R.s_expr, R.sn
    if v is None:
        return None
    if isinstance(v, so.Object):
        return ['obj', type(v).__name__, str(v.get_name(schema))]
    if isinstance(v, sn.Name):
        return ['name', str(v)]
    if isinstance(v, s_expr.Expression):
        return ['expr', v.text]
    if isinstance(v, s_expr.ExpressionList):
        return ['exprs', [canon(R, schema, e) for e in v]]
    if isinstance(v, s_expr.ExpressionDict):
        return ['exprd', sorted([k, canon(R, schema, e)] for k, e in v.items())]
    if isinstance(v, so.ObjectDict):
        return ['objdict', sorted(([k, canon(R, schema, o)] for k, o in v.items(schema)), key=repr)]
    if isinstance(v, so.ObjectCollection):
        names = [canon(R, schema, o) for o in v.objects(schema)]
        if isinstance(v, (so.ObjectSet, so.ObjectIndexBase)):
            names = sorted(names, key=repr)
        return ['objs', names]
    if isinstance(v, uuid.UUID):
        return ['uuid']
    if isinstance(v, enum.Enum):
        return ['enum', type(v).__name__, v.name]
    if isinstance(v, (str, int, float, bool)):
        return v
    if isinstance(v, collections.abc.Set):
        return ['set', sorted((canon(R, schema, x) for x in v), key=repr)]
    if isinstance(v, collections.abc.Mapping):
        return ['dict', sorted(([repr(k), canon(R, schema, x)] for k, x in v.items()), key=repr)]
    if isinstance(v, collections.abc.Sequence):
        return ['list', [canon(R, schema, x) for x in v]]
    return ['repr', repr(v)]


def user_objects(R, schema):
    std = R.std
    for o in schema.get_objects(exclude_stdlib=False, exclude_global=False):
        if std.get_by_id(o.id, None) is None and type(o).__name__ not in SKIP_CLASSES:
            yield o


def dump(R, schema):
    """every user object (ids ignored) with every explicitly stored field"""
    out = {}
    for o in user_objects(R, schema):
        cls = type(o).__name__
        rec = {}
        for fn in type(o).get_fields():
            if fn in SKIP_FIELDS:
                continue
            # the value the engine works with: an unset field and a field explicitly holding its
            # default (e.g. `owned = False`, an empty `constraints` index left behind by DROP OWNED)
            # are the same schema
            try:
                v = o.get_field_value(schema, fn)
            except R.so.FieldValueNotFoundError:
                v = None
            c = canon(R, schema, v)
            if c is not None and c != ['objs', []] and c != ['set', []] and c != ['list', []]:
                rec[fn] = c
        key = f'{cls} {o.get_name(schema)}'
        if key in out:
            raise core.Infra(f'dump: duplicate key {key}')
        out[key] = rec
    return out


def dump_diff(d1, d2, limit=8):
    res = []
    for k in sorted(set(d1) | set(d2)):
        if k not in d1:
            res.append(f'extra object {k}')
        elif k not in d2:
            res.append(f'missing object {k}')
        else:
            for fn in sorted(set(d1[k]) | set(d2[k])):
                a, b = d1[k].get(fn), d2[k].get(fn)
                if a != b:
                    res.append(f'{k}: field {fn}: {json.dumps(a)[:160]} != {json.dumps(b)[:160]}')
        if len(res) >= limit:
            break
    return res


# ------------------------------------------------------------- real round trip
def err_class(e):
    n = type(e).__name__
    msg = str(e)
    if 'already exists' in msg:
        kind = 'exists'
    elif 'does not exist' in msg or 'is not in this schema' in msg:
        kind = 'unresolved'
    else:
        kind = 'other'
    return n, kind, msg[:200]


def real_outcome(R, orig, orig_dump, lang, text, modaliases, deltas=2, table=None):
    """replay `text` on the std-only schema under `modaliases`, compare with `orig`.
    -> (coarse class, detail)   coarse in same / differs / error"""
    try:
        rebuilt = (R.replay_ddl if lang == 'ddl' else R.replay_sdl)(text, modaliases)
    except R.errors.EdgeDBError as e:
        return 'error', {'exc': err_class(e)}
    except Exception as e:      # an internal error of the real code is still an outcome
        return 'error', {'exc': (type(e).__name__, 'internal', str(e)[:200])}
    diffs = []
    dd = dump_diff(orig_dump, dump(R, rebuilt))
    pairs = ((rebuilt, orig, 'rebuilt->orig'), (orig, rebuilt, 'orig->rebuilt'))[:deltas]
    for a, b, tag in pairs:
        try:
            d = R.s_ddl.delta_schemas(a, b)
        except Exception as e:
            diffs.append(f'delta {tag}: cannot be computed: {type(e).__name__}: {str(e)[:200]}')
            continue
        subs = list(d.get_subcommands())
        if subs:
            try:
                txt = R.s_ddl.ddl_text_from_delta(a, b, d)
            except Exception as e:
                txt = f'<{len(subs)} commands; cannot print: {type(e).__name__}>'
            diffs.append(f'delta {tag}: {txt[:300]}')
    if diffs or dd:
        det = {'delta': diffs, 'dump': dd}
        if table is not None:
            try:
                A2 = abstract_schema(R, rebuilt, table)
                det['tops'] = sorted(qn(m, n) for m, n in A2.top_names)
                det['modules'] = list(A2.modules)
            except Exception as e:
                det['tops_error'] = f'{type(e).__name__}: {e}'
        return 'differs', det
    return 'same', {}


# ------------------------------------------- abstraction into the model algebra
TOP_CLASSES = ('ObjectType', 'ScalarType', 'Alias', 'Global', 'Function', 'Constraint', 'Annotation',
               'Link', 'Property', 'Index')
# printed by class-specific code that the static extraction cannot see (pinned; the
# rebuild oracle is what checks them).  Kept in sync with `customFields` of the model.
CUSTOM_FIELDS = {
    'Function': ['params'],
    'ScalarType': ['enum_values'],
    'Constraint': ['params'],
    'Property': ['declared_overloaded'],
    'Link': ['declared_overloaded'],
}
_SAFE = re.compile(r'[^A-Za-z0-9_.@()<>\[\]-]')


def enc(s: str) -> str:
    """protocol-safe spelling of an arbitrary string"""
    return _SAFE.sub(lambda m: '%%%02x' % ord(m.group(0)), s) or '%00'


def digest(s: str) -> str:
    return hashlib.sha1(s.encode()).hexdigest()[:10]


def qn(mod: str, name: str) -> str:
    return f'{mod}/{enc(name)}'


class Abstraction:
    """the model-level view of a real schema"""

    def __init__(self):
        self.modules = []          # user modules
        self.tokens = []           # protocol tokens
        self.heads = collections.Counter()   # (class, short name) of every head
        self.names = set()         # every qualified name mentioned (mod, name)
        self.top_names = set()
        self.std_names = set()     # mentioned names that exist in std
        self.fields_seen = collections.Counter()   # (class, field) with an explicit own value
        self.unclassified = set()  # (class, field): explicit own value, in no table
        self.problems = []


def field_table(R):
    """class -> fields for which a CREATE of that class prints text, extracted from the
    real classes: generic printer (allow_ddl_set / 'expr' / get_ast_attr_for_field),
    ddl_identity fields, and the fields special-cased by `_apply_field_ast` overrides."""
    sd, so = R.sd, R.so
    by = {c.__name__: c for c in so.ObjectMeta.get_schema_metaclasses()}
    out = {}
    for cn in MODEL_CLASSES:
        mcls = by[cn]
        cmdcls = sd.get_object_command_class(sd.CreateObject, mcls)
        an = getattr(cmdcls, 'astnode', None)
        ans = list(an) if isinstance(an, (list, tuple)) else [an]
        ran = getattr(cmdcls, 'referenced_astnode', None)
        if ran is not None and ran not in ans:
            ans.append(ran)
        ans = [a for a in ans if a is not None]
        cmd = cmdcls.__new__(cmdcls)
        fields = set()
        for fn, f in mcls.get_fields().items():
            if fn in ('id', 'name'):
                continue
            attr = any(cmdcls.get_ast_attr_for_field(cmd, fn, a) for a in ans)
            if f.allow_ddl_set or fn == 'expr' or attr or f.ddl_identity:
                fields.add(fn)
        for k in cmdcls.__mro__:
            fn_ = k.__dict__.get('_apply_field_ast')
            if fn_ is None:
                continue
            src = inspect.getsource(fn_)
            found = set(re.findall(r"op\.property\s*==\s*'(\w+)'", src))
            for m in re.finditer(r"op\.property\s+in\s+[\(\{]([^\)\}]*)[\)\}]", src):
                found |= set(re.findall(r"'(\w+)'", m.group(1)))
            fields |= {x for x in found if x in mcls.get_fields()}
        out[cn] = sorted(fields)
    return out


MODEL_CLASSES = ['AccessPolicy', 'Alias', 'Annotation', 'AnnotationValue', 'Constraint', 'Function',
                 'Global', 'Index', 'Link', 'Module', 'ObjectType', 'Parameter', 'Property', 'Rewrite',
                 'ScalarType', 'Trigger']

# fields that are derived / bookkeeping: never printed, recomputed on load (pinned)
DERIVED_FIELDS = {
    'id', 'name', 'builtin', 'internal', 'sourcectx', 'ancestors', 'computed_fields', 'inherited_fields',
    'is_derived', 'owned', 'source', 'subject', 'backend_id', 'backend_name', 'finalexpr', 'from_alias',
    'from_global', 'alias_is_persistent', 'expr_type', 'created_types', 'type', 'computable',
    'defined_here', 'return_type', 'return_typemod', 'language', 'code', 'reflected_language',
    'used_globals', 'is_inlined', 'num', 'kind', 'typemod', 'annotation', 'pointers', 'constraints',
    'indexes', 'annotations', 'triggers', 'access_policies', 'rewrites', 'params', 'type_args',
    'rptr', 'union_of', 'intersection_of', 'is_opaque_union', 'transient', 'computed_link_alias',
    'computed_link_alias_is_backward', 'num_params', 'initial_value', 'is_aggregate',
    'impl_is_strict', 'is_singleton_set_of', 'prefer_subquery_args', 'protected', 'secret',
}


def abstract_schema(R, schema, table):
    so, sn, s_expr, qlast = R.so, R.sn, R.s_expr, R.qlast
    from edb.common.ast import visitor
    A = Abstraction()
    std = R.std
    objs = list(user_objects(R, schema))
    A.modules = sorted(str(o.get_name(schema)) for o in objs if type(o).__name__ == 'Module')
    usermods = set(A.modules)

    def mention(mod, name):
        A.names.add((mod, name))
        if mod not in usermods:
            q = sn.QualName(mod, name)
            if std.get(q, default=None) is not None or std.get_functions(q, ()):
                A.std_names.add((mod, name))

    def type_names(t):
        """qualified names a type value spells out"""
        if t is None:
            return []
        if isinstance(t, so.ObjectShell):
            return []
        cls = type(t).__name__
        if cls in ('Array', 'Tuple', 'Range', 'MultiRange', 'ArrayExprAlias', 'TupleExprAlias',
                   'RangeExprAlias', 'MultiRangeExprAlias'):
            out = []
            for st in t.get_subtypes(schema):
                out += type_names(st)
            return out
        if hasattr(t, 'get_union_of') and t.get_union_of(schema):
            out = []
            for st in t.get_union_of(schema).objects(schema):
                out += type_names(st)
            return out
        n = t.get_name(schema)
        if cls == 'PseudoType' or not isinstance(n, sn.QualName):
            return []
        n = sn.shortname_from_fullname(n)
        if not isinstance(n, sn.QualName) or n.module.startswith('__'):
            return []
        return [(n.module, n.name)]

    def expr_atoms(e):
        out = [('s', digest(e.text))]
        try:
            tree = R.qlparser.parse_fragment(e.text)
        except Exception as ex:
            A.problems.append(f'stored expression does not parse: {e.text!r}: {ex}')
            return out
        found = visitor.find_children(tree, qlast.Base,
                                      lambda n: isinstance(n, (qlast.ObjectRef, qlast.FunctionCall)))
        for n in found or ():
            if isinstance(n, qlast.ObjectRef):
                if n.module:
                    out.append(('n', (n.module, n.name)))
            elif isinstance(n.func, tuple):
                out.append(('n', (n.func[0], n.func[1])))
        return out

    IMPLICIT_BASES = {('std', 'Object'), ('std', 'link'), ('std', 'property'), ('std', 'constraint')}
    DEFAULT_BASES = {('std', 'BaseObject'), ('std', 'Object'), ('std', 'link'), ('std', 'property'),
                     ('std', 'constraint'), ('std', 'idx'), ('std', 'anyscalar'), ('std', 'anyenum')}

    def value_atoms(fn, v, keep_default_bases=False):
        if isinstance(v, so.Object):
            return [('t', x) for x in type_names(v)]
        if isinstance(v, s_expr.Expression):
            return expr_atoms(v)
        if isinstance(v, s_expr.ExpressionList):
            return [a for e in v for a in expr_atoms(e)]
        if isinstance(v, s_expr.ExpressionDict):
            return [a for k, e in sorted(v.items()) for a in [('s', enc(k))] + expr_atoms(e)]
        if isinstance(v, so.ObjectCollection):
            out = []
            for o in v.objects(schema):
                for x in type_names(o):
                    if fn == 'bases' and x in DEFAULT_BASES:
                        continue
                    out.append(('t', x))
            if fn == 'bases' and not out and keep_default_bases:
                # no explicit base: the class's default base (std::Object, std::link, …) is not printed
                # but IS looked up under the session's aliases when the CREATE is applied
                # (InheritingObjectCommand._classbases_from_ast) — keep it as an (implicit) reference
                out = [('t', x) for o in v.objects(schema) for x in type_names(o) if x in IMPLICIT_BASES]
            return out
        return [('s', digest(repr(canon(R, schema, v))))]

    def head(o, cls, name_atom, is_top_head=False, real_short=None):
        fields = []
        mcls = type(o)
        tbl = set(table.get(cls, ())) | set(CUSTOM_FIELDS.get(cls, ()))
        for fn in sorted(mcls.get_fields()):
            v = o.get_explicit_field_value(schema, fn, None)
            if v is None:
                continue
            own = True
            if isinstance(o, R.so.InheritingObject) and o.field_is_inherited(schema, fn):
                own = False
            if o.field_is_computed(schema, fn):
                own = False
            if not own:
                continue
            if fn in tbl:
                if fn == 'params':
                    atoms = []
                    for p in v.objects(schema):
                        atoms += [('t', x) for x in type_names(p.get_type(schema))]
                        d = p.get_default(schema)
                        if d is not None:
                            atoms += expr_atoms(d)
                    if cls == 'Function':
                        atoms += [('t', x) for x in type_names(o.get_return_type(schema))]
                else:
                    atoms = value_atoms(fn, v, keep_default_bases=is_top_head)
                    if cls == 'Function' and fn == 'nativecode':
                        # a function body is normalised under the session aliases (with the
                        # whole-module fallback) and then compiled WITHOUT them: the shell rule
                        atoms = [('t', x) if k == 'n' else (k, x) for k, x in atoms]
                if fn == 'bases' and not atoms:
                    continue
                A.fields_seen[(cls, fn)] += 1
                fields.append((fn, atoms))
            elif fn not in DERIVED_FIELDS:
                A.unclassified.add((cls, fn))
        for fn, atoms in fields:
            for k, x in atoms:
                if k != 's':
                    mention(*x)
        if name_atom[0] != 's' and not is_top_head:
            mention(*name_atom[1])

        def atom(a):
            return 's:' + a[1] if a[0] == 's' else a[0] + ':' + qn(*a[1])
        fs = ';'.join(f'{fn}=' + '+'.join(atom(a) for a in atoms) for fn, atoms in fields)
        if real_short is not None:
            shortn = real_short
        else:
            shortn = name_atom[1] if name_atom[0] == 's' else '::'.join(name_atom[1])
        A.heads[(cls, shortn)] += 1
        return f'{cls}~{atom(name_atom)}~{fs}'

    def child_name(c):
        cls = type(c).__name__
        n = sn.shortname_from_fullname(c.get_name(schema))
        if cls in ('Constraint', 'AnnotationValue'):
            return ('t', (n.module, n.name))
        if cls == 'Rewrite':
            return ('s', enc(str(c.get_kind(schema))))
        return ('s', enc(n.name))

    def printable_children(o):
        out = []
        for rd in type(o).get_refdicts():
            coll = o.get_field_value(schema, rd.attr)
            for c in coll.objects(schema):
                ccls = type(c).__name__
                if 'owned' in type(c).get_fields() and not c.get_owned(schema):
                    continue
                if ccls == 'Parameter':
                    continue
                if ccls == 'Property' and type(o).__name__ == 'Link' and \
                        sn.shortname_from_fullname(c.get_name(schema)).name in ('source', 'target'):
                    continue
                out.append(c)
        return sorted(out, key=lambda c: str(c.get_name(schema)))

    def items(c, first):
        ccls = type(c).__name__
        A.tokens.append(('kid:' if first else 'enter:') + head(c, ccls, child_name(c)))
        for cc in printable_children(c):
            items(cc, False)
        if not first:
            A.tokens.append('leave')

    def is_top(o):
        cls = type(o).__name__
        if cls not in TOP_CLASSES:
            return False
        if cls in ('ObjectType', 'ScalarType'):
            if o.get_is_derived(schema) or o.get_from_alias(schema) or o.get_from_global(schema):
                return False
            if cls == 'ObjectType' and (o.get_union_of(schema) or o.get_intersection_of(schema)):
                return False
            return True
        if cls in ('Constraint', 'Index'):
            return o.get_subject(schema) is None
        if cls in ('Link', 'Property'):
            return o.get_source(schema) is None
        return True

    for m in A.modules:
        A.tokens.append('mod:' + m)
    seen_func = collections.Counter()
    for o in sorted(objs, key=lambda o: (type(o).__name__, str(o.get_name(schema)))):
        if not is_top(o):
            continue
        cls = type(o).__name__
        n = sn.shortname_from_fullname(o.get_name(schema))
        name = n.name
        if cls == 'Function':
            seen_func[(n.module, n.name)] += 1
            if seen_func[(n.module, n.name)] > 1:
                name = f'{n.name}@{seen_func[(n.module, n.name)]}'
        if (n.module, name) in A.top_names:
            A.problems.append(f'two top-level objects called {n.module}::{name}')
        A.top_names.add((n.module, name))
        A.names.add((n.module, n.name))
        A.tokens.append('top:' + head(o, cls, ('t', (n.module, name)), True, n.name))
        for c in printable_children(o):
            items(c, True)
    return A


AST_CLASS = {
    'CreateObjectType': 'ObjectType', 'CreateScalarType': 'ScalarType', 'CreateAlias': 'Alias',
    'CreateGlobal': 'Global', 'CreateFunction': 'Function', 'CreateConstraint': 'Constraint',
    'CreateConcreteConstraint': 'Constraint', 'CreateAnnotation': 'Annotation',
    'CreateAnnotationValue': 'AnnotationValue', 'CreateLink': 'Link', 'CreateConcreteLink': 'Link',
    'CreateProperty': 'Property', 'CreateConcreteProperty': 'Property', 'CreateIndex': 'Index',
    'CreateConcreteIndex': 'Index', 'CreateAccessPolicy': 'AccessPolicy', 'CreateTrigger': 'Trigger',
    'CreateRewrite': 'Rewrite', 'CreateModule': 'Module',
}


ALTER_CLASS = {
    'AlterAnnotationValue': 'AnnotationValue', 'AlterConcreteIndex': 'Index',
    'AlterConcreteConstraint': 'Constraint', 'AlterConcreteLink': 'Link',
    'AlterConcreteProperty': 'Property', 'AlterAccessPolicy': 'AccessPolicy', 'AlterTrigger': 'Trigger',
    'AlterRewrite': 'Rewrite',
}


def text_inventory(R, tree_nodes):
    """(class, short name) of every CREATE in a parsed DDL/SDL text (and of every ALTER of a child
    object: an owned override of an inherited child is printed as ALTER) + every qualified name that
    occurs anywhere in it"""
    qlast = R.qlast
    from edb.common.ast import visitor
    heads = collections.Counter()
    alters = collections.Counter()
    names = set()
    for tree in tree_nodes:
        found = visitor.find_children(
            tree, qlast.Base,
            lambda n: isinstance(n, (qlast.ObjectRef, qlast.FunctionCall, qlast.CreateObject,
                                     qlast.AlterObject)))
        for n in found or ():
            if isinstance(n, qlast.ObjectRef):
                if n.module:
                    names.add((n.module, n.name))
            elif isinstance(n, qlast.FunctionCall):
                if isinstance(n.func, tuple):
                    names.add((n.func[0], n.func[1]))
            elif isinstance(n, (qlast.CreateObject, qlast.AlterObject)):
                is_alter = isinstance(n, qlast.AlterObject)
                cls = (ALTER_CLASS if is_alter else AST_CLASS).get(type(n).__name__)
                if cls is None:
                    if not is_alter:
                        heads[('?' + type(n).__name__, '')] += 1
                    continue
                if cls == 'Rewrite':
                    short = ','.join(str(k) for k in n.kinds)
                elif cls == 'Index':
                    short = 'idx'
                elif cls in ('Constraint', 'AnnotationValue') and type(n).__name__ != 'CreateConstraint':
                    short = f'{n.name.module}::{n.name.name}' if n.name.module else n.name.name
                elif cls == 'Module':
                    short = n.name.name if not n.name.module else f'{n.name.module}::{n.name.name}'
                else:
                    short = n.name.name
                (alters if is_alter else heads)[(cls, short.split('::')[-1])] += 1
    return heads, names, alters


# ----------------------------------------------------------------- contexts
def ctx_key(ma):
    cur = ma.get(None)
    al = ','.join(f'{k}={v}' for k, v in sorted((k, v) for k, v in ma.items() if k is not None))
    return f'{cur or "-"}|{al or "-"}'


def shadows(ma, modules, mentioned_heads):
    """does an alias key equal the first component of a module name the text mentions,
    redirecting it elsewhere?  (the exact condition of `resolve_qualified_ctx_independent`)"""
    for k, v in ma.items():
        if k is None:
            continue
        if k in mentioned_heads and v != k:
            return True
    return False


def contexts_for(rng, modules, same_named=()):
    """[(tag, modaliases)]: benign contexts (incl. every current module that holds same-named
    objects) + shadowing ones"""
    others = [m for m in modules if m != 'default']
    heads = sorted({m.split('::')[0] for m in others})
    benign = [('default-module', {None: 'default'}),
              ('other-module', {None: (others[-1] if others else 'std')}),
              ('unrelated-alias', {None: 'default', 'zz': (others[0] if others else 'default')})]
    if heads and rng.random() < 0.5:
        benign.append(('identity-alias', {None: 'default', heads[0]: heads[0]}))
    for m in same_named:
        if not any(ma == {None: m} for _, ma in benign):
            benign.append(('module-with-same-names', {None: m}))
    hostile = []
    if heads:
        hostile.append(('alias-usermodule-to-default', {None: 'default', rng.choice(heads): 'default'}))
    if 'default' in modules and others:
        hostile.append(('alias-default-to-usermodule', {None: 'default', 'default': rng.choice(others)}))
    if len(heads) > 1:
        k, v = rng.sample(heads, 2)
        hostile.append(('alias-usermodule-to-usermodule', {None: 'default', k: v}))
    hostile.append(('alias-std', {None: 'default', 'std': 'default'}))
    return benign, hostile


def d_line(lang, ma, R, A):
    stdnames = ','.join(sorted(qn(m, n) for m, n in A.std_names)) or '-'
    return '|'.join(['D', lang, ctx_key(ma), ','.join(R.std_modules), stdnames, ' '.join(A.tokens)])


# ------------------------------------------------------- level 1: name lookup
def name_cases(R, rng, schema, modules, n_cases):
    """(line, real answer) for ops R / C / T on one real schema"""
    sn, so, qlast, sd = R.sn, R.so, R.qlast, R.sd
    by_short = collections.defaultdict(set)
    allmods = set()
    for o in schema.get_objects(exclude_stdlib=False, exclude_global=False):
        n = o.get_name(schema)
        if type(o).__name__ == 'Module':
            allmods.add(str(n))
        elif isinstance(n, sn.QualName):
            by_short[n.name].add(n.module)
    user_tops = [(m, s) for s, ms in by_short.items() for m in ms
                 if m in modules and '@' not in s and '|' not in s]
    std_pool = [('std', 'str'), ('std', 'int64'), ('std', 'Object'), ('std::math', 'abs'),
                ('std::cal', 'local_date'), ('schema', 'ObjectType'), ('std', 'exclusive'),
                ('cfg', 'Config'), ('std::enc', 'Base64Alphabet'), ('sys', 'Database')]
    shorts = sorted({s for _, s in user_tops} | {s for _, s in std_pool} | {'nosuch'})
    heads = sorted({m.split('::')[0] for m in modules}) + ['std', 'math', 'cal', 'zz', 'default', 'schema']
    tails = sorted({'::'.join(m.split('::')[1:]) for m in modules if '::' in m})
    out = []
    mods_s = ','.join(sorted(allmods))

    def names_for(short):
        return ','.join(sorted(qn(m, short) for m in by_short.get(short, ()))) or '-'

    for _ in range(n_cases):
        # context
        ma = {}
        if rng.random() < 0.8:
            ma[None] = rng.choice(sorted(modules) + ['std', 'nomod', 'std::math'])
        for _k in range(rng.choice([0, 0, 1, 1, 2])):
            ma[rng.choice(heads)] = rng.choice(sorted(modules) + ['std', 'std::math', 'default', 'nomod'])
        # reference
        short = rng.choice(shorts)
        k = rng.random()
        if k < 0.25:
            mod = None
        elif k < 0.6 and by_short.get(short):
            mod = rng.choice(sorted(by_short[short]))
            if rng.random() < 0.3 and mod.startswith('std::'):
                mod = mod[5:]
        elif k < 0.7:
            mod = '__std__'
        elif k < 0.78:
            mod = '__current__::' + rng.choice(tails + ['b', 'math'])
        elif k < 0.82:
            mod = '__current__'
        else:
            mod = rng.choice(heads) + rng.choice([''] + ['::' + t for t in tails] + ['::math'])
        refs = f'{mod or "-"}/{enc(short)}'
        op = rng.random()
        if op < 0.5:
            name = sn.QualName(mod, short) if mod else sn.UnqualName(short)
            try:
                o = schema.get(name, default=None, module_aliases=ma or None)
                real = 'none' if o is None else 'some ' + qn(*_split(sn, o.get_name(schema)))
            except Exception as e:
                real = 'exc ' + type(e).__name__
            out.append((f'R|{ctx_key(ma)}|{mods_s}|{names_for(short)}|{refs}', real, 'R'))
        elif op < 0.72:
            name = sn.QualName(mod, short) if mod else sn.UnqualName(short)
            try:
                nm = R.s_utils.resolve_name(name, metaclass=so.QualifiedObject, modaliases=ma, schema=schema)
                o = schema.get(nm, default=None)
                real = 'none' if o is None else 'some ' + qn(*_split(sn, o.get_name(schema)))
            except R.errors.InvalidReferenceError:
                real = 'none'
            except Exception as e:
                real = 'exc ' + type(e).__name__
            out.append((f'N|{ctx_key(ma)}|{mods_s}|{names_for(short)}|{refs}', real, 'N'))
        elif op < 0.85:
            node = qlast.CreateObjectType(name=qlast.ObjectRef(module=mod, name=short))
            context = sd.CommandContext(modaliases=ma, schema=schema)
            try:
                q = sd.QualifiedObjectCommand._classname_from_ast(schema, node, context)
                real = 'ok ' + qn(q.module, q.name)
            except R.errors.SchemaDefinitionError:
                real = 'err nocurrent'
            except Exception as e:
                real = 'exc ' + type(e).__name__
            out.append((f'C|{ctx_key(ma)}|{refs}', real, 'C'))
        else:
            curmod = rng.choice(sorted(modules))
            local = sorted(m for m in modules if rng.random() < 0.7)
            decl = rng.random() < 0.2
            # a few names that exist only as SDL declarations (not in the schema)
            objects = {}
            extra = []
            if rng.random() < 0.5:
                lm = rng.choice(sorted(modules))
                objects[sn.QualName(lm, short)] = object()
                extra.append(qn(lm, short))
            ref = qlast.ObjectRef(module=mod, name=short)
            try:
                q = R.qltracer.resolve_name(ref, current_module=curmod, schema=schema, objects=objects,
                                            modaliases=(ma or None), local_modules=set(local),
                                            declaration=decl)
                real = qn(q.module, q.name)
            except Exception as e:
                real = 'exc ' + type(e).__name__
            out.append((f'T|{ctx_key(ma)}|{mods_s}|{names_for(short)}|{",".join(extra) or "-"}|{curmod}|'
                        f'{",".join(local) or "-"}|{1 if decl else 0}|{refs}', real, 'T'))
    return out


def _split(sn, name):
    return (name.module, name.name)


# ---------------------------------------------------------------------- run
def schema_cases(ctx):
    """[(tag, sdl, generator or None)]"""
    cases = [(tag, sdl, None) for tag, sdl in FIXED] + [(tag, ddl, 'ddl') for tag, ddl in FIXED_DDL]
    # scope-collision schemas (DDL-built under a current module, same names in two modules)
    cases.append(('scope-known-defect', c03_exprgen.script_text(c03_exprgen.known_defect_script()), 'scope'))
    if ctx.quick():
        cases.append(('scope-positions',
                      c03_exprgen.script_text(c03_exprgen.scope_script(ctx.rng, 1, split=True)), 'scope'))
    else:
        for i in range(6):
            cases.append((f'scope-gen{i}',
                          c03_exprgen.script_text(c03_exprgen.scope_script(ctx.rng, 1)), 'scope'))
        # every (position, expression) pair in both modules: 236 members, ≈ 3 min — last of its stream
        cases.append(('scope-all', c03_exprgen.script_text(c03_exprgen.scope_script(ctx.rng, None)), 'scope'))
    # dependent-validity schemas: expressions that are well-formed only because of another
    # declaration's property; owners named to print before / after the type they lean on
    cases.append(('dep-object-constraint', c03_exprgen.dep_known_bad_schema(), 'dep'))
    for i in range(ctx.budget(1, 10)):
        # defaults / rewrites twice, so that each occurs with the owner printed before AND after
        cases.append((f'dep-positions{i}', c03_exprgen.dep_schema(
            ctx.rng, positions=list(c03_exprgen.DEP_POS) + ['link-default', 'property-default', 'rewrite'])[0],
            'dep'))
    # DDL histories (schemas reached by ALTERs on inherited pointers, DROP/SET OWNED, RESET, renames …)
    for label, script in c03_history.checkpoints(c03_history.RESET_EXPRESSION, False):
        cases.append((f'hist-reset-expression-{label}', script, 'hist'))
    for label, script in c03_history.checkpoints(c03_history.DROP_OWNED_DESCENDANT, False):
        cases.append((f'hist-drop-owned-descendant-{label}', script, 'hist'))
    for h in range(ctx.budget(1, 12)):
        phases = c03_history.history(ctx.rng, shuffle=(h > 0 or not ctx.quick()))
        for label, script in c03_history.checkpoints(phases, every_statement=not ctx.quick()):
            if label == 'p0' and (h > 0 or ctx.quick()):
                continue        # the base alone is an ordinary schema
            cases.append((f'hist{h}-{label}', script, 'hist'))
    n = ctx.budget(6, 200)
    for i in range(n):
        size = ctx.rng.choice([1, 1, 2, 2, 3] if ctx.quick() else [1, 2, 3, 4, 6, 8])
        sdl, g = gen_schema(ctx.rng, size)
        cases.append((f'gen{i}', sdl, g))
    if not ctx.quick():
        # deterministic corpus / regression part first, then the streams round-robin, so that the
        # wall-clock budget of the thorough tier cuts every stream at about the same depth
        by = collections.OrderedDict((k, []) for k in ('corpus', 'scope', 'dep', 'history', 'generated'))
        for c in cases:
            by[stream_of(c[0])].append(c)
        ctx.rng.shuffle(by['history'])      # 12 histories x every statement: sample them evenly
        ordered = list(by.pop('corpus'))
        queues = [q for q in by.values() if q]
        while queues:
            for q in list(queues):
                ordered.append(q.pop(0))
                if not q:
                    queues.remove(q)
        cases = ordered
    return cases


def stream_of(tag):
    if re.match(r'gen\d', tag):
        return 'generated'
    if re.match(r'hist\d', tag):
        return 'history'
    if tag.startswith('dep-positions'):
        return 'dep'
    if tag.startswith('scope-gen') or tag == 'scope-all':
        return 'scope'
    return 'corpus'


THOROUGH_WALL_BUDGET_S = 20 * 60     # no new non-corpus case is started after this much wall time


def run(ctx: core.Ctx):
    t_start = time.time()
    proved = ctx.proof_stage(PROPS, ['EdbVerif.Props.C03', 'Driver.C03'], required=REQUIRED)
    ctx.log('proof stage:', 'ok' if proved else ctx.proof['broken'])

    try:
        R = Real()
    except core.Infra:
        raise
    except Exception as e:      # the REAL code no longer bootstraps its own standard library
        ctx.fail('bootstrap', f'the standard library no longer loads through the real schema engine: '
                              f'{type(e).__name__}: {str(e)[:300]}', {'exception': repr(e)[:1000]},
                 no_input=True)
        if not proved:
            ctx.proof_broken_verdict()
        ctx.cov.update({'evaluations': 0, 'distinct_nontrivial': 0, 'rule': 'bootstrap failed', 'samples': []})
        return
    ctx.log('std schema ready', R.env.std_info())

    lines = []          # driver lines
    expect = []         # (kind, key, real answer, detail) per line
    stats = collections.Counter()
    feats = collections.Counter()
    fields_seen = collections.Counter()
    samples = []
    timing = collections.Counter()
    scope_stats = collections.Counter()

    # ---- (a) printed-field table: real introspection vs the model's table
    table = field_table(R)
    for cls, fs in sorted(table.items()):
        lines.append(f'F|{cls}|{",".join(fs) or "-"}')
        expect.append(('F', f'fields:{cls}', 'ok', {'class': cls, 'real_fields': fs}))

    # ---- replayed cases / generated cases
    if ctx.replay:
        rp = json.load(open(ctx.replay))
        cases = []
        forced_ctx = {}          # schema text -> [(tag, modaliases)]: the contexts that failed for it
        for f in rp['failures']:
            d = f.get('detail')
            if not (isinstance(d, dict) and 'sdl' in d):
                continue
            if d['sdl'] not in forced_ctx:
                forced_ctx[d['sdl']] = []
                ddl_built = d.get('build') == 'ddl' or d.get('schema') in dict(FIXED_DDL)
                kind = 'scope' if d.get('build') == 'scope' else ('ddl' if ddl_built else None)
                if kind is None and str(d.get('schema', '')).startswith('dep-'):
                    kind = 'dep'
                if str(d.get('schema', '')).startswith('hist'):
                    kind = 'hist'
                cases.append((d.get('schema', 'replay'), d['sdl'], kind))
            if 'modaliases' in d:
                ma = {(None if k == 'null' else k): v for k, v in d['modaliases'].items()}
                if ma not in [m for _, m in forced_ctx[d['sdl']]]:
                    forced_ctx[d['sdl']].append((d.get('ctx_tag', 'replay'), ma))
    else:
        cases = schema_cases(ctx)
        forced_ctx = None

    distinct = set()
    n_eval = 0
    rejected = 0
    name_lines = 0
    case_time = {}
    t_case = time.time()
    prev_tag = None
    stream_done = collections.Counter()
    stream_skipped = collections.Counter()
    stream_total = collections.Counter(stream_of(c[0]) for c in cases)
    t_progress = time.time()
    for ci, (tag, sdl, g) in enumerate(cases):
        if prev_tag is not None:
            case_time[prev_tag] = round(time.time() - t_case, 1)
        stream = stream_of(tag)
        if not ctx.quick() and not ctx.replay and stream != 'corpus' \
                and time.time() - ctx.t0 > THOROUGH_WALL_BUDGET_S:
            stream_skipped[stream] += 1
            prev_tag = None
            continue
        stream_done[stream] += 1
        if time.time() - t_progress > 60:
            t_progress = time.time()
            ctx.log('progress:', ', '.join(f'{k} {stream_done[k]}/{stream_total[k]}' for k in stream_total),
                    f'| {n_eval} replays | now {tag}')
        prev_tag, t_case = tag, time.time()
        t0 = time.time()
        build = 'sdl'
        is_dep = False
        via_fallback = False
        try:
            if g == 'ddl':      # schema built by a DDL script (can do what SDL cannot, e.g. no `default`)
                orig = R.replay_ddl(sdl, {None: 'default'})
                g = None
                build = 'ddl'
            elif g == 'hist':   # a prefix of a DDL history
                g = None
                build = 'ddl'
                is_dep = True      # small context set, no name cases
                orig = R.replay_ddl(sdl, {None: 'default'})
            elif g == 'dep':    # SDL; only the context set differs
                g = None
                is_dep = True
                orig, via_fallback = load_robust(R, sdl, stats)
            elif g == 'scope':  # unqualified DDL applied under the module being populated
                g = None
                build = 'scope'
                orig, rej = R.build_scope(sdl)
                for mod_, stmt_, err_ in rej:
                    stats['scope statement rejected by the real engine'] += 1
                    ctx.fail(f'loader-rejects:{tag}:{digest(mod_ + stmt_)}',
                             f'a definition the unchanged tree accepts is rejected (current module {mod_}): '
                             f'{stmt_[:200]} -- {err_}',
                             {'schema': tag, 'sdl': f'# module {mod_}\n{stmt_}', 'build': 'scope'}, no_input=True)
            else:
                orig, via_fallback = load_robust(R, sdl, stats)
        except Exception as e:
            # every schema of the generator / corpus is accepted by the unchanged tree (measured on
            # 1000+ schemas): a rejection — by apply_sdl AND declaration by declaration as DDL in
            # the (referenced-first) document order — means the loader changed.  A text that only
            # apply_sdl rejects is an order-dependence of SDL loading (C11's property): the schema is
            # then obtained through the DDL fallback and C03's own oracles run on it.
            rejected += 1
            stats['schema rejected by the real loader: ' + type(e).__name__] += 1
            ctx.fail(f'loader-rejects:{tag}:{digest(sdl)}',
                     f'a schema the generator considers valid is rejected by the real loader: '
                     f'{type(e).__name__}: {str(e)[:200]}', {'schema': tag, 'sdl': sdl, 'build': build},
                     no_input=True)
            continue
        timing['load'] += time.time() - t0
        if g is not None:
            feats.update(g.feats)
        t0 = time.time()
        odump = dump(R, orig)
        A = abstract_schema(R, orig, table)
        timing['dump+abstract'] += time.time() - t0
        for p in A.problems:
            ctx.fail(f'abstraction:{tag}:{digest(p)}', 'cannot abstract the schema: ' + p,
                     {'schema': tag, 'sdl': sdl}, no_input=True)
        for (cls, fn) in sorted(A.unclassified):
            ctx.fail(f'unclassified-field:{cls}.{fn}',
                     f'field {cls}.{fn} carries an own explicit value but is neither in the printed-field '
                     f'table nor in the pinned derived-field list', {'schema': tag, 'sdl': sdl}, no_input=True)
        fields_seen.update(A.fields_seen)
        modules = A.modules
        sdigest = digest(sdl)

        texts = {}
        t0 = time.time()
        try:
            texts['ddl'] = R.s_ddl.ddl_text_from_schema(orig)
            texts['sdl'] = R.s_ddl.sdl_text_from_schema(orig)
        except Exception as e:
            ctx.fail(f'describe-crash:{tag}:{sdigest}', f'describe raised {type(e).__name__}: {e}',
                     {'schema': tag, 'sdl': sdl})
            continue
        timing['describe'] += time.time() - t0

        # ---- (a2) oracle on the text itself: every schema reference that no visible alias / variable
        #           binds is fully qualified (independent scope analysis, c03_scope.py)
        t0 = time.time()
        case_id = tag if g is None else f'gen:{sdigest}'
        scope_kinds = set()
        for lang in ('ddl', 'sdl'):
            try:
                reps, sstats = c03_scope.check_text(R, texts[lang], lang)
            except Exception as e:
                stats[f'scope analysis impossible ({lang}): {type(e).__name__}'] += 1
                continue
            scope_stats.update(sstats)
            for (cls_, fld, kind, name) in sorted(set(reps)):
                scope_kinds.add(kind)
                stats[f'unqualified reference in {lang} text: {kind}'] += 1
                ctx.fail(f'unqualified:{cls_}:{fld}:{kind}:{name}:{lang}:{case_id}',
                         f'the {lang.upper()} text of DESCRIBE contains the unqualified {kind.split("@")[0]} '
                         f'reference {name!r} in {cls_}.{fld} that no visible alias or variable binds'
                         + (' (an alias of that name is visible, but an alias cannot bind this position)'
                            if kind.endswith('@alias') else '')
                         + ': its meaning depends on the replaying session\'s current module',
                         {'schema': tag, 'sdl': sdl, 'build': build, 'lang': lang, 'text': texts[lang][:6000]})
        only_alias_defect = bool(scope_kinds) and all(k.endswith('@alias') for k in scope_kinds)
        timing['scope analysis'] += time.time() - t0

        # ---- (b) the text is what the abstraction says: every owned object is a CREATE, every
        #          qualified name of the text is a name of the abstraction and vice versa
        t0 = time.time()
        mentioned_heads = {m.split('::')[0] for m, _ in A.names} | {m.split('::')[0] for m in modules}
        for lang in ('ddl', 'sdl'):
            try:
                tree = (R.edgeql.parse_block(texts[lang]) if lang == 'ddl'
                        else [R.qlparser.parse_sdl(texts[lang])])
            except Exception as e:
                ctx.fail(f'describe-unparsable:{lang}:{tag}:{sdigest}',
                         f'{lang.upper()} text produced by describe is not valid input: '
                         f'{type(e).__name__}: {e}', {'schema': tag, 'sdl': sdl, 'text': texts[lang]})
                continue
            heads, names, alters = text_inventory(R, tree)
            got = collections.Counter()
            for (c, s), n in heads.items():
                if c != 'Module':
                    got[(c, s.split('::')[-1])] += n
            want_c = collections.Counter()
            for (c, s), n in A.heads.items():
                want_c[(c, s.split('::')[-1])] += n
            # every CREATE is an owned object; an owned object without a CREATE must be an owned
            # override of an inherited child, printed as ALTER
            if (got - want_c) or ((want_c - got) - alters):
                ctx.fail(f'inventory:{lang}:{tag}:{sdigest}',
                         f'the objects created by the {lang.upper()} text are not the owned objects of the schema',
                         {'schema': tag, 'sdl': sdl, 'only_in_text': sorted(map(str, (got - want_c).items())),
                          'only_in_schema': sorted(map(str, (want_c - got).items()))}, no_input=True)
            implicit = {('std', 'Object'), ('std', 'link'), ('std', 'property'), ('std', 'constraint')}
            tnames = {(m, n) for (m, n) in names if not m.startswith('__')} - implicit
            anames = set(A.names) - implicit
            if lang == 'ddl' and tnames != anames and not tag.startswith('hist-reset-expression'):
                ctx.fail(f'names:{lang}:{tag}:{sdigest}',
                         'qualified names in the text differ from the names the abstraction mentions',
                         {'schema': tag, 'sdl': sdl, 'only_in_text': sorted(tnames - anames),
                          'only_in_abstraction': sorted(anames - tnames)}, no_input=True)
            stats[f'inventory checked {lang}'] += 1
        timing['inventory'] += time.time() - t0

        # ---- (c) replay under contexts
        if forced_ctx is not None:
            benign, hostile = [], []
            for t_, ma in (forced_ctx.get(sdl) or [('default-module', {None: 'default'})]):
                (hostile if shadows(ma, modules, mentioned_heads) else benign).append((t_, ma))
        else:
            same_named = (c03_exprgen.MODULES if build == 'scope'
                          else getattr(g, 'same_named_modules', ()) if g is not None else ())
            benign, hostile = contexts_for(ctx.rng, modules, same_named=same_named)
            if tag.startswith('gen') and ctx.quick():
                hostile = [hostile[ci % len(hostile)]]      # one shadowing context per schema, kinds rotate
            if g is None and ctx.quick() and tag not in ('witness-two-modules', 'witness-same-short-name') \
                    and len(hostile) > 1:
                hostile = [hostile[ci % len(hostile)]]      # the two small witnesses keep every kind
            # the scope / dependent-validity / history streams are about the current module and the
            # declaration order, not about aliases: two benign contexts, no shadowing one (both tiers)
            if build == 'scope':
                benign = [b for b in benign if b[0] in ('default-module', 'other-module')]
                hostile = []
            if is_dep:
                benign = benign[:2]
                hostile = []
        known_migration_witness = False
        if tag in MIGRATION_WITNESSES:
            # deterministic trigger: migrating to the ORIGINAL declaration order (whether the SDL text
            # of DESCRIBE, which reorders declarations, also fails depends on object ids)
            try:
                R.replay_sdl(sdl, {None: 'default'})
            except Exception as e2:
                known_migration_witness = True
                ctx.fail(migration_key(R, orig, e2, tag),
                         'START MIGRATION TO <schema>; POPULATE MIGRATION; COMMIT MIGRATION fails on the real '
                         'engine for a schema that apply_sdl accepts (the populated DDL script cannot be '
                         f'applied): {type(e2).__name__}: {str(e2)[:160]}',
                         {'schema': tag, 'sdl': sdl, 'build': build, 'lang': 'sdl',
                          'modaliases': {'null': 'default'}})
        for lang in ('ddl', 'sdl'):
            first = True
            migration_broken = known_migration_witness
            for ctag, ma in benign + hostile:
                is_hostile = shadows(ma, modules, mentioned_heads)
                t0 = time.time()
                if not ctx.quick():
                    # both directions for the first context, upstream's direction for the other benign
                    # ones; a shadowing context is compared by the dump (its outcome is differs / error)
                    nd = 2 if first else (0 if is_hostile else 1)
                elif first:
                    nd = 2 if ci % 3 == 0 else 1     # upstream's direction always, the reverse on a third
                else:
                    nd = 0                           # other contexts: full dump comparison only
                coarse, det = real_outcome(R, orig, odump, lang, texts[lang], ma, deltas=nd, table=table)
                timing[f'replay {lang}'] += time.time() - t0
                first = False
                n_eval += 1
                stats[f'{lang} {"shadowing" if is_hostile else "benign"} ctx -> {coarse}'] += 1
                detail = {'schema': tag, 'sdl': sdl, 'build': build, 'lang': lang, 'ctx_tag': ctag,
                          'modaliases': {('null' if k is None else k): v for k, v in ma.items()},
                          'outcome': coarse, 'detail': det, 'text': texts[lang][:4000]}
                if coarse == 'error' and lang == 'sdl' and not is_hostile and not migration_broken \
                        and build == 'sdl' and not via_fallback:
                    # is it the describe text, or does migrating to this schema fail anyway?
                    try:
                        R.replay_sdl(sdl, ma)
                    except Exception as e2:
                        migration_broken = True
                        ctx.fail(migration_key(R, orig, e2, case_id),
                                 'START MIGRATION TO <schema>; POPULATE MIGRATION; COMMIT MIGRATION fails on the '
                                 'real engine for a schema that apply_sdl accepts (the populated DDL script '
                                 'cannot be applied) — with the original SDL and with the SDL text of DESCRIBE '
                                 f'alike: {type(e2).__name__}: {str(e2)[:160]}', detail)
                if migration_broken and lang == 'sdl':
                    detail['skip_corr'] = True      # outcome depends on object ids, nothing to compare
                elif coarse != 'same':
                    if tag == 'dep-object-constraint' and lang == 'sdl' and not is_hostile and coarse == 'error' \
                            and ('possibly more than one element' in str(det) or 'cardinality mismatch' in str(det)):
                        key = f'sdl-order-object-constraint:{ctx_key(ma)}'
                        what = ('the SDL text of DESCRIBE cannot be applied: sdl_to_ddl does not order an OBJECT-level '
                                '`constraint exclusive on (…)` before a default / function body whose cardinality '
                                'relies on it (only constraints declared on the pointer itself are pulled in)')
                        detail['skip_corr'] = True
                    elif tag.startswith('hist-reset-expression') and not is_hostile and coarse == 'differs' \
                            and 'computed_fields' in str(det):
                        key = f'reset-expression-target-computed:{lang}:{ctx_key(ma)}'
                        what = ('after ALTER PROPERTY q RESET EXPRESSION the pointer keeps `target` in computed_fields: '
                                'the DESCRIBE text replays, but the rebuilt schema differs from the original '
                                '(delta original -> rebuilt: alter property q { set type std::str; })')
                        detail['skip_corr'] = True
                    elif tag.startswith('hist-drop-owned-descendant') and not is_hostile and coarse == 'differs' \
                            and 'default::__|' in str(det) and '@default|C' in str(det):
                        key = f'drop-owned-stale-descendant:{lang}:{ctx_key(ma)}'
                        what = ('a field override (default / required / on target delete) on an inherited pointer of B '
                                'followed by DROP OWNED reverts the field in B but not in B\'s descendant C, which '
                                'keeps the stale value as "inherited"; DESCRIBE cannot express that, the rebuilt '
                                'schema has the reverted value in C')
                        detail['skip_corr'] = True
                    elif tag == 'no-default-module' and lang == 'sdl' and not is_hostile:
                        key = f'sdl-default-module:{ctx_key(ma)}'
                        what = ('SDL text of DESCRIBE for a schema without the module `default` rebuilds a '
                                'schema WITH an empty module `default` (apply_sdl always initialises it)')
                    elif is_hostile:
                        key = (f'alias-shadow:{lang}:{tag}:{ctx_key(ma)}' if g is None
                               else f'alias-shadow:{lang}:gen:{sdigest}:{ctx_key(ma)}')
                        what = (f'{lang.upper()} text of DESCRIBE does not rebuild the schema when a module '
                                f'alias of the replaying session shadows a module name '
                                f'({ctx_key(ma)}): {coarse}')
                    elif only_alias_defect:
                        key = f'unqualified-replay:{lang}:{case_id}:{ctx_key(ma)}'
                        what = (f'{lang.upper()} text of DESCRIBE does not rebuild the schema under this '
                                f'current module ({coarse}); the text contains unqualified names at positions '
                                f'where a same-named alias is visible (see the unqualified:*@alias keys)')
                        detail['skip_corr'] = True
                    else:
                        key = f'rebuild:{lang}:{tag}:{sdigest}:{ctx_key(ma)}'
                        what = f'{lang.upper()} text of DESCRIBE does not rebuild the schema: {coarse}'
                    ctx.fail(key, what, detail)
                detail['orig_tops'] = sorted(qn(m, n) for m, n in A.top_names)
                detail['orig_modules'] = list(A.modules)
                lines.append(d_line(lang, ma, R, A))
                expect.append(('D', f'{lang}:{tag}:{sdigest}:{ctx_key(ma)}', coarse, detail))
                dk = (sdigest, lang, ctx_key(ma))
                if dk not in distinct and len(A.heads) >= 2:
                    distinct.add(dk)
                if len(samples) < 6 and ci % 7 == 0 and lang == 'ddl':
                    samples.append({'schema': tag, 'lang': lang, 'ctx': ctx_key(ma), 'real': coarse,
                                    'objects': len(A.heads), 'sdl_head': sdl[:200]})

        # ---- (d) level 1: name lookup on this real schema
        if (ci % 3 == 0 and not is_dep) or not ctx.quick():
            t0 = time.time()
            for line, real, op in name_cases(R, ctx.rng, orig, set(modules), ctx.budget(120, 300)):
                lines.append(line)
                expect.append((op, 'names:' + line, real, {'line': line}))
                name_lines += 1
            timing['name cases'] += time.time() - t0

    if prev_tag is not None:
        case_time[prev_tag] = round(time.time() - t_case, 1)
    if stream_skipped:
        ctx.log(f'wall-clock budget ({THOROUGH_WALL_BUDGET_S}s) reached: cases not started:', dict(stream_skipped))
    ctx.log('slowest cases:', sorted(case_time.items(), key=lambda kv: -kv[1])[:8])
    ctx.log(f'{sum(stream_done.values())} of {len(cases)} schemas run ({rejected} rejected), {n_eval} replays, {name_lines} name lookups; '
            f'real side {time.time() - t_start:.0f}s; timing {dict((k, round(v, 1)) for k, v in timing.items())}')

    # ---- model side
    t0 = time.time()
    model = ctx.driver('C03', lines)
    if len(model) != len(lines):
        raise core.Infra(f'driver returned {len(model)} lines for {len(lines)}')
    ctx.log(f'driver: {len(lines)} lines in {time.time() - t0:.0f}s')
    n_dis = 0
    agree = collections.Counter()
    agree_fine = collections.Counter()
    for (kind, key, real, detail), mout, line in zip(expect, model, lines):
        if mout == 'bad-op':
            raise core.Infra(f'driver rejected line: {line[:300]}')
        if kind == 'D' and detail.get('skip_corr'):
            agree['skipped (root cause outside the model: migration path / unqualified@alias)'] += 1
        elif kind == 'D':
            mcoarse = mout.split(' ')[0]
            mcoarse = {'err': 'error'}.get(mcoarse, mcoarse)
            agree[f'{real}/{mcoarse}'] += 1
            if mcoarse != real:
                n_dis += 1
                ctx.fail('corr:' + key, f'model predicts {mout[:200]!r}, real engine: {real}',
                         dict(detail, model=mout, stream='describe+replay outcome'), no_input=True)
            else:
                fine = fine_compare(mout, real, detail)
                if fine is not None:
                    agree_fine[fine[0]] += 1
                    if fine[0] == 'fine-disagree':
                        n_dis += 1
                        ctx.fail('corr-fine:' + key, f'same outcome class but {fine[1]}',
                                 dict(detail, model=mout, stream='describe+replay outcome (detail)'),
                                 no_input=True)
        elif kind == 'F':
            if mout != 'ok':
                n_dis += 1
                ctx.fail(key, f'printed-field table of class {detail["class"]} changed: '
                              f'real {detail["real_fields"]}, {mout}', detail, no_input=True)
        else:
            if mout != real:
                n_dis += 1
                ctx.fail('corr:' + key[:300], f'name lookup: model {mout!r}, real {real!r}',
                         dict(detail, model=mout, real=real, stream='name resolution'), no_input=True)
    if not proved:
        ctx.proof_broken_verdict()

    ctx.cov.update({
        'evaluations': n_eval + name_lines + len(table),
        'distinct_nontrivial': len(distinct),
        'rule': 'one evaluation = (schema, language, session context) replayed on the real engine and '
                'predicted by the model; distinct = distinct (schema text, language, context); non-trivial = '
                'schema with at least 2 owned objects.  Name-lookup cases and field-table rows are counted in '
                'evaluations only.',
        'samples': samples,
        'schemas': len(cases) - rejected, 'schemas_rejected_by_loader': rejected,
        'replays': n_eval, 'name_lookup_cases': name_lines, 'field_table_classes': len(table),
        'outcomes': dict(stats), 'model_vs_real_outcomes': dict(agree),
        'model_vs_real_detail': dict(agree_fine),
        'feature_histogram': dict(sorted(feats.items())),
        'fields_with_own_values_seen': {f'{c}.{f}': n for (c, f), n in sorted(fields_seen.items())},
        'disagreements_model_vs_impl': n_dis,
        'timing_s': {k: round(v, 1) for k, v in timing.items()},
        'text_scope_analysis': dict(scope_stats),
        'seconds_per_case': case_time if ctx.quick() else dict(sorted(case_time.items(), key=lambda kv: -kv[1])[:40]),
        'streams': {k: {'cases': stream_total[k], 'run': stream_done[k], 'not_started_budget': stream_skipped[k]}
                    for k in stream_total},
        'std_schema': R.env.std_info(),
        'exhaustive': False,
        'correspondence': 'real ddl_text_from_schema/sdl_text_from_schema + real apply under modaliases vs '
                          'Lean describe+load on the abstracted schema (outcome class); real FlatSchema.get / '
                          '_classname_from_ast / tracer.resolve_name vs Lean resolveRef / classname / '
                          'resolveTracer (exact); real Field flags vs Lean printedFields (exact)',
    })
    ctx.assumptions += [
        'a session context is a modaliases mapping {None: current module, alias: module}; alias keys are '
        'single identifiers (grammar: SET ALIAS <Identifier> AS MODULE …)',
        'replay = the steps of edb.testbase.lang.BaseSchemaTest.run_ddl (delta_from_ddl + apply per statement; '
        'START/POPULATE/COMMIT MIGRATION for SDL) with a general modaliases mapping, testmode=True',
        'schema equality = equal dumps of every stored field of every user object (ids ignored) for every replay + '
        'delta_schemas empty (thorough: both ways for every replay; quick: rebuilt->orig as upstream '
        '_assert_migration_consistency for the first context of each (schema, language), both ways for every '
        'third schema)',
    ]
    ctx.trusted_base += [
        'hand-written model EdbVerif/Model/Describe.lean (names, schema algebra, describe/replay, tokens); tied '
        'by the differential runs above',
        'harness/bridge (LALR tables + LR driver around the real tokenizer/grammar) and harness/shim',
        'harness/props/c03.py: generator, abstraction of real schemas into the model algebra, dump, oracle',
    ]
