"""C05 — backend tables and columns track the schema through every migration.

Proof: lean/EdbVerif/Props/C05.lean over Model/Storage.lean (catalog ≈ layout(schema)
is an invariant of every accepted, guarded DDL history of the abstract machine).

Tie (level 2): random DDL histories are run through the REAL schema engine and the
REAL pgsql delta (`pg_delta.CommandMeta.adapt(delta).apply(...)`); the dbops command
tree is captured BEFORE SQL text generation, its `CreateTable / DropTable /
AlterTable{AddColumn,DropColumn}` operations are replayed (conditions evaluated) on an
abstract catalog and after every statement compared
  (i)  with the catalog of the Lean machine (fed the elementary changes obtained by
       diffing the abstraction of the real schema before/after), and the Lean `layout`
       with the real expected layout;
  (ii) ORACLE: with the tables/columns the query compiler will address, computed by the
       real `types.get_pointer_storage_info` / `types.has_table` on every user object
       type and pointer of the resulting real schema.
Level 1: the decision functions `storageInfo` / `hasTableV` are compared pointwise with
the real functions on every pointer of a purpose-built schema.
"""
from __future__ import annotations

import json
import re
import time

from lib import core

PROPS = 'EdbVerif/Props/C05.lean'
REQUIRED = [
    'EdbVerif.C05.C05_tracks', 'EdbVerif.C05.C05_no_backend_error', 'EdbVerif.C05.C05_step',
    'EdbVerif.C05.C05_rename', 'EdbVerif.C05.C05_rename_layout', 'EdbVerif.C05.C05_drop_all',
    'EdbVerif.C05.C05_no_drop_live', 'EdbVerif.C05.C05_layout_decisions',
    'EdbVerif.C05.C05_rename_dunder_counterexample', 'EdbVerif.C05.C05_setexpr_cardinality_counterexample',
    'EdbVerif.C05.C05_resetexpr_lprops_counterexample',
    'EdbVerif.C05.C05_lprop_named_source_counterexample', 'EdbVerif.C05.C05_lprop_named_target_counterexample',
]

MODALIASES = {None: 'default'}


# ===================================================================== real side
class Real:
    """everything that touches /repo"""

    def __init__(self):
        from bridge import env
        env.setup()
        self.env = env
        self.std = env.std_schema()
        from edb import edgeql
        from edb import errors
        from edb.schema import ddl as s_ddl, delta as sd, pointers as s_pointers, \
            objtypes as s_objtypes, links as s_links, scalars as s_scalars
        from edb.pgsql import delta as pg_delta, dbops, types as pgtypes, common as pgcommon
        self.edgeql, self.errors = edgeql, errors
        self.s_ddl, self.sd, self.s_pointers, self.s_objtypes, self.s_links = \
            s_ddl, sd, s_pointers, s_objtypes, s_links
        self.s_scalars = s_scalars
        self.pg_delta, self.dbops, self.pgtypes, self.pgcommon = pg_delta, dbops, pgtypes, pgcommon
        self._base = None

    def base_schema(self):
        if self._base is None:
            self._base = self.env.load_schema('')
            self._base = self.env.run_ddl(self._base, 'create module default if not exists;') \
                if not self._base.has_module('default') else self._base
        return self._base

    # -------------------------------------------------- one statement through the real stack
    def apply(self, schema, text):
        """parse one DDL statement, build the schema delta, adapt it with the real
        pgsql delta and apply.  Returns (new schema, flat list of storage ops)."""
        stmts = self.edgeql.parse_block(text)
        assert len(stmts) == 1, text
        _new_schema, delta = self.s_ddl.delta_and_schema_from_ddl(
            stmts[0], schema=schema, modaliases=MODALIASES, testmode=True)
        pgdelta = self.pg_delta.CommandMeta.adapt(delta)
        context = self.sd.CommandContext(modaliases=MODALIASES, testmode=True)
        schema2 = pgdelta.apply(schema, context)
        ops: list = []
        self.flatten(pgdelta, ops)
        return schema2, ops, pgdelta

    def flatten(self, root, out):
        """storage-relevant dbops in `generate()` order, each with the stack of
        (conditions, neg_conditions) of itself and the enclosing groups.
        Mirrors MetaCommand.generate / CommandGroup.generate_self_block /
        CompositeCommandGroup.generate_self_block."""
        dbops, pg_delta, sd = self.dbops, self.pg_delta, self.sd

        def rec(op, conds):
            if isinstance(op, pg_delta.MetaCommand):
                for c in op.pgops:
                    rec(c, conds)
                return
            if isinstance(op, sd.Command):
                return
            if not isinstance(op, dbops.Command):
                out.append(('foreign', None, op, conds))
                return
            my = conds + [(tuple(op.conditions), tuple(op.neg_conditions))]
            if isinstance(op, dbops.AlterTable):
                cond_ops, plain = [], []
                for o in op.ops:
                    if isinstance(o, tuple) and (o[1] or o[2]):
                        cond_ops.append(o)
                    else:
                        plain.append(o[0] if isinstance(o, tuple) else o)
                # conditional fragments are emitted first, one statement each, then the
                # unconditional ones in a single ALTER TABLE
                for o, c, n in cond_ops:
                    out.append(('alter', op.name, o, my + [(tuple(c or ()), tuple(n or ()))]))
                for o in plain:
                    out.append(('alter', op.name, o, my))
            elif isinstance(op, dbops.CommandGroup):
                for c in op.commands:
                    rec(c, my)
            elif isinstance(op, dbops.CompositeCommandGroup):
                for o in op.commands:
                    out.append(('composite', getattr(op, 'name', None), o, my))
            else:
                out.append(('cmd', None, op, my))

        rec(root, [])

    # -------------------------------------------------- cross-check of the tree walk
    SQL_EV = re.compile(
        r'CREATE (?:TEMPORARY )?TABLE (?P<ct>\S+) \(|DROP TABLE (?P<dt>[^\s;]+)|'
        r'ALTER TABLE (?:ONLY )?(?P<at>\S+)|ADD COLUMN (?P<ac>"(?:[^"]|"")+"|\S+)|'
        r'DROP COLUMN (?P<dc>"(?:[^"]|"")+"|[^\s;,]+)')

    def sql_events(self, pgdelta):
        """the same storage events read off the SQL text the real generate() produces"""
        block = self.dbops.PLTopBlock()
        pgdelta.generate(block)
        text = block.to_string()

        def tn(q):
            return q.split('.', 1)[-1].strip('"')

        ev, cur = [], None
        for m in self.SQL_EV.finditer(text):
            if m.group('ct'):
                ev.append(('create', tn(m.group('ct'))))
            elif m.group('dt'):
                ev.append(('drop', tn(m.group('dt'))))
            elif m.group('at'):
                cur = tn(m.group('at'))
            elif m.group('ac'):
                ev.append(('addcol', cur, m.group('ac').strip('"')))
            elif m.group('dc'):
                ev.append(('dropcol', cur, m.group('dc').strip('"')))
        return ev

    def walk_events(self, ops):
        dbops = self.dbops
        ev = []
        for kind, tname, op, conds in ops:
            if isinstance(op, dbops.CreateTable):
                ev.append(('create', op.name[1]))
            elif isinstance(op, dbops.DropTable):
                ev.append(('drop', op.name[1]))
            elif isinstance(op, dbops.AlterTableAddColumn):
                ev.append(('addcol', tname[1], op.attribute.name))
            elif isinstance(op, dbops.AlterTableDropColumn):
                ev.append(('dropcol', tname[1], op.attribute.name))
        return ev

    def cond_holds(self, cat, c):
        dbops = self.dbops
        if isinstance(c, dbops.TableExists):
            return c.name in cat
        if isinstance(c, dbops.ColumnExists):
            return c.table_name in cat and c.column_name in cat[c.table_name]
        return None

    def replay(self, cat, ops):
        """execute the storage ops on `cat` ({table name: set(column names)});
        returns (log, errors)"""
        dbops = self.dbops
        log, errs = [], []
        for kind, tname, op, conds in ops:
            cls = type(op).__name__
            is_storage = isinstance(op, (dbops.CreateTable, dbops.DropTable,
                                         dbops.AlterTableAddColumn, dbops.AlterTableDropColumn))
            if not is_storage:
                if ('Rename' in cls and 'Table' in cls) or cls in ('AlterTableRenameTo', 'AlterTableRenameColumn',
                                                                   'AlterTableSetSchema'):
                    errs.append(f'unhandled storage op {cls}')
                continue
            go = True
            for cs, ns in conds:
                for c, want in [(c, True) for c in cs] + [(c, False) for c in ns]:
                    h = self.cond_holds(cat, c)
                    if h is None:
                        errs.append(f'unknown condition {type(c).__name__} on {cls}')
                    elif h != want:
                        go = False
            if not go:
                log.append(('skip', cls))
                continue
            if isinstance(op, dbops.CreateTable):
                if op.name in cat:
                    errs.append(f'CREATE TABLE of existing table {op.name[1]}')
                cat[op.name] = set(c.name for c in op.table.iter_columns(only_self=True))
                log.append(('create', op.name[1], tuple(sorted(cat[op.name]))))
            elif isinstance(op, dbops.DropTable):
                if op.name not in cat:
                    errs.append(f'DROP TABLE of missing table {op.name[1]}')
                else:
                    del cat[op.name]
                log.append(('drop', op.name[1]))
            elif isinstance(op, dbops.AlterTableAddColumn):
                col = op.attribute.name
                if tname not in cat:
                    errs.append(f'ADD COLUMN {col} to missing table {tname[1]}')
                elif col in cat[tname]:
                    errs.append(f'ADD COLUMN of existing column {tname[1]}.{col}')
                else:
                    cat[tname].add(col)
                log.append(('addcol', tname[1], col))
            elif isinstance(op, dbops.AlterTableDropColumn):
                col = op.attribute.name
                if tname not in cat or col not in cat[tname]:
                    errs.append(f'DROP COLUMN of missing column {tname[1]}.{col}')
                else:
                    cat[tname].discard(col)
                log.append(('dropcol', tname[1], col))
        return log, errs

    # -------------------------------------------------- ORACLE: what the compiler addresses
    def _user_objects(self, schema):
        # one scan of the schema per schema object (the scan dominates the harness's own cost)
        c = getattr(self, '_uo_cache', None)
        if c is None or c[0] is not schema:
            objs, ptrs = [], []
            for o in schema.get_objects(exclude_stdlib=True):
                if isinstance(o, self.s_objtypes.ObjectType):
                    objs.append(o)
                elif isinstance(o, self.s_pointers.Pointer):
                    ptrs.append(o)
            c = self._uo_cache = (schema, objs, ptrs)
        return c

    def user_objtypes(self, schema):
        return list(self._user_objects(schema)[1])

    def user_pointers(self, schema):
        return list(self._user_objects(schema)[2])

    def expected(self, schema):
        """{table: set(columns)} addressed for the schema, by the real types.py functions;
        plus the list of columns addressed in tables that are not expected to exist."""
        pgtypes, bn = self.pgtypes, self.pgcommon.get_backend_name
        tables: dict = {}
        for o in self.user_objtypes(schema):
            if pgtypes.has_table(o, schema):
                tables[bn(schema, o, catenate=False)] = set()
        ptrs = self.user_pointers(schema)
        for p in ptrs:
            if pgtypes.has_table(p, schema):
                # link / multi-property tables are addressed through (source, target)
                tables[bn(schema, p, catenate=False)] = {'source', 'target'}
        dangling = []
        for p in ptrs:
            if p.is_non_concrete(schema) or p.is_pure_computable(schema) or p.get_is_derived(schema):
                continue
            src = p.get_source(schema)
            if not pgtypes.has_table(src, schema):
                continue
            if p.get_shortname(schema).name == '__type__':
                continue        # never stored: the compiler derives it from the table
            for lb in (False, True):
                if lb and p.is_link_property(schema):
                    continue
                info = pgtypes.get_pointer_storage_info(p, schema=schema, link_bias=lb)
                if info is None or info.table_name is None:
                    continue
                if info.table_name not in tables:
                    dangling.append((info.table_name[1], info.column_name, str(p.get_name(schema))))
                else:
                    tables[info.table_name].add(info.column_name)
        return tables, dangling

    # -------------------------------------------------- the consumer side: the compiler's storage lookup
    def stored_pointers(self, schema):
        pgtypes = self.pgtypes
        for p in self.user_pointers(schema):
            if p.is_non_concrete(schema) or p.is_pure_computable(schema) or p.get_is_derived(schema):
                continue
            if not pgtypes.has_table(p.get_source(schema), schema):
                continue
            if p.get_shortname(schema).name == '__type__':
                continue
            yield p

    def compiler_lookup(self, schema, cat):
        """For every stored user pointer: what the SQL compiler's lookup answers
        (`irtyputils.ptrref_from_ptrcls` + `pgtypes.get_ptrref_storage_info`, resolve_type and
        link_bias variants) against (a) `get_pointer_storage_info` on the schema object and
        (b) the catalog (the addressed table / column exists).  Nothing is cleared between
        calls: the process-wide memo of `_get_ptrref_storage_info` sees the whole history."""
        from edb.ir import typeutils as irtyputils
        pgtypes = self.pgtypes
        bad = []
        n = 0
        for p in self.stored_pointers(schema):
            name = str(p.get_name(schema))
            if (p.is_link_property(schema) and not p.is_special_pointer(schema)
                    and p.get_shortname(schema).name in ('source', 'target')):
                name = 'USER-LPROP-NAMED-ENDPOINT ' + name      # finding 4: special-cased by name
            try:
                ptrref = irtyputils.ptrref_from_ptrcls(schema=schema, ptrcls=p, cache=None, typeref_cache=None)
            except Exception as e:
                bad.append(f'{name}: ptrref_from_ptrcls raised {type(e).__name__}: {e}'[:200])
                continue
            for lb in (False, True):
                if lb and p.is_link_property(schema):
                    continue
                for rt in (False, True):
                    n += 1
                    try:
                        i1 = pgtypes.get_ptrref_storage_info(ptrref, resolve_type=rt, link_bias=lb, allow_missing=True)
                        i2 = pgtypes.get_pointer_storage_info(p, schema=schema, resolve_type=rt, link_bias=lb)
                    except Exception as e:
                        bad.append(f'{name} link_bias={lb}: lookup raised {type(e).__name__}: {e}'[:200])
                        continue
                    t1 = None if i1 is None else (i1.table_name, i1.table_type, i1.column_name,
                                                  tuple(i1.column_type) if rt and i1.column_type else None)
                    t2 = None if i2 is None else (i2.table_name, i2.table_type, i2.column_name,
                                                  tuple(i2.column_type) if rt and i2.column_type else None)
                    endpoint = p.is_link_property(schema) and p.is_special_pointer(schema)
                    if t1 != t2 and not endpoint:
                        # (`@source` / `@target` are answered differently by the two functions on a single
                        # link with properties — inline column vs link table; both exist — so for them only
                        # existence is required)
                        bad.append(f'{name} link_bias={lb} resolve_type={rt}: compiler lookup {t1} but the schema '
                                   f'object is stored at {t2}')
                    if i1 is not None and i1.table_name is not None and not rt:
                        if i1.table_name not in cat:
                            bad.append(f'{name} link_bias={lb}: compiler addresses table {i1.table_name[1]} '
                                       'which does not exist')
                        elif i1.column_name not in cat[i1.table_name]:
                            bad.append(f'{name} link_bias={lb}: compiler addresses column '
                                       f'{i1.table_name[1]}.{i1.column_name} which does not exist')
        return n, bad

    SQL_TABLE = re.compile(r'edgedbpub\."([0-9a-f]{8}-[0-9a-f-]{27})"')
    SQL_COL = re.compile(r'("[^"]+"|[A-Za-z_][A-Za-z0-9_]*)\."([0-9a-f]{8}-[0-9a-f-]{27})"')

    def queries_for(self, schema, ptr_ids, limit):
        """EdgeQL queries reading the given pointers: `select T { p }`, `select T.p`, `select T.l@q`"""
        out = []
        for p in self.user_pointers(schema):
            if str(p.id) not in ptr_ids or p.is_non_concrete(schema) or p.get_is_derived(schema):
                continue
            src = p.get_source(schema)
            pn = p.get_shortname(schema).name
            if pn in ('__type__', 'source', 'target'):
                continue
            if isinstance(src, self.s_pointers.Pointer):
                t = src.get_source(schema)
                if t is None:
                    continue
                tag = 'lprop-of-computed-link' if src.is_pure_computable(schema) else ''
                out.append((f'select {t.get_name(schema)}.{bq(src.get_shortname(schema).name)}@{bq(pn)}', tag))
            elif isinstance(src, self.s_objtypes.ObjectType) and self.pgtypes.has_table(src, schema):
                tn = str(src.get_name(schema))
                out.append((f'select {tn} {{ {bq(pn)} }}', ''))
                out.append((f'select {tn}.{bq(pn)}', ''))
                if isinstance(p, self.s_links.Link):
                    tag = 'lprop-of-computed-link' if p.is_pure_computable(schema) else ''
                    for lp in p.get_pointers(schema).objects(schema):
                        if not lp.is_special_pointer(schema):
                            out.append((f'select {tn}.{bq(pn)}@{bq(lp.get_shortname(schema).name)}', tag))
            if len(out) >= limit:
                break
        return out[:limit]

    def compile_queries(self, schema, cat, queries):
        """real EdgeQL -> IR -> SQL compilation; every table / id-named column the SQL text references
        must exist in the catalog"""
        from edb.pgsql import compiler as pgc, codegen as pgcodegen
        allcols = set()
        for cols in cat.values():
            allcols |= cols
        bad, errors, n = [], [], 0
        for q, tag in queries:
            try:
                ir = self.env.compile_to_ir(schema, q)
                res = pgc.compile_ir_to_sql_tree(ir, output_format=pgc.OutputFormat.NATIVE)
                sql = pgcodegen.generate_source(res.ast)
            except Exception as e:
                errors.append(f'{q}: {type(e).__name__}: {e}'[:200])
                continue
            n += 1
            for t in set(self.SQL_TABLE.findall(sql)):
                if ('edgedbpub', t) not in cat:
                    bad.append((tag, f'{q}: the SQL reads table edgedbpub."{t}" which does not exist'))
            for c in {col for alias, col in self.SQL_COL.findall(sql) if not alias.strip('"').startswith('edgedb')}:
                if c not in allcols:
                    bad.append((tag, f'{q}: the SQL reads column "{c}" which exists in no table'))
        return n, bad, errors

    # -------------------------------------------------- abstraction of the real schema
    def alpha(self, schema):
        pgtypes = self.pgtypes
        types, ptrs = {}, {}
        objs = self.user_objtypes(schema)
        for o in objs:
            if pgtypes.has_table(o, schema):
                types[str(o.id)] = dict(name=str(o.get_name(schema)),
                                        abstract=bool(o.get_abstract(schema)), bases=[])
        for o in objs:
            if str(o.id) in types:
                types[str(o.id)]['bases'] = [str(b.id) for b in o.get_bases(schema).objects(schema)
                                             if str(b.id) in types]
        for p in self.user_pointers(schema):
            src = p.get_source(schema)
            if isinstance(src, self.s_pointers.Pointer):
                continue            # link properties are listed under their link
            if src is not None and str(src.id) not in types:
                continue
            if p.get_is_derived(schema):
                continue
            is_link = isinstance(p, self.s_links.Link)
            single = True if src is None else bool(p.singular(schema))
            d = dict(src=None if src is None else str(src.id), kind='L' if is_link else 'P',
                     name=p.get_shortname(schema).name,
                     single=single, required=bool(p.get_required(schema)),
                     computed=bool(p.is_pure_computable(schema)),
                     owned=True if src is None else bool(p.get_owned(schema)), lprops={})
            if is_link:
                for lp in p.get_pointers(schema).objects(schema):
                    if lp.is_special_pointer(schema):
                        continue
                    d['lprops'][str(lp.id)] = dict(name=lp.get_shortname(schema).name,
                                                   computed=bool(lp.is_pure_computable(schema)),
                                                   owned=bool(lp.get_owned(schema)))
            ptrs[str(p.id)] = d
        return dict(types=types, ptrs=ptrs)


# ===================================================================== naming
class Ids:
    """uuid -> small numbers (per history), names -> numbers"""

    def __init__(self):
        self.ids: dict[str, int] = {}
        self.kinds: dict[str, str] = {}
        self.names: dict[str, int] = {}

    def id(self, u, kind=None):
        if u not in self.ids:
            self.ids[u] = len(self.ids)
        if kind:
            self.kinds[u] = kind
        return self.ids[u]

    def name(self, s):
        if s not in self.names:
            self.names[s] = len(self.names)
        return self.names[s]

    def pname(self, s):
        if s == 'id':
            return 'i'
        if s == '__type__':
            return 't'
        if s.startswith('__'):
            return f'd{self.name(s)}'
        return f'p{self.name(s)}'

    def lname(self, s):
        """link property names: `source` / `target` keep their identity (the code special-cases them)"""
        if s == 'source':
            return 's'
        if s == 'target':
            return 't'
        return str(self.name(s))

    def table(self, t):
        u = t[1]
        k = self.kinds.get(u)
        if k is None or u not in self.ids:
            return f'x{u}'
        return f'{k}{self.ids[u]}'

    def col(self, c):
        if c == 'id':
            return 'id'
        if c == 'source':
            return 's'
        if c == 'target':
            return 't'
        if c == '__type__':
            return 'd0'
        if c.startswith('__'):
            return f'd{self.name(c) + 1}'
        if c in self.ids:
            return f'c{self.ids[c]}'
        return f'x{c}'

    def cat(self, cat):
        return {self.table(t): frozenset(self.col(c) for c in cols) for t, cols in cat.items()}


def b01(b):
    return '1' if b else '0'


def register(ids: Ids, a):
    for t in sorted(a['types'], key=lambda t: a['types'][t]['name']):
        ids.id(t, 'o')
    for p in sorted(a['ptrs'], key=lambda p: (a['ptrs'][p]['src'] or '', a['ptrs'][p]['name'])):
        ids.id(p, 'p')
        for lp in sorted(a['ptrs'][p]['lprops'], key=lambda l: a['ptrs'][p]['lprops'][l]['name']):
            ids.id(lp, 'c')


def create_ptr_cmds(ids, pid, d):
    src = '-' if d['src'] is None else str(ids.id(d['src']))
    out = [f"cp {ids.id(pid)} {src} {d['kind']} {ids.pname(d['name'])} "
           f"{b01(d['single'])} {b01(d['required'])} {b01(d['computed'])}"]
    for lp, l in sorted(d['lprops'].items(), key=lambda kv: ids.id(kv[0])):
        out.append(f"al {ids.id(pid)} {ids.id(lp)} {ids.lname(l['name'])} {b01(l['computed'])}")
    return out


def diff_cmds(ids: Ids, a0, a1):
    """elementary model commands taking the abstraction a0 to a1; second result is a list
    of reasons why the change is outside the model's alphabet"""
    register(ids, a1)
    T0, T1, P0, P1 = a0['types'], a1['types'], a0['ptrs'], a1['ptrs']
    cmds, oom = [], []
    by_id = lambda u: ids.id(u)
    for t in sorted(set(T1) - set(T0), key=by_id):
        cmds.append(f"ct {ids.id(t)} {ids.name(T1[t]['name'])} {b01(T1[t]['abstract'])}")
    for t in sorted(T1, key=by_id):
        old = T0.get(t)
        new = T1[t]
        if old is not None and old['name'] != new['name']:
            cmds.append(f"rt {ids.id(t)} {ids.name(new['name'])}")
        if old is not None and old['abstract'] != new['abstract']:
            cmds.append(f"ab {ids.id(t)} {b01(new['abstract'])}")
        if (old['bases'] if old else []) != new['bases']:
            cmds.append(f"bs {ids.id(t)} " + (','.join(str(ids.id(b)) for b in new['bases']) or '-'))
    # pointers that go away while their source stays
    for p in sorted(set(P0) - set(P1), key=by_id):
        src = P0[p]['src']
        if src is None or src in T1:
            cmds.append(f'dp {ids.id(p)}')
    for t in sorted(set(T0) - set(T1), key=by_id):
        cmds.append(f'dt {ids.id(t)}')
    for p in sorted(set(P1) - set(P0), key=by_id):
        cmds += create_ptr_cmds(ids, p, P1[p])
    for p in sorted(set(P1) & set(P0), key=by_id):
        o, n = P0[p], P1[p]
        i = ids.id(p)
        if o['src'] != n['src'] or o['kind'] != n['kind']:
            oom.append('pointer changed source/kind')
        if o['name'] != n['name']:
            cmds.append(f"rp {i} {ids.pname(n['name'])}")
        # The order mirrors what the real handlers see inside ONE statement: the expression field is
        # set in `_alter_begin`, so link-property subcommands run against an already computed /
        # already stored link; on computed -> stored `_create_link` runs before the subcommands
        # (drops of link properties were no-ops on the computed link, additions add their column
        # afterwards).  For guarded steps the order is immaterial (C05_tracks: any order ends in
        # layout(final schema)).
        lp_down, lp_up = [], []
        for lp in sorted(set(o['lprops']) - set(n['lprops']), key=by_id):
            lp_down.append(f'dl {i} {ids.id(lp)}')
        for lp in sorted(set(n['lprops']) & set(o['lprops']), key=by_id):
            lo, ln = o['lprops'][lp], n['lprops'][lp]
            if lo['name'] != ln['name']:
                lp_up.append(f"rl {i} {ids.id(lp)} {ids.lname(ln['name'])}")
            if lo['computed'] != ln['computed']:
                (lp_down if ln['computed'] else lp_up).append(f"cl {i} {ids.id(lp)} {b01(ln['computed'])}")
        for lp in sorted(set(n['lprops']) - set(o['lprops']), key=by_id):
            l = n['lprops'][lp]
            lp_up.append(f"al {i} {ids.id(lp)} {ids.lname(l['name'])} {b01(l['computed'])}")
        rq = [f"rq {i} {b01(n['required'])}"] if o['required'] != n['required'] else []
        if not o['computed'] and n['computed']:
            cmds += [f"se {i} {b01(n['single'])}"] + rq + lp_down + lp_up
        elif o['computed'] and not n['computed']:
            if o['single'] != n['single']:
                cmds.append(f"sg {i} {b01(n['single'])}")       # while still computed: schema only
                oom.append('computed -> stored with a cardinality change')
            if n.get('owned', True):
                # the altered link itself: `_create_link` first, then its link-property subcommands
                cmds += [f're {i}'] + rq + lp_down + lp_up
            else:
                # an inheriting link: the propagated link properties are created while it is still
                # computed, `_create_link` comes afterwards
                cmds += lp_up + [f're {i}'] + rq + lp_down
        else:
            if o['single'] != n['single']:
                cmds.append(f"sg {i} {b01(n['single'])}")
            cmds += rq + lp_down + lp_up
    return cmds, oom


def alpha_canon(ids: Ids, a):
    """the abstraction in the shape of the driver's schema dump"""
    ts = frozenset((ids.id(t), ids.name(d['name']), d['abstract'], tuple(ids.id(b) for b in d['bases']))
                   for t, d in a['types'].items())
    ps = frozenset((ids.id(p), None if d['src'] is None else ids.id(d['src']), d['kind'], ids.pname(d['name']),
                    d['single'], d['required'], d['computed'],
                    frozenset((ids.id(lp), ids.lname(l['name']), l['computed']) for lp, l in d['lprops'].items()))
                   for p, d in a['ptrs'].items())
    return ts, ps


def parse_cat(s):
    body, _, stale = s.partition('#')
    out = {}
    for part in body.split(';'):
        if not part:
            continue
        t, _, cols = part.partition(':')
        out[t] = frozenset(c for c in cols.split(',') if c)
    return out, stale


def parse_schema(s):
    tpart, _, ppart = s.partition('#')
    ts, ps = set(), set()
    for x in tpart.split(';'):
        if not x:
            continue
        f = x[1:].split(':')
        ts.add((int(f[0]), int(f[1]), f[2] == '1',
                tuple(int(b) for b in f[3].split(',')) if f[3] != '-' else ()))
    for x in ppart.split(';'):
        if not x:
            continue
        f = x[1:].split(':')
        lps = frozenset((int(l.split('/')[0]), l.split('/')[1], l.split('/')[2] == '1')
                        for l in f[7].split(',') if l)
        ps.add((int(f[0]), None if f[1] == '-' else int(f[1]), f[2], f[3], f[4] == '1', f[5] == '1',
                f[6] == '1', lps))
    return frozenset(ts), frozenset(ps)


def cat_diff(got, want):
    """classify the difference of two {table: cols} catalogs"""
    kinds = set()
    detail = []
    for t in sorted(set(got) | set(want)):
        g, w = got.get(t), want.get(t)
        if g == w:
            continue
        if g is None:
            kinds.add('missing-table')
            detail.append(f'{t}: no table, addressed with {sorted(w)}')
        elif w is None:
            kinds.add('orphan-table')
            detail.append(f'{t}: table {sorted(g)} exists but nothing addresses it')
        else:
            if g - w:
                kinds.add('orphan-column')
            if w - g:
                kinds.add('missing-column')
            detail.append(f'{t}: orphan columns {sorted(g - w)} missing columns {sorted(w - g)}')
    return '+'.join(sorted(kinds)), detail


# ===================================================================== special names
SCAN_FILES = ['edb/pgsql/delta.py', 'edb/pgsql/types.py', 'edb/pgsql/common.py', 'edb/schema/pointers.py',
              'edb/schema/links.py', 'edb/schema/properties.py']
_SPECIAL = None


def special_names():
    """Pointer names the storage code special-cases, found by an AST scan of the anchored
    files: string literals compared (`==`, `!=`, `in`, `not in`) with an expression that
    mentions a name (`.name`, `shortname`, `propname`, `ptr_name`, …), and literal
    prefixes/suffixes given to `.startswith/.endswith` of such an expression.
    Returns (exact names, prefixes, suffixes, {name: [file:line]})."""
    global _SPECIAL
    if _SPECIAL is not None:
        return _SPECIAL
    import ast
    import os

    def strs(node):
        if isinstance(node, ast.Constant) and isinstance(node.value, str):
            return [node.value]
        if isinstance(node, (ast.Set, ast.Tuple, ast.List)):
            out = []
            for e in node.elts:
                v = strs(e)
                if v is None:
                    return None
                out += v
            return out
        return None

    def namey(node):
        src = ast.unparse(node).lower()
        if any(k in src for k in ('module', 'field', 'classname', 'name[0]')):
            return False
        return 'name' in src

    exact, pre, suf, where = set(), set(), set(), {}
    ident = re.compile(r'^[A-Za-z_][A-Za-z0-9_]*$')
    for f in SCAN_FILES:
        path = os.path.join(core.REPO, f)
        tree = ast.parse(open(path).read())
        for n in ast.walk(tree):
            if isinstance(n, ast.Compare):
                sides = [n.left] + list(n.comparators)
                for i, sd in enumerate(sides):
                    v = strs(sd)
                    if v is None:
                        continue
                    if any(namey(o) for j, o in enumerate(sides) if j != i):
                        for x in v:
                            x = x.split('::')[-1]
                            if ident.match(x):
                                exact.add(x)
                                where.setdefault(x, []).append(f'{f}:{n.lineno}')
            elif (isinstance(n, ast.Call) and isinstance(n.func, ast.Attribute)
                  and n.func.attr in ('startswith', 'endswith') and n.args):
                v = strs(n.args[0])
                if v and namey(n.func.value):
                    for x in v:
                        if re.match(r'^[A-Za-z0-9_]+$', x):
                            (pre if n.func.attr == 'startswith' else suf).add(x)
                            where.setdefault(('^' if n.func.attr == 'startswith' else '$') + x, []).append(
                                f'{f}:{n.lineno}')
    _SPECIAL = (sorted(exact), sorted(pre), sorted(suf), where)
    return _SPECIAL


def bq(name):
    """backtick-quote a pointer name"""
    return '`' + name + '`'


def special_histories():
    """one deterministic history per special name N: N as a property (single/multi, required,
    own and inherited), as a link with a link property N, through cardinality changes and drops"""
    exact, pre, suf, _ = special_names()
    names = list(exact) + [p + 'sp' for p in pre] + ['sp' + x for x in suf]
    out = []
    for n in names:
        N = bq(n)
        out.append((f'special-name:{n}', [
            f'create type SA {{ create property {N} -> str; }}',
            'create type SB extending SA',
            f'alter type SA alter property {N} set multi',
            f'alter type SA alter property {N} set single using (select .{N} limit 1)',
            f"alter type SA alter property {N} set required using ('x')",
            'drop type SB',
            f'alter type SA drop property {N}',
            f'alter type SA create required multi property {N} -> str',
            'create type SC extending SA',
            f'alter type SC alter property {N} set optional',
            f'alter type SA drop property {N}',
            f'alter type SA create link {N} -> SA {{ create property {N} -> str; }}',
            f'alter type SA alter link {N} set multi',
            f'alter type SA alter link {N} create property sp_q -> str',
            f'alter type SA alter link {N} drop property {N}',
            f'alter type SA alter link {N} set single using (select .{N} limit 1)',
            f'alter type SA alter link {N} drop property sp_q',
            'create type SD { create link other -> SA { create property %s -> str; create property sp_r -> str; }; }' % N,
            f'alter type SD alter link other drop property sp_r',
            f'alter type SD alter link other drop property {N}',
        ]))
    return out


# ===================================================================== generator
class Gen:
    """random DDL over the alphabet of the property, driven by the current real schema"""

    WEIGHTS = [
        ('create_type', 10), ('drop_type', 5), ('rename_type', 3), ('add_prop', 10), ('add_link', 10),
        ('drop_ptr', 6), ('rename_ptr', 4), ('set_multi', 8), ('set_single', 8), ('set_required', 4),
        ('set_optional', 3), ('set_expr', 6), ('reset_expr', 6), ('add_lprop', 8), ('drop_lprop', 6),
        ('rename_lprop', 2), ('lprop_set_expr', 3), ('lprop_reset_expr', 3), ('add_base', 5),
        ('drop_base', 4), ('set_abstract', 2), ('drop_abstract', 2), ('create_abslink', 3),
        ('abslink_add_prop', 3), ('abslink_drop_prop', 3), ('drop_abslink', 2),
        # compound statements: several subcommands on one pointer / several pointers and bases at once
        ('compound_link', 12), ('compound_prop', 6), ('compound_type', 10), ('set_type', 6),
    ]

    def __init__(self, rng, risky=0.0, special=0.2):
        self.rng = rng
        self.n = 0
        self.risky = risky       # probability of the variants that hit the known findings
        self.special = special   # probability that a new pointer gets a special-cased name
        self.tags = set()
        exact, pre, suf, _ = special_names()
        self.pool = [('=', x) for x in exact if x not in ('id',) and not (x.startswith('__') and x.endswith('__'))] \
            + [('^', x) for x in pre] + [('$', x) for x in suf]

    def fresh(self, pfx):
        """a new name; pointer / link-property names come back backtick-quoted and are, with
        probability `special`, one of the names the storage code special-cases"""
        self.n += 1
        if pfx in ('T', 'R', 'al'):
            return f'{pfx}{self.n}'
        if pfx != '__d' and self.pool and self.rng.random() < self.special:
            k, x = self.rng.choice(self.pool)
            if pfx in ('r', 'rq') and (k, x) == ('^', '__'):
                return bq(f'{pfx}{self.n}')      # renames to `__…` only in the `risky` variants
            return bq(x if k == '=' else (f'{x}s{self.n}' if k == '^' else f's{self.n}{x}'))
        return bq(f'{pfx}{self.n}')

    @staticmethod
    def tname(a, tid):
        return a['types'][tid]['name'].split('::')[1]

    def propdecl(self):
        r = self.rng
        p = self.fresh('p')
        k = r.random()
        if k < 0.15:
            return f"create property {p} := 'x'"
        if k < 0.25:
            return f"create multi property {p} := {{'x', 'y'}}"
        req = 'required ' if r.random() < 0.2 else ''
        mul = 'multi ' if r.random() < 0.4 else ''
        return f'create {req}{mul}property {p} -> str'

    def linkdecl(self, a, abslinks):
        r = self.rng
        tids = list(a['types'])
        if not tids:
            return None
        tgt = self.tname(a, r.choice(tids))
        l = self.fresh('l')
        k = r.random()
        if k < 0.1:
            return f'create link {l} := (select {tgt} limit 1)'
        if k < 0.18:
            return f'create multi link {l} := (select {tgt})'
        req = 'required ' if r.random() < 0.15 else ''
        mul = 'multi ' if r.random() < 0.4 else ''
        ext = ''
        if abslinks and r.random() < 0.3:
            ext = ' extending ' + r.choice(abslinks)
        body = ''
        k = r.random()
        if k < 0.35:
            body = ' { create property %s -> str; }' % self.fresh('q')
        elif k < 0.45:
            body = ' { create property %s -> str; create property %s := 1; }' % (self.fresh('q'), self.fresh('q'))
        return f'create {req}{mul}link {l}{ext} -> {tgt}{body}'

    # ------------------------------------------------------------------ compound statements
    def ptr_subs(self, a, d, n):
        """`n` subcommands for one `ALTER LINK/PROPERTY { … }` block, in random order; the pointer's
        state inside the statement is tracked so that each subcommand is applicable after the
        previous ones (USING where the engine requires it)"""
        r = self.rng
        is_link = d['kind'] == 'L'
        tids = sorted(a['types'], key=lambda t: a['types'][t]['name'])
        tgt = self.tname(a, r.choice(tids))
        st = dict(single=d['single'], required=d['required'], computed=d['computed'],
                  lprops=[l['name'] for l in d['lprops'].values() if l.get('owned', True)], excl=None)
        me = '.' + bq(d['name'])
        subs = []
        done = set()
        for _ in range(n):
            opts = []
            if is_link:
                opts += ['create_lprop', 'create_lprop']
                if st['lprops']:
                    opts += ['drop_lprop', 'drop_lprop']
            if st['computed']:
                opts.append('reset')
            else:
                opts += ['set_multi' if st['single'] else 'set_single'] * 2
                opts.append('set_optional' if st['required'] else 'set_required')
                opts.append('using')
                opts.append('set_type')
                if st['excl'] is not False:
                    opts.append('create_excl' if st['excl'] is None else 'drop_excl')
            k = r.choice(opts)
            # the same attribute changed twice in one statement (set single + set multi, using + reset):
            # kept rare; such statements are tagged (the handlers read the pre-statement schema)
            fam = {'set_multi': 'card', 'set_single': 'card', 'using': 'expr', 'reset': 'expr'}.get(k)
            if fam and fam in done:
                if r.random() > 0.2:
                    continue
                self.tags.add('twice')
            if fam:
                done.add(fam)
            if k == 'create_lprop':
                q = self.fresh('q')
                st['lprops'].append(q.strip('`'))
                subs.append(f'create property {q} -> str' if r.random() < 0.85 else f'create property {q} := 1')
            elif k == 'drop_lprop':
                q = r.choice(st['lprops'])
                st['lprops'].remove(q)
                subs.append(f'drop property {bq(q)}')
            elif k == 'set_multi':
                st['single'] = False
                subs.append('set multi')
            elif k == 'set_single':
                st['single'] = True
                subs.append(f'set single using (select {me} limit 1)')
            elif k == 'set_required':
                st['required'] = True
                subs.append(f'set required using (select {tgt} limit 1)' if is_link else "set required using ('x')")
            elif k == 'set_optional':
                st['required'] = False
                subs.append('set optional')
            elif k == 'using':
                single = st['single'] if r.random() >= self.risky else not st['single']
                st['computed'] = True
                if is_link:
                    subs.append(f'using (select {tgt} limit 1)' if single else f'using (select {tgt})')
                else:
                    subs.append("using ('x')" if single else "using ({'x', 'y'})")
            elif k == 'reset':
                if not (r.random() < self.risky or not any(not l['computed'] for l in d['lprops'].values())):
                    continue
                st['computed'] = False
                subs.append('reset expression')
            elif k == 'set_type':
                subs.append(f'set type {tgt} using (select {tgt} limit 1)' if is_link else "set type str using ('y')")
            elif k == 'create_excl':
                st['excl'] = True
                subs.append('create constraint exclusive')
            elif k == 'drop_excl':
                st['excl'] = False
                subs.append('drop constraint exclusive')
        if subs and r.random() < 0.15:
            subs.append('rename to ' + self.fresh('r'))
        return subs

    def compound(self, k, a, owned, tids):
        r = self.rng
        self.tags = set()
        types = a['types']
        if not owned:
            return None
        if k in ('compound_link', 'compound_prop'):
            c = [(p, d) for p, d in owned if d['kind'] == ('L' if k == 'compound_link' else 'P')]
            if not c:
                return None
            pid, d = r.choice(c)
            subs = self.ptr_subs(a, d, r.choice([2, 2, 3]))
            if len(subs) < 2:
                return None
            kw = 'link' if d['kind'] == 'L' else 'property'
            return (f"alter type {self.tname(a, d['src'])} {{ alter {kw} {bq(d['name'])} {{ "
                    + '; '.join(subs) + '; }; }')
        # compound_type: several pointers and bases of one type at once
        by_type = {}
        for pid, d in owned:
            by_type.setdefault(d['src'], []).append((pid, d))
        t = r.choice(sorted(by_type, key=lambda t: types[t]['name']))
        mine = list(by_type[t])
        r.shuffle(mine)
        abslinks = [d['name'] for d in a['ptrs'].values() if d['src'] is None and d['kind'] == 'L']
        subs = []
        for _ in range(r.choice([2, 3, 3, 4])):
            kk = r.random()
            if kk < 0.2:
                subs.append(self.propdecl())
            elif kk < 0.4:
                ld = self.linkdecl(a, abslinks)
                if ld:
                    subs.append(ld)
            elif kk < 0.55 and mine:
                pid, d = mine.pop()
                subs.append(('drop link ' if d['kind'] == 'L' else 'drop property ') + bq(d['name']))
            elif kk < 0.85 and mine:
                pid, d = mine.pop()
                ps = self.ptr_subs(a, d, r.choice([1, 2, 2]))
                if ps:
                    subs.append(f"alter {'link' if d['kind'] == 'L' else 'property'} {bq(d['name'])} {{ "
                                + '; '.join(ps) + '; }')
            elif kk < 0.93 and len(tids) >= 2:
                b = r.choice([x for x in tids if x != t])
                subs.append('extending ' + self.tname(a, b))
            elif types[t]['bases']:
                subs.append('drop extending ' + self.tname(a, r.choice(types[t]['bases'])))
        if len(subs) < 2:
            return None
        return f"alter type {self.tname(a, t)} {{ " + '; '.join(subs) + '; }'

    def next(self, a):
        r = self.rng
        names = [c for c, _ in self.WEIGHTS]
        weights = [w for _, w in self.WEIGHTS]
        for _ in range(40):
            k = r.choices(names, weights)[0]
            self.tags = set()
            t = self.template(k, a)
            if t:
                return k + ''.join('+' + x for x in sorted(self.tags)), t
        return None

    def template(self, k, a):
        r = self.rng
        types, ptrs = a['types'], a['ptrs']
        tids = sorted(types, key=lambda t: types[t]['name'])
        plist = sorted(ptrs.items(), key=lambda kv: (kv[1]['src'] or '', kv[1]['name']))
        abslinks = [d['name'] for _, d in plist if d['src'] is None and d['kind'] == 'L']
        conc = [(pid, d) for pid, d in plist if d['src'] is not None and d['name'] not in ('id', '__type__')]
        owned = [(pid, d) for pid, d in conc if d['owned']]
        links = [(pid, d) for pid, d in conc if d['kind'] == 'L']

        def pref(pid, d):
            kw = 'link' if d['kind'] == 'L' else 'property'
            return f"alter type {self.tname(a, d['src'])} alter {kw} {bq(d['name'])}"

        if k.startswith('compound'):
            return self.compound(k, a, owned, tids)
        if k == 'set_type':
            # SET TYPE … USING on properties, single links, multi links, links with link properties
            c = [(p, d) for p, d in owned if not d['computed']]
            if c:
                pid, d = r.choice(c)
                if d['kind'] == 'P':
                    return pref(pid, d) + " set type str using ('y')"
                tg = self.tname(a, r.choice(tids))
                e = r.choice([f'(select {tg} limit 1)', f'.{bq(d["name"])}[is {tg}]', f'<{tg}>{{}}'])
                return pref(pid, d) + f' set type {tg} using ({e})'
        if k == 'create_type':
            t = self.fresh('T')
            ext = ''
            if tids and r.random() < 0.4:
                bs = r.sample(tids, min(len(tids), r.choice([1, 1, 2])))
                ext = ' extending ' + ', '.join(self.tname(a, b) for b in bs)
            body = []
            for _ in range(r.choice([0, 1, 2, 3])):
                if r.random() < 0.5:
                    body.append(self.propdecl())
                else:
                    ld = self.linkdecl(a, abslinks)
                    if ld:
                        body.append(ld)
            ab = 'abstract ' if r.random() < 0.15 else ''
            return f'create {ab}type {t}{ext}' + (' { ' + '; '.join(body) + '; }' if body else '')
        if k == 'drop_type' and tids:
            return f'drop type {self.tname(a, r.choice(tids))}'
        if k == 'rename_type' and tids:
            return f"alter type {self.tname(a, r.choice(tids))} rename to {self.fresh('R')}"
        if k == 'add_prop' and tids:
            return f'alter type {self.tname(a, r.choice(tids))} ' + self.propdecl()
        if k == 'add_link' and tids:
            ld = self.linkdecl(a, abslinks)
            return ld and f'alter type {self.tname(a, r.choice(tids))} ' + ld
        if k == 'drop_ptr' and owned:
            pid, d = r.choice(owned)
            kw = 'link' if d['kind'] == 'L' else 'property'
            return f"alter type {self.tname(a, d['src'])} drop {kw} {bq(d['name'])}"
        if k == 'rename_ptr' and owned:
            pid, d = r.choice(owned)
            if r.random() < self.risky:
                return pref(pid, d) + ' rename to ' + self.fresh('__d')
            return pref(pid, d) + ' rename to ' + self.fresh('r')
        if k == 'set_multi':
            c = [(p, d) for p, d in owned if d['single'] and not d['computed']]
            if c:
                return pref(*r.choice(c)) + ' set multi'
        if k == 'set_single':
            c = [(p, d) for p, d in owned if not d['single'] and not d['computed']]
            if c:
                pid, d = r.choice(c)
                return pref(pid, d) + f" set single using (select .{bq(d['name'])} limit 1)"
        if k == 'set_required':
            c = [(p, d) for p, d in owned if not d['required'] and not d['computed']]
            if c:
                pid, d = r.choice(c)
                if d['kind'] == 'P':
                    return pref(pid, d) + " set required using ('x')"
                return pref(pid, d) + f" set required using (select {self.tname(a, r.choice(tids))} limit 1)"
        if k == 'set_optional':
            c = [(p, d) for p, d in owned if d['required'] and not d['computed']]
            if c:
                return pref(*r.choice(c)) + ' set optional'
        if k == 'set_expr':
            c = [(p, d) for p, d in owned if not d['computed']]
            if c:
                pid, d = r.choice(c)
                single = d['single']
                if r.random() < self.risky:
                    single = not single
                if d['kind'] == 'P':
                    e = "'x'" if single else "{'x', 'y'}"
                else:
                    tg = self.tname(a, r.choice(tids))
                    e = f'(select {tg} limit 1)' if single else f'(select {tg})'
                return pref(pid, d) + f' using ({e})'
        if k == 'reset_expr':
            c = [(p, d) for p, d in owned if d['computed']
                 and (r.random() < self.risky or not any(not l['computed'] for l in d['lprops'].values()))]
            if c:
                return pref(*r.choice(c)) + ' reset expression'
        if k == 'add_lprop' and links:
            pid, d = r.choice(links)
            q = self.fresh('q')
            if r.random() < 0.2:
                return pref(pid, d) + f' create property {q} := 1'
            return pref(pid, d) + f' create property {q} -> str'
        lps = [(pid, d, lpid, lp) for pid, d in links for lpid, lp in sorted(d['lprops'].items(),
                                                                            key=lambda kv: kv[1]['name'])]
        if k == 'drop_lprop' and lps:
            pid, d, lpid, lp = r.choice(lps)
            return pref(pid, d) + f" drop property {bq(lp['name'])}"
        if k == 'rename_lprop' and lps:
            pid, d, lpid, lp = r.choice(lps)
            return pref(pid, d) + f" alter property {bq(lp['name'])} rename to {self.fresh('rq')}"
        if k == 'lprop_set_expr':
            c = [x for x in lps if not x[3]['computed']]
            if c:
                pid, d, lpid, lp = r.choice(c)
                return pref(pid, d) + f" alter property {bq(lp['name'])} using ('z')"
        if k == 'lprop_reset_expr':
            c = [x for x in lps if x[3]['computed']]
            if c:
                pid, d, lpid, lp = r.choice(c)
                return pref(pid, d) + f" alter property {bq(lp['name'])} reset expression"
        if k == 'add_base' and len(tids) >= 2:
            t, b = r.sample(tids, 2)
            return f'alter type {self.tname(a, t)} extending {self.tname(a, b)}'
        if k == 'drop_base':
            c = [(t, b) for t in tids for b in types[t]['bases']]
            if c:
                t, b = r.choice(c)
                return f'alter type {self.tname(a, t)} drop extending {self.tname(a, b)}'
        if k == 'set_abstract':
            c = [t for t in tids if not types[t]['abstract']]
            if c:
                return f'alter type {self.tname(a, r.choice(c))} set abstract'
        if k == 'drop_abstract':
            c = [t for t in tids if types[t]['abstract']]
            if c:
                return f'alter type {self.tname(a, r.choice(c))} drop abstract'
        if k == 'create_abslink':
            l = self.fresh('al')
            body = ' { create property %s -> str; }' % self.fresh('q') if r.random() < 0.6 else ''
            return f'create abstract link {l}{body}'
        if k == 'abslink_add_prop' and abslinks:
            return f"alter abstract link {r.choice(abslinks)} create property {self.fresh('q')} -> str"
        if k == 'abslink_drop_prop':
            c = [(d['name'], lp['name']) for _, d in plist if d['src'] is None and d['kind'] == 'L'
                 for lp in d['lprops'].values()]
            if c:
                l, q = r.choice(sorted(c))
                return f'alter abstract link {l} drop property {bq(q)}'
        if k == 'drop_abslink' and abslinks:
            return f'drop abstract link {r.choice(abslinks)}'
        return None


def migration_histories(R, rng, n, log):
    """migration-shaped statements: SDL pairs (A, B) of the C02 generator; the DDL the real diff engine
    emits for `start migration to {A}; populate migration; commit migration` and then for B is
    taken through the pgsql delta as ONE `CREATE MIGRATION { … }` each (as the server does on
    COMMIT MIGRATION), so the compound shapes real migrations produce are covered"""
    try:
        from props import schema_common as sc
    except Exception as e:          # the C02 package is not installed in this tree
        log(f'migration stream skipped: cannot import props.schema_common ({type(e).__name__}: {e})')
        return
    sc.setup()
    made = tries = 0
    while made < n and tries < 3 * n:
        tries += 1
        try:
            a = sc.gen_spec(rng, rng.choice([2, 3, 4]))
            b, tags = sc.mutate(rng, a, rng.choice([1, 2, 2, 3]))
            s1 = sc.migrate(R.base_schema(), sc.render(a))
            script_a = sc.migration_script(s1)
            s2 = sc.migrate(s1, sc.render(b))
            script_b = sc.migration_script(s2)
        except Exception:
            continue
        if not script_a.strip():
            continue
        stmts = [('migration', 'create migration { ' + script_a + ' }')]
        if script_b.strip():
            stmts.append(('migration', 'create migration { ' + script_b + ' }'))
        made += 1
        yield 'migration:' + '+'.join(map(str, tags))[:80], stmts


def teardown_stmts(a):
    """DDL that tries to drop every user object (several rounds are needed)"""
    out = []
    for t in sorted(a['types'], key=lambda t: a['types'][t]['name']):
        out.append('drop type ' + a['types'][t]['name'].split('::')[1])
    for _, d in sorted(a['ptrs'].items(), key=lambda kv: kv[1]['name']):
        if d['src'] is None:
            out.append(('drop abstract link ' if d['kind'] == 'L' else 'drop abstract property ') + d['name'])
    return out


# ---------------------------------------------------------------------------
# Deterministic histories: one per row of the property's alphabet plus the three
# behaviours of the real code that violate the property (stable keys).
BASE_AB = [
    'create type A { create property name -> str; create multi property tags -> str; }',
    'create type B { create link a -> A; create multi link as_ -> A { create property w -> str }; '
    'create link b -> A { create property v -> str } }',
]
FIXED = [
    ('lprop-add-drop-single-link', BASE_AB + [
        'alter type B alter link a create property note -> str',
        'alter type B alter link a drop property note']),
    ('card-roundtrip-prop', BASE_AB + [
        'alter type A alter property name set multi',
        'alter type A alter property name set single using (select .name limit 1)']),
    ('card-roundtrip-link-with-props', BASE_AB + [
        'alter type B alter link b set multi',
        'alter type B alter link b alter property v using (1)',
        'alter type B alter link b set single using (select .b limit 1)',
        'alter type B alter link b alter property v reset expression',
        'alter type B alter link b alter property v rename to vv',
        'alter type B alter link b rename to bb']),
    ('computed-stored-same-card', BASE_AB + [
        "alter type A alter property name using ('x')", 'alter type A alter property name reset expression',
        "alter type A alter property tags using ({'x'})", 'alter type A alter property tags reset expression',
        'alter type B alter link a using (select A limit 1)', 'alter type B alter link a reset expression',
        'alter type B alter link as_ using (select A)']),
    ('inheritance', BASE_AB + [
        'create type D extending B', 'alter type B alter link b set multi',
        'alter type D alter link b create property extra -> str', 'alter type B alter link b drop property v',
        'alter type D alter link b drop property extra', 'alter type A create property x -> str',
        'create type C extending A', 'alter type C drop extending A', 'alter type C extending A, B',
        'alter type A set abstract', 'alter type A drop abstract', 'alter type A rename to AA']),
    ('abstract-links', BASE_AB + [
        'create abstract link friend { create property since -> str }',
        'alter type B create multi link fr extending friend -> A',
        'alter type B alter link fr set single using (select .fr limit 1)',
        'alter abstract link friend drop property since', 'alter type B drop link fr',
        'drop abstract link friend']),
    ('dunder-names', BASE_AB + [
        'alter type A create property __foo -> str', 'create type C extending A',
        'alter type B alter link b alter property v rename to __v', 'alter type A drop property __foo']),
    ('explicit-multi-made-computed', BASE_AB + ["alter type A alter property tags using ('x')",
                                                'alter type A alter property tags reset expression']),
    ('set-type-using', BASE_AB + [
        'create type A2 extending A',
        'alter type B alter link as_ set type A2 using (.as_[is A2])',            # multi link with a link property
        'alter type B alter link a set type A2 using (.a[is A2])',               # single link
        'alter type B alter link b set type A2 using (select A2 limit 1)',       # single link with a link property
        'alter type B create multi link m -> A',
        'alter type B alter link m set type A2 using (.m[is A2])',               # multi link
        'alter type B alter link m set type A using (<A>{})',
        "alter type A alter property name set type str using ('y')",             # single property
        "alter type A alter property tags set type str using ('y')",             # multi property
        'alter type B alter link as_ { set type A using (.as_[is A]); create property w2 -> str; }']),
    ('compound-lprops-and-cardinality', BASE_AB + [
        'alter type B { alter link as_ { drop property w; set single using (select .as_ limit 1); }; }',
        'alter type B { alter link as_ { create property note -> str; set multi; }; }',
        'alter type B { alter link as_ { set single using (select .as_ limit 1); drop property note; }; }',
        'alter type B { alter link a { set multi; create property n2 -> str; }; }',
        'alter type B { alter link a { create property n3 -> str; set single using (select .a limit 1); }; }',
        'alter type B { alter link a { drop property n2; drop property n3; set required using (select A limit 1); }; }',
        "alter type A { alter property name { set multi; set required using ('x'); create constraint exclusive; }; "
        "alter property tags { set single using (select .tags limit 1); rename to tag; }; create property extra -> str; }",
        "alter type B { alter link b { set multi; alter property v { rename to vv; }; }; drop link a; "
        "create multi link c -> A { create property cw -> str; }; extending A; }"]),
]


def corpus_histories():
    """minimal witnesses of the violations found on the real code (corpus/C05/findings.json): replayed on
    every run so that a defect that is still there is reported under its root-cause key and one that got
    fixed simply passes"""
    import os
    path = os.path.join(core.VERIF, 'corpus', 'C05', 'findings.json')
    if not os.path.exists(path):
        return []
    out = []
    for case in json.load(open(path))['cases']:
        stmts = [tuple(x) if isinstance(x, list) else x for x in case['history']]
        out.append(('FINDING-' + case['name'], (BASE_AB if case.get('base') == 'AB' else []) + stmts))
    return out


# ===================================================================== level 1
L1_SDL = '''
abstract link al0 { property aq -> str; };
abstract link al1;
abstract property ap0;
type Tgt;
type S {
  property ps -> str; required property psr -> str; multi property pm -> str; required multi property pmr -> str;
  property pc := 'x'; multi property pmc := {'x', 'y'};
  property __dp -> str; multi property __dpm -> str;
  link ls -> Tgt; required link lsr -> Tgt; multi link lm -> Tgt; required multi link lmr -> Tgt;
  link lsp -> Tgt { property q1 -> str; }; multi link lmp -> Tgt { property q2 -> str; };
  link lspc -> Tgt { property q3 := 1; }; multi link lmpc -> Tgt { property q4 := 1; };
  link lsp2 -> Tgt { property q5 -> str; property q6 := 1; };
  link lc := (select Tgt limit 1); multi link lmc := (select Tgt);
  link lal extending al0 -> Tgt; multi link lalm extending al0 -> Tgt; link lal1 extending al1 -> Tgt;
  link __dl -> Tgt { property q7 -> str; };
};
type Nm {
  property source -> str; multi property target -> str; property sp_t -> str;
  link `default` -> Tgt { property id -> str; property __lp -> str; };
  multi link expr -> Tgt { property cfg -> str; };
};
type Nm2 { link source -> Tgt; multi link target -> Tgt { property q9 -> str; }; };
type NmSub extending Nm; type Nm2Sub extending Nm2;
type Sub extending S { overloaded link ls -> Tgt { property q8 -> str; }; };
abstract type AbsT { multi link am -> Tgt; property apz -> str; };
'''


def vname(short, is_lprop):
    if short == 'id' and not is_lprop:
        return 'id'
    if is_lprop and short in ('source', 'target'):
        return short
    if short.startswith('__'):
        return 'dunder'
    return 'plain'


def level1(ctx, R: Real):
    schema = R.env.load_schema(L1_SDL)
    pgtypes, bn = R.pgtypes, R.pgcommon.get_backend_name
    lines, reals, descr = [], [], []
    for p in sorted(R.user_pointers(schema), key=lambda p: str(p.get_name(schema))):
        if p.get_is_derived(schema):
            continue
        src = p.get_source(schema)
        if src is None:
            sk = 'none'
        elif isinstance(src, R.s_objtypes.ObjectType):
            sk = 'object'
        elif isinstance(src, R.s_pointers.Pointer):
            sk = 'link'
        else:
            sk = 'scalar'
        is_lprop = sk == 'link'
        short = p.get_shortname(schema).name
        try:
            single = bool(p.singular(schema))
        except AssertionError:
            single = True
        link = src if is_lprop else None
        concrete_link = link is not None and not link.is_non_concrete(schema)
        attrs = dict(
            sk=sk, il=isinstance(p, R.s_links.Link), nm=vname(short, is_lprop), sg=single,
            up=bool(p.has_user_defined_properties(schema)), cm=bool(p.is_pure_computable(schema)),
            sht=bool(pgtypes.has_table(src, schema)) if sk == 'object' else True,
            ls=bool(link.singular(schema)) if concrete_link else True,
            lup=bool(link.has_user_defined_properties(schema)) if link is not None else False,
            ln=vname(link.get_shortname(schema).name, False) if link is not None else 'plain')
        ht = bool(pgtypes.has_table(p, schema))
        for lb in (False, True):
            lines.append('info {sk} {il} {nm} {sg} {up} {cm} {sht} {ls} {lup} {ln} {lb}'.format(
                **{k: (b01(v) if isinstance(v, bool) else v) for k, v in attrs.items()}, lb=b01(lb)))
            if p.is_non_concrete(schema) or (is_lprop and short == 'target' and not concrete_link):
                info_s = None          # get_pointer_storage_info asserts on non-concrete pointers
            else:
                info = pgtypes.get_pointer_storage_info(p, schema=schema, link_bias=lb, resolve_type=False)
                if info is None:
                    info_s = 'none'
                else:
                    norm = link if (is_lprop and short == 'target') else p
                    cands = {}
                    nsrc = norm.get_source(schema)
                    if nsrc is not None:
                        cands[bn(schema, nsrc, catenate=False)] = 'source'
                    if not (is_lprop and short != 'target'):
                        cands[bn(schema, norm, catenate=False)] = 'self'
                        if not norm.is_pure_computable(schema):
                            _, mat = norm.material_type(schema)
                            cands.setdefault(bn(schema, mat, catenate=False), 'self')
                    t = 'none' if info.table_name is None else cands.get(info.table_name, f'?{info.table_name}')
                    c = info.column_name
                    nshort = norm.get_shortname(schema).name
                    if c is None:
                        cs = 'none'
                    elif c == 'source' and is_lprop and short == 'source':
                        cs = 'source'
                    elif c == 'target' and info.table_type == 'link':
                        cs = 'target'
                    elif c == str(norm.id) or (not norm.is_pure_computable(schema)
                                               and c == str(norm.material_type(schema)[1].id)):
                        cs = 'byid'
                    elif c == nshort:
                        cs = 'shortname'
                    else:
                        cs = f'?{c}'
                    info_s = f'{t} {info.table_type} {cs}'
            reals.append((info_s, ht))
            descr.append(f'{p.get_name(schema)} link_bias={lb}')
    # the two storable_* predicates on stub pointers, all 4 combinations
    stub_rows = []

    class Stub:
        def __init__(self, s, u):
            self.s, self.u = s, u

        def singular(self, schema):
            return self.s

        def has_user_defined_properties(self, schema):
            return self.u

    for s in (False, True):
        for u in (False, True):
            stub_rows.append((s, u, bool(pgtypes._pointer_storable_in_source(None, Stub(s, u))),
                              bool(pgtypes._pointer_storable_in_pointer(None, Stub(s, u)))))
            # model: object source, plain, not computed; linkBias=False answers in_source first
            lines.append(f'info object 1 plain {b01(s)} {b01(u)} 0 1 1 0 plain 0')
            lines.append(f'info object 1 plain {b01(s)} {b01(u)} 0 1 1 0 plain 1')
    return lines, reals, descr, stub_rows


def level1_check(ctx, lines, outs, reals, descr, stub_rows):
    n = len(reals)
    seen = set()
    bad = 0
    for line, out, (info_s, ht), d in zip(lines[:n], outs[:n], reals, descr):
        seen.add(line)
        m_info, _, m_ht = out.rpartition(' ht=')
        if m_ht != b01(ht):
            bad += 1
            ctx.fail(f'corr:l1:has_table:{line}', 'level 1: has_table differs between model and types.py',
                     {'pointer': d, 'real': ht, 'model': out, 'line': line}, no_input=True)
        if info_s is not None and m_info != info_s:
            bad += 1
            ctx.fail(f'corr:l1:info:{line}', 'level 1: get_pointer_storage_info differs between model and types.py',
                     {'pointer': d, 'real': info_s, 'model': out, 'line': line}, no_input=True)
    k = n
    for (s, u, in_src, in_ptr) in stub_rows:
        o_nb, o_lb = outs[k], outs[k + 1]
        k += 2
        m_in_src = o_nb.startswith('source ObjectType')
        m_in_ptr = o_lb.startswith('self link')
        if m_in_src != in_src or m_in_ptr != in_ptr:
            bad += 1
            ctx.fail(f'corr:l1:storable:{s}:{u}', 'level 1: _pointer_storable_in_* differ',
                     {'single': s, 'userProps': u, 'real': [in_src, in_ptr], 'model': [o_nb, o_lb]}, no_input=True)
    return len(seen), bad


# ===================================================================== histories
def run_history(R: Real, hid, name, stmts_or_gen, ncmds, lines, recs, stats, teardown):
    """runs one history on the real side, appends driver lines and step records"""
    schema = R.base_schema()
    cat, _ = R.expected(schema)
    cat = {k: set(v) for k, v in cat.items()}
    ids = Ids()
    a = R.alpha(schema)
    lines.append('reset')
    recs.append(dict(kind='reset', hid=hid, line=len(lines) - 1))
    # the base schema has no user objects; if it had, build them in the model
    cmds0, _ = diff_cmds(ids, dict(types={}, ptrs={}), a)
    history = []
    fixed = stmts_or_gen if isinstance(stmts_or_gen, list) else None
    gen = None if fixed is not None else stmts_or_gen
    lines += cmds0
    queue = list(fixed) if fixed is not None else None
    phase = 'main'
    rounds = 0
    nmain = 0
    while True:
        if phase == 'main':
            if queue is not None:
                if not queue:
                    phase = 'teardown-init'
                    continue
                item = queue.pop(0)
                if isinstance(item, (tuple, list)):
                    template, text = item
                else:
                    template, text = ('special-name' if name.startswith('special-name') else 'fixed'), item
            else:
                if nmain >= ncmds:
                    phase = 'teardown-init'
                    continue
                nx = gen.next(a)
                if nx is None:
                    phase = 'teardown-init'
                    continue
                template, text = nx
            nmain += 1
        if phase == 'teardown-init':
            if not teardown:
                break
            tq = teardown_stmts(a)
            progress = False
            phase = 'teardown'
            if not tq:
                break
            continue
        if phase == 'teardown':
            if not tq:
                rounds += 1
                if not progress or rounds > 6:
                    break
                phase = 'teardown-init'
                continue
            template, text = 'teardown', tq.pop(0)
        # "use P": compile queries over the pointers the statement mentions BEFORE it runs
        mentioned = {pid for pid, d in a['ptrs'].items() if bq(d['name']) in text or f" {d['name']} " in text
                     or f".{d['name']} " in text}
        mentioned |= {lp for d in a['ptrs'].values() for lp, l in d['lprops'].items() if bq(l['name']) in text}
        if mentioned and template != 'teardown':
            nq, qbad, qerr = R.compile_queries(schema, cat, R.queries_for(schema, mentioned, 3))
            stats['queries'] += nq
            stats['query_errors'] += len(qerr)
            if qerr and len(stats['query_error_samples']) < 5:
                stats['query_error_samples'].append(qerr[0])
        t0 = time.time()
        try:
            schema2, ops, _pgd = R.apply(schema, text)
        except R.errors.EdgeDBError as e:
            stats['rejected'][f'{template}:{type(e).__name__}'] = \
                stats['rejected'].get(f'{template}:{type(e).__name__}', 0) + 1
            continue
        except Exception as e:     # internal error of the real code: the statement does not go through
            key = f'{template}:{type(e).__name__}'
            stats['internal'][key] = stats['internal'].get(key, 0) + 1
            if len(stats['internal_samples']) < 5:
                stats['internal_samples'].append({'history': history + [text], 'error': f'{type(e).__name__}: {e}'[:200]})
            continue
        stats['t_real'] += time.time() - t0
        try:
            ev_sql, ev_walk = R.sql_events(_pgd), R.walk_events(ops)
        except Exception as e:
            ev_sql, ev_walk = [f'generate() raised {type(e).__name__}: {e}'[:200]], None
        if phase == 'teardown':
            progress = True
        history.append(text)
        before = {k: set(v) for k, v in cat.items()}
        log, errs = R.replay(cat, ops)
        exp, dangling = R.expected(schema2)
        a2 = R.alpha(schema2)
        cmds, oom = diff_cmds(ids, a, a2)
        stats['templates'][template] = stats['templates'].get(template, 0) + 1
        for l in log:
            stats['ops'][l[0]] = stats['ops'].get(l[0], 0) + 1
        first = len(lines)
        lines += cmds
        lines.append('dump')
        rec = dict(kind='step', hid=hid, hname=name, template=template, text=text, history=list(history),
                   cmds=cmds, first=first, dump=len(lines) - 1, oom=oom,
                   real_cat=ids.cat(cat), exp=ids.cat(exp), dangling=dangling, errs=errs,
                   walker_ok=(ev_sql == ev_walk), ev_sql=ev_sql[:30], ev_walk=(ev_walk or [])[:30],
                   alpha=alpha_canon(ids, a2), before=ids.cat(before),
                   log=[tuple(l) for l in log][:40])
        recs.append(rec)
        # the consumer side, in the same process, nothing cleared: the compiler's storage lookup for every
        # stored pointer, and real query compilations over the pointers this statement touched
        consumer = []
        if cat == exp and not errs and not dangling:
            nl, lbad = R.compiler_lookup(schema2, cat)
            stats['lookups'] += nl
            consumer += [('lprop-named-endpoint' if x.startswith('USER-LPROP-NAMED-ENDPOINT') else '', x)
                         for x in lbad]
            touched = {pid for pid, d in a2['ptrs'].items() if a['ptrs'].get(pid) != d}
            touched |= {lp for pid, d in a2['ptrs'].items() for lp, l in d['lprops'].items()
                        if a['ptrs'].get(pid, {}).get('lprops', {}).get(lp) != l}
            if template != 'teardown':
                nq, qbad, qerr = R.compile_queries(schema2, cat, R.queries_for(schema2, touched | mentioned, 4))
                stats['queries'] += nq
                stats['query_errors'] += len(qerr)
                consumer += qbad
                if qerr and len(stats['query_error_samples']) < 5:
                    stats['query_error_samples'].append(qerr[0])
        rec['consumer'] = consumer[:12]
        # steps on which the model's guard may not hold (the model is only claimed exact on guarded steps and on
        # the corpus witnesses): the model is rebuilt from the real schema afterwards
        special_lp = any(l['name'] in ('source', 'target') for aa in (a, a2) for d in aa['ptrs'].values()
                         for l in d['lprops'].values())
        maybe_unsafe = any(c.split(' ')[0] in ('rp', 'se', 're') or
                           (special_lp and c.split(' ')[0] in ('al', 'rl', 'dl', 'cl')) for c in cmds)
        schema, a = schema2, a2
        if cat != exp or errs or dangling or maybe_unsafe:
            # the real code left the catalog off: resynchronise both sides so that the rest
            # of the history still says something
            cat = {k: set(v) for k, v in exp.items()}
            lines.append('reset')
            ids_cmds, _ = diff_cmds(ids, dict(types={}, ptrs={}), a)
            lines += ids_cmds
            lines.append('dump')
            recs.append(dict(kind='resync', hid=hid, dump=len(lines) - 1, exp=ids.cat(exp),
                             alpha=alpha_canon(ids, a), first=rec['dump'] + 2, cmds=ids_cmds))
    final_empty = not a['types'] and not a['ptrs']
    recs.append(dict(kind='end', hid=hid, hname=name, empty_schema=final_empty, cat=ids.cat(cat),
                     history=list(history)))


UNSAFE_KEYS = {'rp': 'rename-changes-column-key', 'se': 'property-made-computed-with-cardinality-change',
               're': 'link-with-link-properties-made-stored-again',
               'al': 'link-property-named-source-or-target', 'rl': 'link-property-named-source-or-target',
               'dl': 'link-property-named-source-or-target', 'cl': 'link-property-named-source-or-target'}


def run(ctx: core.Ctx):
    proved = ctx.proof_stage(PROPS, ['EdbVerif.Props.C05', 'Driver.C05'], required=REQUIRED)
    ctx.log('proof stage:', 'ok' if proved else ctx.proof['broken'])

    t0 = time.time()
    try:
        R = Real()
        R.base_schema()
    except core.Infra:
        raise
    except Exception as e:
        raise core.Infra(f'cannot set up the real schema environment: {type(e).__name__}: {e}')
    ctx.log(f'real environment up in {time.time() - t0:.1f}s')

    # ---------------------------------------------------------------- level 1
    l1_lines, l1_reals, l1_descr, stub_rows = level1(ctx, R)

    # ---------------------------------------------------------------- histories (real side)
    lines: list[str] = []
    recs: list[dict] = []
    stats = dict(rejected={}, internal={}, internal_samples=[], templates={}, ops={}, t_real=0.0,
                 lookups=0, queries=0, query_errors=0, query_error_samples=[])
    hid = 0
    if ctx.replay:
        rp = json.load(open(ctx.replay))
        for f in rp['failures']:
            d = f.get('detail')
            if isinstance(d, dict) and 'history' in d:
                run_history(R, hid, 'replay', list(d['history']), 0, lines, recs, stats, teardown=False)
                hid += 1
    else:
        for name, stmts in FIXED + corpus_histories() + special_histories():
            run_history(R, hid, name, list(stmts), 0, lines, recs, stats, teardown=not name.startswith('FINDING'))
            hid += 1
        nh = ctx.budget(40, 300)
        ncmds = 12
        for k in range(nh):
            # a fifth of the random histories may also take the variants behind the known findings
            risky = 0.3 if k % 5 == 4 else 0.0
            g = Gen(ctx.rng, risky=risky)
            run_history(R, hid, f'random{k}' + ('r' if risky else ''), g, ncmds, lines, recs, stats,
                        teardown=(k % 2 == 0))
            hid += 1
            if ctx.quick() and time.time() - ctx.t0 > 120 and k + 1 >= 12:
                ctx.log(f'time budget: stopping after {k + 1} random histories')
                break
        nm = 0
        for name, stmts in migration_histories(R, ctx.rng, ctx.budget(10, 100), ctx.log):
            run_history(R, hid, name, stmts, 0, lines, recs, stats, teardown=False)
            hid += 1
            nm += 1
            if ctx.quick() and time.time() - ctx.t0 > 150 and nm >= 3:
                ctx.log(f'time budget: stopping after {nm} migration pairs')
                break
        stats['migration_pairs'] = nm
    nsteps = sum(1 for r in recs if r['kind'] == 'step')
    ctx.log(f'{hid} histories, {nsteps} accepted statements through the real pgsql delta '
            f'({stats["t_real"]:.1f}s in the real code); rejected {sum(stats["rejected"].values())}, '
            f'internal errors {sum(stats["internal"].values())}')

    # ---------------------------------------------------------------- model
    outs = ctx.driver('C05', l1_lines + lines)
    if len(outs) != len(l1_lines) + len(lines):
        raise core.Infra(f'driver returned {len(outs)} lines for {len(l1_lines) + len(lines)}')
    l1_out, out = outs[:len(l1_lines)], outs[len(l1_lines):]
    l1_distinct, l1_bad = level1_check(ctx, l1_lines, l1_out, l1_reals, l1_descr, stub_rows)

    # ---------------------------------------------------------------- compare
    n_oracle_fail = n_corr_fail = n_oom = n_walker = n_consumer = n_unsafe_skipped = 0
    hist_corr_reported = set()
    unsafe_hist = {}
    distinct = set()
    mismatch_kinds = {}
    for r in recs:
        if r['kind'] == 'reset':
            if out[r['line']] != 'ok':
                raise core.Infra('driver protocol out of step')
            continue
        if r['kind'] == 'end':
            if r['empty_schema'] and r['cat']:
                n_oracle_fail += 1
                ctx.fail(f'oracle:drop-all:{r["hname"]}', 'everything was dropped but storage remains',
                         {'history': r['history'], 'catalog': {k: sorted(v) for k, v in r['cat'].items()}})
            continue
        dump = out[r['dump']]
        parts = dump.split('|')
        if len(parts) != 3:
            raise core.Infra(f'bad dump line {dump!r}')
        m_cat, m_stale = parse_cat(parts[0])
        m_lay, _ = parse_cat(parts[1])
        m_schema = parse_schema(parts[2])
        res = out[r['first']:r['first'] + len(r['cmds'])]
        if r['kind'] == 'resync':
            if any(x.endswith(' u') for x in res):
                # the real schema is in a state the guarded model cannot be rebuilt into faithfully
                hist_corr_reported.add(r['hid'])
                continue
            if m_cat != r['exp'] or m_schema != r['alpha'] or any(not x.startswith('ok') for x in res):
                ctx.fail(f'corr:resync:{r["hid"]}', 'model rebuilt from the real schema differs from the real layout',
                         {'model': parts, 'real': {k: sorted(v) for k, v in r['exp'].items()}, 'results': res},
                         no_input=True)
                n_corr_fail += 1
            continue
        distinct.add((r['template'], tuple(c.split(' ')[0] for c in r['cmds']), tuple(sorted(x[0] for x in r['log']))))
        if not r['walker_ok']:
            n_walker += 1
            ctx.fail(f'corr:walker:{r["template"]}', 'the storage operations read off the dbops tree differ from those '
                     'in the SQL text the real generate() produces (harness traversal out of date)',
                     {'history': r['history'], 'statement': r['text'], 'from_tree': r['ev_walk'],
                      'from_sql_text': r['ev_sql']}, no_input=True)
        unsafe = sorted({c.split(' ')[0] for c, x in zip(r['cmds'], res) if x.endswith(' u')})
        # ---- (ii) the oracle, on the real code only
        kind, detail = cat_diff(r['real_cat'], r['exp'])
        problems = []
        if kind:
            problems.append(kind)
        if r['errs']:
            problems.append('backend-error')
        if r['dangling']:
            problems.append('addressed-table-missing')
        if problems:
            n_oracle_fail += 1
            what = '+'.join(problems)
            mismatch_kinds[what] = mismatch_kinds.get(what, 0) + 1
            if '+twice' in r['template']:
                keys = ['oracle:attribute-changed-twice-in-one-statement']
            elif unsafe:
                # one report per root cause the statement runs into
                keys = ['oracle:' + k for k in sorted({UNSAFE_KEYS.get(u, u) for u in unsafe})]
            else:
                keys = [f'oracle:{r["template"]}:{what}']
            for key in keys:
                ctx.fail(key, 'storage after the statement is not what the query compiler addresses: ' + what,
                         {'history': r['history'], 'statement': r['text'], 'difference': detail,
                          'backend_errors': r['errs'], 'dangling': r['dangling'],
                          'storage_ops': r['log'], 'model_commands': r['cmds'], 'model_results': res,
                          'unsafe_steps_by_model': unsafe})
        # ---- (iii) the consumer side: the compiler's lookup / compiled queries address existing storage
        for tag in sorted({t for t, _ in r.get('consumer', [])}):
            n_consumer += 1
            msgs = [m for t, m in r['consumer'] if t == tag]
            key = ('oracle:link-property-of-computed-link-read-from-missing-table' if tag == 'lprop-of-computed-link'
                   else 'oracle:link-property-named-source-or-target' if tag == 'lprop-named-endpoint'
                   else f'oracle:compiler-addresses-other-storage:{r["template"].split("+")[0]}')
            ctx.fail(key, 'after the statement the query compiler (ptrref storage lookup / compiled SQL) addresses '
                     'storage that differs from where the schema object is stored or that does not exist',
                     {'history': r['history'], 'statement': r['text'], 'problems': msgs, 'storage_ops': r['log']})
        # ---- (i) the model
        if r['oom'] or '+twice' in r['template']:
            # outside the model's alphabet (the model sees the NET change of a statement; a statement that
            # changes the same attribute twice exercises handlers that read the pre-statement schema)
            n_oom += 1
            continue
        if r['hid'] in hist_corr_reported:
            continue
        if unsafe and not r['hname'].startswith('FINDING'):
            # outside the guard the model is claimed exact only on the corpus witnesses (which tie the
            # `…_counterexample` theorems); elsewhere an unguarded step is left to the oracle
            n_unsafe_skipped += 1
            continue
        bad = []
        if any(x in ('rejected', 'bad-op') for x in res):
            bad.append('model rejects a change the real code accepted')
        backend = any(x.startswith('backend') for x in res)
        if backend != bool(r['errs']):
            bad.append('backend error predicted by the model' if backend else 'backend error not predicted by the model')
        if not backend and not r['errs']:
            if m_cat != r['real_cat'] or m_stale:
                bad.append('catalogs differ')
            if m_schema != r['alpha']:
                bad.append('schemas differ (abstraction of the real schema vs model schema)')
            if m_lay != r['exp']:
                bad.append('layout(model schema) differs from the real expected layout')
        if not unsafe and not backend and m_cat != m_lay:
            bad.append('model catalog differs from model layout on a guarded step (contradicts C05_tracks)')
        if bad:
            if backend or r['errs']:
                hist_corr_reported.add(r['hid'])     # model state is not advanced past a backend error
            n_corr_fail += 1
            hist_corr_reported.add(r['hid'])
            ctx.fail(f'corr:{r["template"]}:{"/".join(bad)}', 'model and implementation disagree: ' + '; '.join(bad),
                     {'history': r['history'], 'statement': r['text'], 'model_commands': r['cmds'],
                      'model_results': res, 'model_catalog': parts[0], 'model_layout': parts[1],
                      'real_catalog': {k: sorted(v) for k, v in r['real_cat'].items()},
                      'real_expected': {k: sorted(v) for k, v in r['exp'].items()},
                      'storage_ops': r['log']}, no_input=bool(not problems))
        elif problems and (backend or r['errs']):
            hist_corr_reported.add(r['hid'])         # both agree on a backend error; stop comparing this history
    if not proved:
        ctx.proof_broken_verdict()

    samples = [f"{r['text']} => ops {[l for l in r['log'] if l[0] != 'skip'][:6]}" for r in recs
               if r['kind'] == 'step'][:: max(1, nsteps // 6)][:6]
    ctx.cov.update({
        'evaluations': nsteps,
        'distinct_nontrivial': len(distinct),
        'rule': 'one evaluation = one accepted DDL statement taken through the real schema delta + real pgsql delta '
                'adapt/apply, its dbops storage commands replayed and compared with (i) the Lean machine and (ii) the '
                'real get_pointer_storage_info/has_table layout; distinct = distinct (generator template, sequence of '
                'elementary model commands, multiset of storage op kinds); non-trivial = accepted by the real code',
        'samples': samples,
        'histories': hid,
        'fixed_histories': (len(FIXED) + len(corpus_histories()) + len(special_histories())) if not ctx.replay else 0,
        'special_names_scanned': {'exact': special_names()[0], 'prefixes': special_names()[1],
                                  'suffixes': special_names()[2],
                                  'where': {str(k): v[:4] for k, v in special_names()[3].items()}},
        'statements_with_special_names': sum(1 for r in recs if r['kind'] == 'step' and any(
            bq(x) in r['text'] for x in special_names()[0])),
        'template_histogram': stats['templates'],
        'storage_op_histogram': stats['ops'],
        'rejected_by_real_code': stats['rejected'],
        'internal_errors_of_real_code': stats['internal'],
        'internal_error_samples': stats['internal_samples'],
        'oracle_failures': n_oracle_fail,
        'oracle_failure_kinds': mismatch_kinds,
        'disagreements_model_vs_impl': n_corr_fail,
        'steps_outside_model_alphabet': n_oom,
        'unguarded_steps_left_to_the_oracle': n_unsafe_skipped,
        'migration_pairs': stats.get('migration_pairs', 0),
        'compound_statements': sum(v for k, v in stats['templates'].items() if k.startswith('compound')),
        'tree_walk_vs_sql_text_mismatches': n_walker,
        'compiler_storage_lookups': stats['lookups'], 'queries_compiled_to_sql': stats['queries'],
        'query_compile_errors': stats['query_errors'], 'query_compile_error_samples': stats['query_error_samples'],
        'consumer_side_failures': n_consumer,
        'level1_pointer_cases': len(l1_reals), 'level1_distinct_attribute_vectors': l1_distinct,
        'level1_disagreements': l1_bad,
        'exhaustive': False,
        'correspondence': 'level 2: real edb.pgsql.delta command tree (pgops) vs Lean EdbVerif.Storage.stepDDL; '
                          'level 1: real types.get_pointer_storage_info/has_table/_pointer_storable_in_* vs '
                          'Lean storageInfo/hasTableV',
    })
    ctx.assumptions += [
        'PostgreSQL is not run: a replayed CREATE/DROP TABLE, ADD/DROP COLUMN stands for its effect; conditions '
        'TableExists/ColumnExists are evaluated on the replayed catalog',
        'the columns addressed in a link / multi-property table are (source, target) plus the storage info of every '
        'stored link property; __type__ is never stored',
        'DDL alphabet: create/drop/rename type and pointer, single<->multi, required<->optional, link property '
        'add/remove/rename/computed<->stored, extending/drop extending, abstract<->concrete, computed<->stored, '
        'abstract links; aliases, views, scalar types, constraints, indexes and type changes are outside',
    ]
    ctx.trusted_base += [
        'hand-written model EdbVerif/Model/Storage.lean of pgsql/types.py layout decisions and pgsql/delta.py storage '
        'decisions; tied by the differential run above',
        'harness/props/c05.py: traversal of the dbops tree (mirrors generate()), catalog replay, schema abstraction, '
        'diff into elementary commands',
        'harness/bridge (front-end bridge: LALR parser over the real grammar) for parsing DDL text',
    ]
