"""C20 child interpreter: run a batch of graphs through the REAL sort_ex.

Started by props/c20.py once per PYTHONHASHSEED.  Reads one JSON document on
stdin ``{"cases": [{"allow": bool, "ents": [[k, w, m|null, d, c], ...],
"style": STYLE, "keys": KEYSTYLE}, ...]}`` and writes a JSON list of
canonical outcome strings (``ok 3,1,2`` / ``cycle i p`` / ``unres d i`` /
``exc Class: msg``), one per case, keys mapped back to the naturals of the
case so that the outcomes of different processes and of the Lean model can be
compared byte for byte.

The graphs are built THE WAY THE REAL CALLERS BUILD THEM, with keys whose hash
is randomised per process (str / tuples of str):

``ctor``  ``DepGraphEntry(item, deps=OrderedSet(...), weak_deps=OrderedSet(...),
          merge=..., loop_control=...)`` – schema/delta.py sort_by_inheritance,
          schema/objects.py ordered_descendants
``fill``  constructor given EMPTY OrderedSets which are filled afterwards with
          ``.add`` – schema/ordering.py get_deps()
``attr``  default constructor, then ``entry.deps = OrderedSet(...)`` assigned
          to the attributes – edgeql/declarative.py
``list``  plain lists handed to the constructor – tools/wipe.py (JSON list)

Every collection is given in the order of the case's lists; that order is the
caller's iteration order, i.e. part of the input.
"""
import json
import sys

TAGS = ('create', 'alter', 'delete')


def name(k, keystyle):
    if keystyle == 'str':
        return f'default::T{k}'
    if keystyle == 'tuple':
        return (TAGS[k % 3], f'default::T{k}')
    if keystyle == 'int':
        return k
    raise ValueError(keystyle)


def build(case, topological, OrderedSet):
    style, ks = case['style'], case['keys']
    g = {}
    for (k, w, m, d, c) in case['ents']:
        nm = lambda l: [name(x, ks) for x in l]
        item = ('item', k)
        if style == 'ctor':
            e = topological.DepGraphEntry(
                item, deps=OrderedSet(nm(d)), weak_deps=OrderedSet(nm(w)),
                merge=None if m is None else OrderedSet(nm(m)),
                loop_control=OrderedSet(nm(c)))
        elif style == 'fill':
            e = topological.DepGraphEntry(
                item, deps=OrderedSet(), weak_deps=OrderedSet(),
                merge=None if m is None else OrderedSet(),
                loop_control=OrderedSet())
            for x in nm(d):
                e.deps.add(x)
            for x in nm(w):
                e.weak_deps.add(x)
            for x in nm(m or []):
                e.merge.add(x)
            for x in nm(c):
                e.loop_control.add(x)
        elif style == 'attr':
            e = topological.DepGraphEntry(item)
            e.deps = OrderedSet(nm(d))
            e.weak_deps = OrderedSet(nm(w))
            e.merge = None if m is None else OrderedSet(nm(m))
            e.loop_control = OrderedSet(nm(c))
        elif style == 'list':
            e = topological.DepGraphEntry(
                item, deps=nm(d), weak_deps=nm(w),
                merge=None if m is None else nm(m), loop_control=nm(c))
        else:
            raise ValueError(style)
        g[name(k, ks)] = e
    return g


def run_one(case, topological, OrderedSet):
    ks = case['keys']
    rev = {}
    for (k, w, m, d, c) in case['ents']:
        for x in [k] + w + (m or []) + d + c:
            rev[name(x, ks)] = x
    g = build(case, topological, OrderedSet)

    def nl(l):
        return ','.join(str(rev[x]) for x in l) or '-'
    try:
        res = [k for k, _ in topological.sort_ex(g, allow_unresolved=case['allow'])]
        return 'ok ' + nl(res)
    except topological.CycleError as e:
        return f'cycle {rev[e.item]} {nl(e.path)}'
    except topological.UnresolvedReferenceError as e:
        # 'reference to an undefined item {} in {}'
        msg = str(e)
        pre = 'reference to an undefined item '
        srev = {str(n): x for n, x in rev.items()}
        if msg.startswith(pre):
            rest = msg[len(pre):]
            i = rest.find(' in ')
            while i >= 0:
                a, b = rest[:i], rest[i + 4:]
                if a in srev and b in srev:
                    return f'unres {srev[a]} {srev[b]}'
                i = rest.find(' in ', i + 1)
        return 'exc UnresolvedReferenceError: ' + msg


def main():
    from edb.common import topological
    from edb.common.ordered import OrderedSet
    doc = json.load(sys.stdin)
    out = []
    for case in doc['cases']:
        try:
            out.append(run_one(case, topological, OrderedSet))
        except Exception as ex:     # the real code under test blew up: an outcome, not infra
            out.append(f'exc {type(ex).__name__}: {ex}'[:300])
    json.dump(out, sys.stdout)


if __name__ == '__main__':
    main()
