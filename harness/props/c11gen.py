"""Generator of SDL documents for C11 together with their abstract description.

A document is a tree:  Doc.top = [Block | Node];  Block(mod, entries=[Block | Node]);
Node = one declaration that `_register_item` turns into a DDL-graph node, with
its member nodes.  Every node knows (independently of the real tracer)

* its graph key (module, name) exactly as `TraceContextBase.get_fq_name` builds it,
* which names its header / expressions refer to (`direct`, `up`, `erefs`, `wrefs`)
  — predicted by the small re-statement of the tracer's rules in `Expr.refs`,
* what it semantically needs (`req`).

`tokens(doc)` is the model input (textual pre-order), `render(doc)` the SDL text.
Permutations reorder `Doc.top`, `Block.entries` and `Node.members` (`sites`).
`Gen` draws a universe (modules, scalars, types, pointers, functions, ...), `Builder`
turns it into nodes, `layout` distributes them over module blocks; `props/c11.py` drives.
"""
from __future__ import annotations

import itertools
from dataclasses import dataclass, field
from typing import Optional

STD = 'std'


# ------------------------------------------------------------------ doc tree
@dataclass
class Node:
    kind: str
    mod: str                      # module of the top-level ancestor
    name: str                     # graph key name part  (e.g. 'A@x@default')
    loc: str                      # local name incl. @@extra
    qloc: str                     # local name without @@extra
    head: str                     # SDL text before the body
    members: list = field(default_factory=list)     # Node | str (raw, not a graph node)
    flags: dict = field(default_factory=dict)       # isField isView isComp isPtr isCon ctrl
    bases: list = field(default_factory=list)       # [(mod, name)]
    direct: list = field(default_factory=list)
    up: list = field(default_factory=list)
    erefs: list = field(default_factory=list)       # ('o', key) | ('p', typekey, (loc, ...))
    wrefs: list = field(default_factory=list)
    req: list = field(default_factory=list)
    erefs_opt: list = field(default_factory=list)   # refs that appear or not depending on tracer caching
    tail: str = ''                # text after the body (unused mostly)
    qualified_top: bool = False   # rendered at document top level with a qualified name
    top_head: str = ''            # head to use when qualified_top

    @property
    def key(self):
        return (self.mod, self.name)


@dataclass
class Block:
    mod: str                      # full module name
    short: str                    # name as written in this block header
    entries: list = field(default_factory=list)     # Block | Node


@dataclass
class Doc:
    top: list                     # Block | Node(qualified_top)
    label: str = ''
    meta: dict = field(default_factory=dict)


def render_node(n: Node, ind: str, top_level=False) -> str:
    head = n.top_head if (top_level and n.qualified_top) else n.head
    if not n.members:
        return f'{ind}{head}{n.tail};'
    out = [f'{ind}{head} {{']
    for m in n.members:
        if isinstance(m, str):
            out.append(f'{ind}  {m};')
        else:
            out.append(render_node(m, ind + '  '))
    out.append(f'{ind}}}{n.tail};')
    return '\n'.join(out)


def render_entry(e, ind, top_level=False) -> str:
    if isinstance(e, Block):
        out = [f'{ind}module {e.short} {{']
        for x in e.entries:
            out.append(render_entry(x, ind + '  '))
        out.append(f'{ind}}};' if not top_level else f'{ind}}}')
        return '\n'.join(out)
    return render_node(e, ind, top_level)


def render(doc: Doc) -> str:
    return '\n'.join(render_entry(e, '', True) for e in doc.top) + '\n'


def walk_nodes(doc: Doc):
    """(node, encl_keys) in textual pre-order, and ('M', mod) markers"""
    def rec_node(n, encl):
        yield ('I', n, list(encl))
        for m in n.members:
            if isinstance(m, Node):
                yield from rec_node(m, encl + [n.key])

    def rec_entry(e):
        if isinstance(e, Block):
            yield ('M', e.mod, None)
            for x in e.entries:
                yield from rec_entry(x)
        else:
            yield from rec_node(e, [])
    for e in doc.top:
        yield from rec_entry(e)


def all_nodes(doc: Doc):
    return [(t[1], t[2]) for t in walk_nodes(doc) if t[0] == 'I']


# -------------------------------------------------------------- numbering
class Numbering:
    """names -> Nat such that Nat order = sorted(QualName) order (module, name)."""

    def __init__(self, doc: Doc):
        keys = set()
        locs = set()
        mods = {'default'}
        for n, encl in all_nodes(doc):
            keys.add(n.key)
            locs.update([n.loc, n.qloc])
            mods.add(n.mod)
            for k in n.bases + n.direct + n.up + n.req:
                keys.add(k)
            for r in n.erefs + n.wrefs + n.erefs_opt:
                keys.add(r[1])
                if r[0] == 'p':
                    locs.update(r[2])
        for t in walk_nodes(doc):
            if t[0] == 'M':
                mods.add(t[1])
        self.key = {k: i + 1 for i, k in enumerate(sorted(keys))}
        self.rkey = {v: k for k, v in self.key.items()}
        self.loc = {l: i + 1 for i, l in enumerate(sorted(locs))}
        ms = sorted(mods - {'default'})
        self.mod = {'default': 0, **{m: i + 1 for i, m in enumerate(ms)}}


def _nl(xs):
    xs = list(xs)
    return ','.join(str(x) for x in xs) if xs else '-'


def tokens(doc: Doc, num: Numbering, with_opt=False) -> str:
    toks = []
    for t in walk_nodes(doc):
        if t[0] == 'M':
            toks.append(f'M {num.mod[t[1]]}')
            continue
        n, encl = t[1], t[2]
        fl = ''.join('1' if n.flags.get(f) else '0'
                     for f in ('isField', 'isView', 'isComp', 'isPtr', 'isCon', 'ctrl'))

        def refs(rs):
            out = []
            for r in rs:
                if r[0] == 'o':
                    out.append(f'o{num.key[r[1]]}')
                else:
                    out.append(f'p{num.key[r[1]]}.' + '.'.join(str(num.loc[l]) for l in r[2]))
            return ','.join(out) if out else '-'
        er = list(n.erefs) + (list(n.erefs_opt) if with_opt else [])
        body = num.key[n.key] * 7 + 3
        toks.append(' '.join([
            'I', str(num.key[n.key]), str(body), str(num.mod[n.mod]), str(num.loc[n.loc]),
            str(num.loc[n.qloc]), fl, _nl(num.key[k] for k in encl),
            _nl(num.key[k] for k in n.bases), _nl(num.key[k] for k in n.direct),
            _nl(num.key[k] for k in n.up), refs(er), refs(n.wrefs),
            _nl(num.key[k] for k in n.req)]))
    return ';'.join(toks)


# ------------------------------------------------------------ permutations
def copy_doc(doc: Doc) -> Doc:
    def cn(n):
        m = Node(**{**n.__dict__})
        m.members = [cn(x) if isinstance(x, Node) else x for x in n.members]
        return m

    def ce(e):
        if isinstance(e, Block):
            return Block(e.mod, e.short, [ce(x) for x in e.entries])
        return cn(e)
    return Doc([ce(e) for e in doc.top], doc.label, dict(doc.meta))


def sites(doc: Doc, level: str):
    """mutable lists that level `level` permutes"""
    out = []
    if level == 'top':
        out.append(doc.top)
        return out

    def rec_node(n):
        if level == 'body' and len(n.members) > 1:
            out.append(n.members)
        for m in n.members:
            if isinstance(m, Node):
                rec_node(m)

    def rec_entry(e):
        if isinstance(e, Block):
            if level == 'module':
                out.append(e.entries)
            for x in e.entries:
                rec_entry(x)
        else:
            rec_node(e)
    for e in doc.top:
        rec_entry(e)
    return out


def apply_perm(lst: list, perm):
    lst[:] = [lst[i] for i in perm]


# ===================================================================== universe
@dataclass
class PtrInfo:
    name: str
    kind: str                 # 'prop' | 'link'
    target: object            # 'str' | 'int64' | ScalarInfo | TypeInfo
    multi: bool = False
    required: bool = False
    computed: object = None   # E
    lprops: list = field(default_factory=list)   # link properties declared on this declaration
    overloaded: bool = False
    extras: list = field(default_factory=list)   # member specs (see build_ptr_node)
    ext: object = None        # key of an abstract link / property it extends
    ext_lprops: list = field(default_factory=list)   # link properties inherited from `ext` (only
                              # referenced from the declaring type: see probe abslink-lprop-from-subtype)


@dataclass
class TypeInfo:
    mod: str
    name: str
    abstract: bool = False
    bases: list = field(default_factory=list)
    own: dict = field(default_factory=dict)       # pname -> PtrInfo, declaration order
    extras: list = field(default_factory=list)    # type-level member specs
    rank: int = 0

    @property
    def key(self):
        return (self.mod, self.name)

    def __hash__(self):
        return hash(self.key)

    def __eq__(self, o):
        return isinstance(o, TypeInfo) and o.key == self.key


@dataclass
class ScalarInfo:
    mod: str
    name: str
    base: object = 'str'      # 'str' | ScalarInfo | 'enum'
    extras: list = field(default_factory=list)

    @property
    def key(self):
        return (self.mod, self.name)


@dataclass
class Vis:
    src: TypeInfo             # source of the (merged) pointer as the tracer reports it
    pi: PtrInfo
    lps: dict                 # link property -> (owner key, path prefix) of its reported name


def visible(t: TypeInfo, memo: dict) -> dict:
    """pointers the tracer sees on `t` after `topological.normalize(inh_graph, _graph_merge_cb)`.
    Mirrors `_merge_items`: an own pointer has source t; a name provided by exactly one base
    keeps that base's view; met a second time it is re-created with source t, and so are
    link properties met twice."""
    if t.key in memo:
        return memo[t.key]
    res = {}
    for pn, pi in t.own.items():
        res[pn] = Vis(t, pi, {**{lp: (pi.ext, ()) for lp in pi.ext_lprops},
                              **{lp: (t.key, (pn,)) for lp in pi.lprops}})
    for b in t.bases:
        for pn, v in visible(b, memo).items():
            if pn not in res:
                res[pn] = Vis(v.src, v.pi, dict(v.lps))
            else:
                cur = res[pn]
                lps = dict(cur.lps)
                for lp, s in v.lps.items():
                    lps[lp] = s if lp not in lps else (t.key, (pn,))
                res[pn] = Vis(t, cur.pi, lps)
    memo[t.key] = res
    return res


def ancestors(t: TypeInfo):
    out = []
    for b in t.bases:
        for x in [b] + ancestors(b):
            if x not in out:
                out.append(x)
    return out


# ------------------------------------------------------------- expressions
def qual(cur_mod, key) -> str:
    mod, name = key
    if mod == cur_mod:
        return name
    return f'{mod}::{name}'


class E:
    """expression: .text(mod) and .refs(env) -> (strong, weak, tip)
    env: mod, prefix (TypeInfo|None), fns {(mod, name): [keys]}, pointers {pname: {refs}},
         vis (memo), opt / optw (sets collecting cache-dependent refs)
    tip = TypeInfo | 'scalar' | None (what the tracer knows about the type of the result)"""


@dataclass
class Lit(E):
    s: str

    def text(self, mod):
        return "'" + self.s + "'"

    def refs(self, env):
        return set(), set(), None


@dataclass
class Raw(E):
    t: str

    def text(self, mod):
        return self.t

    def refs(self, env):
        return set(), set(), None


@dataclass
class Var:
    """leading path name that is a VARIABLE: a FOR iterator / WITH alias / result alias /
    GROUP USING alias in scope, else a function parameter"""

    def __init__(self, name):
        self.name = name


@dataclass
class Path(E):
    """start: None (abbreviated path, uses the prefix) | TypeInfo | Var;
    steps: ('p', name) | ('lp', name) link property of the previous link step
           | ('b', linkname, TypeInfo) backlink with type intersection"""
    start: object
    steps: list

    def text(self, mod):
        s = '' if self.start is None else (self.start.name if isinstance(self.start, Var)
                                            else qual(mod, self.start.key))
        for st in self.steps:
            if st[0] == 'p':
                s += f'.{st[1]}'
            elif st[0] == 'lp':
                s += f'@{st[1]}'
            else:
                s += f'.<{st[1]}[is {qual(mod, st[2].key)}]'
        return s

    def refs(self, env):
        strong, weak = set(), set()
        memo = env['vis']
        if self.start is None:
            tip = env['prefix']     # None: no known prefix -> weak refs below
        elif isinstance(self.start, Var):
            # `trace_Path`: an alias in scope wins (no ref recorded for it); otherwise
            # `get_ref_name` maps a parameter name to its type, which is recorded
            if self.start.name in env.get('aliases', {}):
                tip = env['aliases'][self.start.name]
            else:
                tip = env['params'][self.start.name]
                if isinstance(tip, TypeInfo):
                    strong.add(('o', tip.key))
        else:
            tip = self.start
            strong.add(('o', tip.key))
        cur = None
        for st in self.steps:
            if st[0] == 'p':
                if not isinstance(tip, TypeInfo):
                    # unknown (or scalar) tip: weak refs to every declared pointer of that name
                    weak.update(env['pointers'].get(st[1], ()))
                    cur = None
                    tip = None
                    continue
                v = visible(tip, memo).get(st[1])
                if v is None:
                    return strong, weak, None
                strong.add(('p', v.src.key, (st[1],)))
                cur = v
                if v.pi.computed is not None and not (st[1] in tip.own and v.src is tip):
                    # inherited computable: `_merge_items` copies the pointer WITHOUT its
                    # target_expr, the tracer cannot look inside and loses the type.  The copy
                    # still goes through the per-expression recursion guard: a SECOND traversal
                    # in the same expression bails out and drops the rest of the path
                    vk = (tip.key, st[1])
                    if vk in env['visited']:
                        return strong, weak, None
                    env['visited'].add(vk)
                    tip = None
                elif v.pi.computed is not None:
                    vk = (tip.key, st[1])
                    if vk in env['visited']:
                        return strong, weak, None      # "possibly recursive definition, bail out"
                    env['visited'].add(vk)
                    s2, w2, t2 = v.pi.computed.refs({**env, 'prefix': v.src})
                    if t2 is not None:
                        # the expression yields a type (object OR scalar): the tracer caches it
                        # on the pointer (`ptr.target = ptr_target`) and later traces do not
                        # descend any more -> these edges depend on who is traced first
                        env['opt'].update(s2 - strong)
                        env['optw'].update(w2 - weak)
                        tip = t2
                    else:
                        strong |= s2
                        weak |= w2
                        tip = None
                else:
                    tip = v.pi.target if isinstance(v.pi.target, TypeInfo) else 'scalar'
            elif st[0] == 'lp':
                owner, pref = cur.lps[st[1]]
                strong.add(('p', owner, pref + (st[1],)))
                # (the tracer leaves the tip at the link's target here)
            else:
                _, lname, ut = st
                strong.add(('o', ut.key))
                v = visible(ut, memo).get(lname)
                if v is None:
                    return strong, weak, None
                strong.add(('p', ut.key, (lname,)))
                tip = ut
                cur = None
        return strong, weak, tip


@dataclass
class Call(E):
    fmod: Optional[str]       # None = std function (no user refs)
    fname: str
    args: list

    def text(self, mod):
        fn = self.fname if (self.fmod is None or self.fmod == mod) else f'{self.fmod}::{self.fname}'
        return f'{fn}({", ".join(a.text(mod) for a in self.args)})'

    def refs(self, env):
        strong, weak = set(), set()
        if self.fmod is not None:
            for k in env['fns'].get((self.fmod, self.fname), ()):
                strong.add(('o', k))
        for a in self.args:
            s, w, _ = a.refs(env)
            strong |= s
            weak |= w
        return strong, weak, None


@dataclass
class Op(E):
    op: str
    a: E
    b: E

    def text(self, mod):
        return f'({self.a.text(mod)} {self.op} {self.b.text(mod)})'

    def refs(self, env):
        s1, w1, _ = self.a.refs(env)
        s2, w2, _ = self.b.refs(env)
        return s1 | s2, w1 | w2, None


@dataclass
class Cond(E):
    """(a if true else b): the tracer gives up on the type of an if-else"""
    a: E
    b: E

    def text(self, mod):
        return f'({self.a.text(mod)} if true else {self.b.text(mod)})'

    def refs(self, env):
        s1, w1, _ = self.a.refs(env)
        s2, w2, _ = self.b.refs(env)
        return s1 | s2, w1 | w2, None


@dataclass
class Tup(E):
    els: list

    def text(self, mod):
        return '(' + ', '.join(e.text(mod) for e in self.els) + ')'

    def refs(self, env):
        s, w = set(), set()
        for e in self.els:
            a, b, _ = e.refs(env)
            s |= a
            w |= b
        return s, w, None


@dataclass
class Cast(E):
    ty: object                # 'str' | 'int64' | ScalarInfo
    e: E

    def text(self, mod):
        t = self.ty if isinstance(self.ty, str) else qual(mod, self.ty.key)
        return f'<{t}>{self.e.text(mod)}'

    def refs(self, env):
        s, w, _ = self.e.refs(env)
        if not isinstance(self.ty, str):
            s = s | {('o', self.ty.key)}
        return s, w, None


@dataclass
class Glob(E):
    key: tuple

    def text(self, mod):
        return f'(global {qual(mod, self.key)})'

    def refs(self, env):
        return {('o', self.key)}, set(), None


@dataclass
class Sel(E):
    t: object                 # TypeInfo
    cond: Optional[E] = None
    limit1: bool = False

    def text(self, mod):
        s = f'select {qual(mod, self.t.key)}'
        if self.cond is not None:
            s += f' filter {self.cond.text(mod)}'
        if self.limit1:
            s += ' limit 1'
        return f'({s})'

    def refs(self, env):
        strong = {('o', self.t.key)}
        weak = set()
        if self.cond is not None:
            s, w, _ = self.cond.refs({**env, 'prefix': self.t})
            strong |= s
            weak |= w
        return strong, weak, self.t


@dataclass
class ObjRef(E):
    """bare reference to an alias / type by name (a one-step path)"""
    key: tuple

    def text(self, mod):
        return qual(mod, self.key)

    def refs(self, env):
        return {('o', self.key)}, set(), None


@dataclass
class Shape(E):
    t: object
    els: list                 # (name, E) computed elements, traced with prefix t

    def text(self, mod):
        inner = ', '.join(f'{n} := {e.text(mod)}' for n, e in self.els)
        return f'{qual(mod, self.t.key)} {{ {inner} }}'

    def refs(self, env):
        strong, weak = {('o', self.t.key)}, set()
        for _, e in self.els:
            s, w, _ = e.refs({**env, 'prefix': self.t})
            strong |= s
            weak |= w
        return strong, weak, self.t


def _bind(env, var, tip):
    return {**env, 'aliases': {**env.get('aliases', {}), var: tip if isinstance(tip, TypeInfo) else None}}


@dataclass
class ForE(E):
    """(for v in <iterator> union <body>): `trace_For` binds `__alias__::v` to what the
    iterator traces to (a sentinel when untyped) in a PRIVATE copy of the object index"""
    var: str
    it: E
    body: E

    def text(self, mod):
        return f'(for {self.var} in {self.it.text(mod)} union {self.body.text(mod)})'

    def refs(self, env):
        s, w, tip = self.it.refs(env)
        s2, w2, t2 = self.body.refs(_bind(env, self.var, tip))
        return s | s2, w | w2, t2


@dataclass
class WithE(E):
    """(with v := <bound> select <body>)"""
    var: str
    bound: E
    body: E

    def text(self, mod):
        return f'(with {self.var} := {self.bound.text(mod)} select {self.body.text(mod)})'

    def refs(self, env):
        s, w, tip = self.bound.refs(env)
        s2, w2, t2 = self.body.refs(_bind(env, self.var, tip))
        return s | s2, w | w2, t2


@dataclass
class ResAlias(E):
    """(select v := T filter <cond using v.ptr>)"""
    var: str
    t: object
    cond: E

    def text(self, mod):
        return f'(select {self.var} := {qual(mod, self.t.key)} filter {self.cond.text(mod)})'

    def refs(self, env):
        s, w, _ = self.cond.refs({**_bind(env, self.var, self.t), 'prefix': self.t})
        return s | {('o', self.t.key)}, w, self.t


@dataclass
class GroupE(E):
    """(group T using v := .ptr by v)"""
    t: object
    var: str
    pname: str

    def text(self, mod):
        return f'(group {qual(mod, self.t.key)} using {self.var} := .{self.pname} by {self.var})'

    def refs(self, env):
        s, w, _ = Path(None, [('p', self.pname)]).refs({**env, 'prefix': self.t})
        return s | {('o', self.t.key)}, w, self.t


# names deliberately shared between iterators / WITH aliases / function parameters / types
SHARED_NAMES = ('x', 'u', 'item', 'a', 'v')


@dataclass
class Unknown(E):
    """<untypable object expression>.ptr : the tracer cannot type the first step of the path
    (set operator, `distinct`, function call, if-else) and falls back to WEAK references to
    every declared pointer of that name"""
    inner: E
    pname: str
    form: str = 'assert_exists'     # assert_exists | union | distinct | ifelse | coalesce

    def text(self, mod):
        x = self.inner.text(mod)
        head = {'assert_exists': f'assert_exists({x})', 'union': f'({x} union {x})',
                'distinct': f'(distinct {x})', 'ifelse': f'({x} if true else {x})',
                'coalesce': f'({x} ?? {x})'}[self.form]
        return f'{head}.{self.pname}'

    def refs(self, env):
        s, w, _ = self.inner.refs(env)
        w = set(w) | set(env['pointers'].get(self.pname, ()))
        return s, w, None


UNTYPED_FORMS = ('assert_exists', 'union', 'distinct', 'ifelse', 'coalesce')


# ================================================================== generator
@dataclass
class FnInfo:
    mod: str
    name: str
    params: list              # [(pname, 'str'|'int64'|ScalarInfo)]
    ret: object
    body: E
    seq: int = 0


@dataclass
class Universe:
    mods: list
    annos: list = field(default_factory=list)        # keys
    cons: list = field(default_factory=list)         # keys (abstract constraints on str)
    scalars: list = field(default_factory=list)
    abslinks: list = field(default_factory=list)     # (key, [lprop names])
    types: list = field(default_factory=list)
    fns: list = field(default_factory=list)
    globs: list = field(default_factory=list)        # (key, 'str'|ScalarInfo|E)
    aliases: list = field(default_factory=list)      # (key, E)


class Gen:
    def __init__(self, rng, cg, cg_params, size='small', features=None):
        self.rng = rng
        self.cg = cg
        self.cg_params = cg_params
        self.size = size
        self.n = 0
        self.u = None
        self.feat = features or {}
        self._pool_used = set()

    def fresh(self, p):
        self.n += 1
        return f'{p}{self.n}'

    def chance(self, p):
        return self.rng.random() < p

    # ---------------------------------------------------------- universe
    def universe(self):
        rng = self.rng
        big = self.size == 'large'
        mods = ['default']
        if self.chance(0.4 if self.size == 'tiny' else 0.7):
            mods.append('m1')
            if self.chance(0.4):
                mods.append('m2')
            if self.chance(0.3):
                mods.append('m1::sub')
        u = self.u = Universe(mods)
        pm = lambda: rng.choice(mods)
        for _ in range(rng.randint(0, 2 if big else 1)):
            u.annos.append((pm(), self.fresh('an')))
        for _ in range(rng.randint(0, 2 if big else 1)):
            u.cons.append((pm(), self.fresh('co')))
        for _ in range(rng.randint(0, 3 if big else 1)):
            base = 'str'
            if u.scalars and self.chance(0.4):
                base = rng.choice(u.scalars)
            sc = ScalarInfo(pm(), self.fresh('S'), base)
            if self.chance(0.5):
                sc.extras.append(('con_arg', 'max_len_value', str(rng.randint(20, 60))))
            if u.cons and self.chance(0.4):
                sc.extras.append(('con_user', rng.choice(u.cons)))
            if self.chance(0.2):
                sc.extras.append(('anno_std', 'title', 'sc'))
            if u.annos and self.chance(0.2):
                sc.extras.append(('anno_user', rng.choice(u.annos), 'sa'))
            u.scalars.append(sc)
        rng.shuffle(u.scalars)
        for _ in range(rng.randint(0, 1)):
            u.abslinks.append(((pm(), self.fresh('al')), [self.fresh('alp')]))
        # plain globals first (expressions may mention them)
        for _ in range(rng.randint(0, 2 if big else 1)):
            ty = rng.choice(['str'] + u.scalars)
            u.globs.append(((pm(), self.fresh('gl')), ty))
        # types
        nt = {'tiny': rng.randint(1, 3), 'small': rng.randint(2, 4), 'large': rng.randint(4, 7)}[self.size]
        memo = {}
        for i in range(nt):
            tname = self.fresh('T')
            # ('a' is the parameter name of every str function: when such a function looks
            # through a computable, the tracer resolves the names in the computable's expression
            # with the function's parameters in scope, so a type called `a` would be captured)
            free = [n for n in SHARED_NAMES if n not in self._pool_used and n != 'a']
            if free and self.chance(0.12):
                tname = rng.choice(free)       # a type called like iterators / parameters
                self._pool_used.add(tname)
            t = TypeInfo(pm(), tname, abstract=self.chance(0.25), rank=i)
            if u.types and self.chance(0.6):
                k = 1 if self.chance(0.7) else 2
                for _try in range(4):
                    bs = rng.sample(u.types, min(k, len(u.types)))
                    bs.sort(key=lambda b: -b.rank)      # subtypes first: a consistent MRO exists
                    t.bases = bs
                    if self._no_conflict(t):
                        break
                    t.bases = []
            u.types.append(t)
        # regular pointers, in rank order
        for t in u.types:
            self._regular_pointers(t)
        # functions
        for i in range(rng.randint(0, 3 if big else 2)):
            self._function()
        # computeds, type-level members (rank order; may mention lower computeds)
        self._vis = {}
        for t in u.types:
            self._computeds(t)
        for t in u.types:
            self._type_extras(t)
        # a weak dependency closing a cycle through >= 2 hard edges (see `weak_cycle`)
        if self.chance(0.4):
            self.weak_cycle()
        # computed globals, aliases
        for _ in range(rng.randint(0, 1)):
            e = self._top_str_expr()
            u.globs.append(((pm(), self.fresh('gc')), e))
        for _ in range(rng.randint(0, 2 if big else 1)):
            self._alias()
        return u

    def weak_cycle(self, hidden=False):
        """WA@h := <untypable>(U).p  ~~weak~~>  WT@p := wf('x')  -->  wf (uses WA.h)  -->  WA@h :
        the weak reference (to every pointer called p, among them WT@p) closes a cycle whose
        hard part is two or three edges long.  hidden=True puts a genuine function cycle
        wf <-> wg behind the weak edge instead."""
        rng, u = self.rng, self.u
        cands = [(t, pn) for t in u.types for pn, pi in t.own.items()
                 if pi.kind == 'prop' and pi.computed is None and pi.target != 'int64' and not pi.overloaded]
        if not cands:
            return False
        U, p = rng.choice(cands)
        A = TypeInfo(rng.choice(u.mods), self.fresh('WA'), rank=len(u.types))
        h = PtrInfo(self.fresh('h'), 'prop', 'str', multi=True)
        h.computed = Unknown(ObjRef(U.key), p, rng.choice(UNTYPED_FORMS))
        A.own[h.name] = h
        use_h = Cast('str', Call(None, 'count', [Path(A, [('p', h.name)])]))
        fmod = rng.choice(u.mods)
        f = FnInfo(fmod, self.fresh('wf'), [('a', 'str')], 'str', None, len(u.fns))
        if hidden:
            g = FnInfo(rng.choice(u.mods), self.fresh('wg'), [('a', 'str')], 'str',
                       Op('++', Call(f.mod, f.name, [Raw('a')]), Lit('g')), len(u.fns) + 1)
            f.body = Op('++', Call(g.mod, g.name, [Raw('a')]), Lit('f'))
            u.fns += [f, g]
        elif self.chance(0.4):
            f2 = FnInfo(rng.choice(u.mods), self.fresh('wf'), [('a', 'str')], 'str',
                        Op('++', Raw('a'), use_h), len(u.fns) + 1)
            f.body = Op('++', Call(f2.mod, f2.name, [Raw('a')]), Lit('1'))
            u.fns += [f, f2]
        else:
            f.body = Op('++', Raw('a'), use_h)
            u.fns.append(f)
        T = TypeInfo(rng.choice(u.mods), self.fresh('WT'), rank=len(u.types) + 1)
        c = PtrInfo(p, 'prop', 'str', multi=True)
        c.computed = Call(f.mod, f.name, [Lit('x')])
        T.own[p] = c
        u.types += [A, T]
        return True

    def _no_conflict(self, t):
        # same pointer name reaching t from different origins is avoided
        seen = {}
        for b in t.bases:
            for pn, v in visible(b, {}).items():
                o = id(self._origin(b, pn))
                if pn in seen and seen[pn] != o:
                    return False
                seen[pn] = o
        return True

    def _origin(self, t, pn):
        cands = [x for x in [t] + ancestors(t) if pn in x.own and not x.own[pn].overloaded]
        return cands[-1].own[pn] if cands else None

    def _regular_pointers(self, t):
        rng, u = self.rng, self.u
        inh = visible(t, {})
        # overloads of inherited regular pointers
        for pn, v in list(inh.items()):
            if pn in t.own or v.pi.computed is not None:
                continue
            if self.chance(0.3):
                pi = PtrInfo(pn, v.pi.kind, v.pi.target, v.pi.multi, v.pi.required, overloaded=True)
                self._ptr_extras(pi, t, overload=True)
                if pi.kind == 'link' and self.chance(0.3):
                    pi.lprops.append(self.fresh('lp'))
                t.own[pn] = pi
        for _ in range(rng.randint(1, 3)):
            if self.chance(0.6):
                ty = rng.choice(['str', 'str', 'int64'] + u.scalars)
                pi = PtrInfo(self.fresh('p'), 'prop', ty, multi=self.chance(0.15),
                             required=self.chance(0.2))
            else:
                pi = PtrInfo(self.fresh('l'), 'link', rng.choice(u.types), multi=self.chance(0.4),
                             required=False)
                for _ in range(rng.randint(0, 2)):
                    pi.lprops.append(self.fresh('lp'))
                if u.abslinks and self.chance(0.3):
                    pi.ext = rng.choice(u.abslinks)[0]
            self._ptr_extras(pi, t)
            t.own[pi.name] = pi

    def _ptr_extras(self, pi, t, overload=False):
        rng, u = self.rng, self.u
        strlike = pi.kind == 'prop' and pi.target != 'int64'
        if pi.kind == 'prop' and not pi.multi and self.chance(0.3):
            pi.extras.append(('con_std', 'exclusive'))
        if pi.kind == 'link' and self.chance(0.2):
            pi.extras.append(('con_std', 'exclusive'))
        if strlike and not pi.multi and self.chance(0.25):
            pi.extras.append(('con_arg', 'max_len_value', str(rng.randint(61, 99))))
        if strlike and not pi.multi and u.cons and self.chance(0.3):
            pi.extras.append(('con_user', rng.choice(u.cons)))
        if strlike and not pi.multi and self.chance(0.15):
            pi.extras.append(('con_expr', Raw(f"(__subject__ != 'z{rng.randint(0, 9)}')")))
        if self.chance(0.2):
            pi.extras.append(('anno_std', rng.choice(['title', 'description']), 'a'))
        if u.annos and self.chance(0.25):
            pi.extras.append(('anno_user', rng.choice(u.annos), 'b'))
        if strlike and not pi.multi and pi.target == 'str':
            r = rng.random()
            if r < 0.15:
                pi.extras.append(('default_const', "'d'"))
            elif r < 0.45:
                pi.extras.append(('default', None))   # expression chosen later (needs functions)
        if self.chance(0.1) and not overload:
            pi.extras.append(('raw', 'readonly := true'))

    def _function(self):
        rng, u = self.rng, self.u
        mod = rng.choice(u.mods)
        # sometimes an overload of an existing function (same module and name)
        if u.fns and self.chance(0.25):
            f0 = rng.choice(u.fns)
            if not any(f.mod == f0.mod and f.name == f0.name and f.params[0][1] == 'int64' for f in u.fns):
                u.fns.append(FnInfo(f0.mod, f0.name, [('a', 'int64')], 'str', Raw('<str>a'), len(u.fns)))
                return
        if u.types and self.chance(0.3):
            # object-typed parameter named from the shared pool, used as leading path name
            cands = [(t, pn) for t in u.types for pn in self._single_str_props(t)]
            if cands:
                t, pn = rng.choice(cands)
                v = rng.choice(SHARED_NAMES)
                u.fns.append(FnInfo(mod, self.fresh('of'), [(v, t)], 'optional str',
                                    Path(Var(v), [('p', pn)]), len(u.fns)))
                return
        name = self.fresh('fn')
        pty = rng.choice(['str', 'str'] + u.scalars)
        r = rng.random()
        lower = [f for f in u.fns if f.params[0][1] == 'str']
        if r < 0.3 and lower:
            f = rng.choice(lower)
            body = Op('++', Call(f.mod, f.name, [Cast('str', Raw('a'))]), Lit('f'))
        elif r < 0.5 and u.types:
            body = Op('++', Cast('str', Raw('a')), Cast('str', Call(None, 'count', [ObjRef(rng.choice(u.types).key)])))
        elif r < 0.65 and u.scalars:
            body = Cast('str', Cast(rng.choice(u.scalars), Cast('str', Raw('a'))))
        elif r < 0.75 and u.globs:
            g = rng.choice([g for g in u.globs if not isinstance(g[1], E)])
            body = Op('++', Cast('str', Raw('a')), Op('??', Cast('str', Glob(g[0])), Lit('g')))
        else:
            body = Op('++', Cast('str', Raw('a')), Lit('x'))
        u.fns.append(FnInfo(mod, name, [('a', pty)], 'str', body, len(u.fns)))

    # ------------------------------------------------------ expression pieces
    def _single_str_props(self, t, regular_only=True):
        out = []
        for pn, v in visible(t, {}).items():
            if v.pi.kind == 'prop' and not v.pi.multi and v.pi.target != 'int64':
                if v.pi.computed is None or not regular_only:
                    out.append(pn)
        return out

    def _top_str_expr(self):
        """str expression without a path prefix (defaults, computed globals)"""
        rng, u = self.rng, self.u
        ch = []
        fs = [f for f in u.fns if f.params[0][1] == 'str']
        if fs:
            ch.append('fn')
        if u.types:
            ch.append('count')
        gl = [g for g in u.globs if not isinstance(g[1], E)]
        if gl:
            ch.append('glob')
        if not ch:
            return Op('++', Lit('a'), Lit('b'))
        c = rng.choice(ch)
        if c == 'fn':
            f = rng.choice(fs)
            return Call(f.mod, f.name, [Lit('v')])
        if c == 'count':
            return Cast('str', Call(None, 'count', [ObjRef(rng.choice(u.types).key)]))
        g = rng.choice(gl)
        return Op('??', Cast('str', Glob(g[0])), Lit('g'))

    def _str_expr(self, t, depth=0):
        """str-valued expression with prefix t (computables, alias shapes)"""
        rng, u = self.rng, self.u
        vis = visible(t, {})
        ch = ['lit']
        props = [pn for pn, v in vis.items() if v.pi.kind == 'prop' and v.pi.target != 'int64'
                 and (v.pi.computed is None or v.pi.computed is not self._cur)]
        links = [pn for pn, v in vis.items() if v.pi.kind == 'link' and v.pi.computed is None]
        clinks = [pn for pn, v in vis.items() if v.pi.kind == 'link' and v.pi.computed is not None
                  and v.pi.computed is not self._cur]
        if props:
            ch += ['prop', 'prop', 'concat']
        if links:
            ch += ['nav', 'nav', 'lprop', 'countl', 'unknown', 'unknown', 'for', 'for', 'with']
        if clinks:
            ch += ['countcl', 'countcl', 'navc', 'navc']
        fs = [f for f in u.fns if f.params[0][1] == 'str']
        if fs and depth < 2:
            ch.append('fn')
        if u.scalars and props:
            ch.append('cast')
        gl = [g for g in u.globs if not isinstance(g[1], E)]
        if gl:
            ch.append('glob')
        ch.append('count')
        c = rng.choice(ch)
        if c == 'prop':
            return Path(None, [('p', rng.choice(props))])
        if c == 'concat':
            return Op('++', Cast('str', Path(None, [('p', rng.choice(props))])), Lit('k'))
        if c == 'nav':
            l = rng.choice(links)
            tt = vis[l].pi.target
            qs = [pn for pn, v in visible(tt, {}).items() if v.pi.kind == 'prop' and v.pi.target != 'int64'
                  and v.pi.computed is None]
            if qs:
                return Path(None, [('p', l), ('p', rng.choice(qs))])
            return Cast('str', Call(None, 'count', [Path(None, [('p', l)])]))
        if c in ('for', 'with'):
            # FOR iterator / WITH alias named from the shared pool, over a link or its target type
            l = rng.choice(links)
            tt = vis[l].pi.target
            qs = [pn for pn, v in visible(tt, {}).items() if v.pi.kind == 'prop' and v.pi.target != 'int64'
                  and v.pi.computed is None]
            if qs:
                var = rng.choice(SHARED_NAMES)
                body = Path(Var(var), [('p', rng.choice(qs))])
                if c == 'for':
                    it = Path(None, [('p', l)]) if self.chance(0.6) else Path(tt, [])
                    return Cast('str', Call(None, 'count', [ForE(var, it, body)]))
                return Cast('str', Call(None, 'count', [WithE(var, Path(tt, []), body)]))
            return Cast('str', Call(None, 'count', [Path(None, [('p', l)])]))
        if c == 'lprop':
            l = rng.choice(links)
            lps = [lp for lp, (ok, pref) in vis[l].lps.items()]
            if lps:
                return Path(None, [('p', l), ('lp', rng.choice(lps))])
            return Cast('str', Call(None, 'count', [Path(None, [('p', l)])]))
        if c == 'countl':
            return Cast('str', Call(None, 'count', [Path(None, [('p', rng.choice(links))])]))
        if c == 'navc':
            # continue the path PAST a computed link (own: the tracer infers / caches the target
            # or gives up; inherited: it always gives up and falls back to weak by-name refs)
            l = rng.choice(clinks)
            tt = vis[l].pi.target
            qs = [pn for pn, v in visible(tt, {}).items() if v.pi.kind == 'prop' and v.pi.target != 'int64'
                  and v.pi.computed is None] if isinstance(tt, TypeInfo) else []
            if qs:
                return Path(None, [('p', l), ('p', rng.choice(qs))])
            return Cast('str', Call(None, 'count', [Path(None, [('p', l)])]))
        if c == 'countcl':
            return Cast('str', Call(None, 'count', [Path(None, [('p', rng.choice(clinks))])]))
        if c == 'unknown':
            l = rng.choice(links)
            tt = vis[l].pi.target
            qs = [pn for pn, v in visible(tt, {}).items() if v.pi.kind == 'prop' and v.pi.target != 'int64'
                  and v.pi.computed is None]
            if qs:
                return Unknown(Path(None, [('p', l)]), rng.choice(qs))
            return Lit('u')
        if c == 'fn':
            f = rng.choice(fs)
            return Call(f.mod, f.name, [Cast('str', self._str_expr(t, depth + 1))])
        if c == 'cast':
            return Cast('str', Cast(rng.choice(u.scalars), Cast('str', Path(None, [('p', rng.choice(props))]))))
        if c == 'glob':
            return Op('??', Cast('str', Glob(rng.choice(gl)[0])), Lit('g'))
        if c == 'count':
            return Cast('str', Call(None, 'count', [ObjRef(rng.choice(u.types).key)]))
        return Lit('s')

    _cur = None

    def _computeds(self, t):
        rng, u = self.rng, self.u
        for _ in range(rng.randint(0, 2)):
            vis = visible(t, {})
            if self.chance(0.65):
                pi = PtrInfo(self.fresh('c'), 'prop', 'str')
                pi.computed = self._str_expr(t)
                # a multi source makes the computable multi; we never use computables where
                # a singleton is required, so only the name matters here
                pi.multi = True
            else:
                links = [pn for pn, v in vis.items() if v.pi.kind == 'link']
                r = rng.random()
                e = None
                tgt = None
                if links and r < 0.35:
                    l = rng.choice(links)
                    if vis[l].pi.computed is None:
                        e = Path(None, [('p', l)])
                        tgt = vis[l].pi.target
                        if self.chance(0.35):
                            # a form whose type the tracer cannot infer
                            e = Call(None, 'assert_exists', [e]) if self.chance(0.5) else Cond(e, e)
                if e is None and r < 0.7:
                    # backlink: some type U with a regular link l
                    up = [t] + ancestors(t)
                    cands = [(x, pn) for x in u.types for pn, v in visible(x, {}).items()
                             if v.pi.kind == 'link' and v.pi.computed is None and v.pi.target in up]
                    if cands:
                        # prefer a subtype that merely INHERITS the link from another module:
                        # the trace then names `x@pn`, which exists only on an ancestor
                        cross = [(x, pn) for x, pn in cands
                                 if pn not in x.own and visible(x, {})[pn].src.mod != x.mod]
                        inh = [(x, pn) for x, pn in cands if pn not in x.own]
                        pool = cross if (cross and self.chance(0.6)) else (inh if (inh and self.chance(0.5)) else cands)
                        x, pn = rng.choice(pool)
                        e = Path(None, [('b', pn, x)])
                        tgt = x
                if e is None:
                    x = rng.choice(u.types)
                    e = Sel(x)
                    tgt = x
                pi = PtrInfo(self.fresh('cl'), 'link', tgt, multi=True)
                pi.computed = e
            t.own[pi.name] = pi

    def _type_extras(self, t):
        rng, u = self.rng, self.u
        props = [pn for pn, v in visible(t, {}).items()
                 if v.pi.kind == 'prop' and not v.pi.multi and v.pi.computed is None and v.pi.target != 'int64']
        own_props = [pn for pn in props if pn in t.own]
        used = set()
        if props and self.chance(0.35):
            e = Path(None, [('p', rng.choice(props))])
            t.extras.append(('index', e))
        if len(props) >= 2 and self.chance(0.2):
            a, b = rng.sample(props, 2)
            t.extras.append(('index', Tup([Path(None, [('p', a)]), Path(None, [('p', b)])])))
        if props and self.chance(0.25):
            t.extras.append(('excl_on', Path(None, [('p', rng.choice(props))])))
        if props and self.chance(0.15):
            t.extras.append(('con_expr', Op('!=', Path(None, [('p', rng.choice(props))]), Lit('q'))))
        if self.chance(0.2):
            t.extras.append(('anno_std', 'title', 't'))
        if u.annos and self.chance(0.2):
            t.extras.append(('anno_user', rng.choice(u.annos), 'ta'))
        if self.chance(0.25):
            self._cur = None
            e = Call(None, 'any', [Op('=', Cast('str', self._str_expr(t)), Lit('a'))])
            t.extras.append(('policy', self.fresh('pol'), e))
        # dedup identical type-level members (same graph key)
        seen, out = set(), []
        for ex in t.extras:
            k = (ex[0], ex[1].text('') if isinstance(ex[1], E) else ex[1])
            if k not in seen:
                seen.add(k)
                out.append(ex)
        t.extras = out

    def _alias(self):
        rng, u = self.rng, self.u
        mod = rng.choice(u.mods)
        r = rng.random()
        t = rng.choice(u.types)
        self._cur = None
        if r < 0.4:
            e = Shape(t, [(self.fresh('z'), self._str_expr(t))])
        elif r < 0.65:
            ps = self._single_str_props(t)
            cond = Op('=', Cast('str', Path(None, [('p', rng.choice(ps))])), Lit('a')) if ps else None
            e = Sel(t, cond)
        elif r < 0.8 and u.aliases:
            e = Sel_alias(rng.choice(u.aliases)[0])
        else:
            links = [pn for pn, v in visible(t, {}).items() if v.pi.kind == 'link' and v.pi.computed is None]
            e = Path(t, [('p', rng.choice(links))]) if links else Sel(t)
        u.aliases.append(((mod, self.fresh('A')), e))


@dataclass
class Sel_alias(E):
    key: tuple

    def text(self, mod):
        return f'(select {qual(mod, self.key)})'

    def refs(self, env):
        return {('o', self.key)}, set(), None


# ============================================================== node building
class Builder:
    def __init__(self, u: Universe, rng, cg, cg_params):
        self.u = u
        self.rng = rng
        self.cg = cg
        self.cg_params = cg_params
        self.vis = {}
        self.fns = {}
        for f in u.fns:
            self.fns.setdefault((f.mod, f.name), []).append(self.fn_key(f))
        # ctx.pointers: every explicitly declared concrete pointer, by short name
        self.pointers = {}
        for t in u.types:
            for pn, pi in t.own.items():
                self.pointers.setdefault(pn, set()).add(('p', t.key, (pn,)))
                for lp in pi.lprops:
                    self.pointers.setdefault(lp, set()).add(('p', t.key, (pn, lp)))
        for k, lps in u.abslinks:
            for lp in lps:
                self.pointers.setdefault(lp, set()).add(('p', k, (lp,)))

    def fn_key(self, f: FnInfo):
        return (f.mod, f'{f.name}@@({self.cg_params(self.fn_params_text(f, f.mod))})')

    def fn_params_text(self, f, mod):
        return ', '.join(f'{n}: {self.ty_text(t, mod)}' for n, t in f.params)

    def ty_text(self, ty, mod):
        return ty if isinstance(ty, str) else qual(mod, ty.key)

    def env(self, mod, prefix):
        return {'mod': mod, 'prefix': prefix, 'fns': self.fns, 'pointers': self.pointers,
                'vis': self.vis, 'opt': set(), 'optw': set(), 'visited': set(), 'aliases': {},
                'params': {}}

    def trace(self, e: E, mod, prefix, params=None):
        env = self.env(mod, prefix)
        env['params'] = dict(params or {})
        s, w, _ = e.refs(env)
        opt = env['opt'] - s
        return sorted(s), sorted(w), sorted(opt)

    def req_of(self, refs):
        """semantic requirements behind a list of traced references: objects themselves,
        and for a pointer name every declaration of it on the type or its ancestors"""
        out = []
        tmap = {t.key: t for t in self.u.types}
        for r in refs:
            if r[0] == 'o':
                out.append(r[1])
            else:
                t = tmap.get(r[1])
                if t is None:
                    # abstract link property
                    out.append((r[1][0], r[1][1] + '@' + '@'.join(r[2])))
                    continue
                for x in [t] + ancestors(t):
                    if r[2][0] in x.own:
                        pi = x.own[r[2][0]]
                        if len(r[2]) == 1:
                            out.append((x.mod, f'{x.name}@{r[2][0]}'))
                        elif r[2][1] in pi.lprops:
                            out.append((x.mod, f'{x.name}@{r[2][0]}@{r[2][1]}'))
        return out

    # members shared by pointers / types / scalars --------------------------
    def member(self, spec, owner: Node, mod, prefix, ctrl=False):
        kind = spec[0]
        okey = owner.key
        if kind == 'raw':
            return spec[1]
        if kind == 'default_const':
            return f'default := {spec[1]}'
        if kind == 'default':
            e = spec[1]
            s, w, opt = self.trace(e, mod, None)
            return Node('field', mod, f'{owner.name}@default', 'default', 'default',
                        f'default := ({e.text(mod)})', flags={'isField': True},
                        erefs=s, wrefs=w, erefs_opt=opt, req=[okey] + self.req_of(s))
        if kind in ('con_std', 'con_arg', 'con_user', 'con_expr', 'excl_on'):
            if kind == 'con_std':
                cname, q, extra, tail, e = ('std', spec[1]), spec[1], '', '', None
            elif kind == 'con_arg':
                cname, q, extra, tail, e = ('std', spec[1]), spec[1], self.cg(spec[2]), f'({spec[2]})', None
            elif kind == 'con_user':
                cname, q, extra, tail, e = spec[1], qual(mod, spec[1]), '', '', None
            elif kind == 'con_expr':
                e = spec[1]
                cname, q, tail = ('std', 'expression'), 'expression', f' on ({e.text(mod)})'
                extra = self.cg(e.text(mod))
            else:
                e = spec[1]
                cname, q, tail = ('std', 'exclusive'), 'exclusive', f' on ({e.text(mod)})'
                extra = self.cg(e.text(mod))
            qloc = f'{cname[0]}::{cname[1]}'
            loc = qloc + (f'@@{extra}' if extra else '')
            user = cname[0] != 'std'
            s, w, opt = self.trace(e, mod, prefix) if e is not None else ([], [], [])
            req = ([] if ctrl else [okey]) + ([cname] if user else []) + self.req_of(s)
            return Node('constraint', mod, f'{owner.name}@{loc}', loc, qloc, f'constraint {q}{tail}',
                        flags={'isCon': True, 'ctrl': ctrl}, direct=[cname] if user else [],
                        up=[cname] if user else [], erefs=s, wrefs=w, erefs_opt=opt, req=req)
        if kind in ('anno_std', 'anno_user'):
            aname = ('std', spec[1]) if kind == 'anno_std' else spec[1]
            q = spec[1] if kind == 'anno_std' else qual(mod, spec[1])
            loc = f'{aname[0]}::{aname[1]}'
            user = kind == 'anno_user'
            return Node('annotation', mod, f'{owner.name}@{loc}', loc, loc, f"annotation {q} := '{spec[2]}'",
                        up=[aname] if user else [], req=[okey] + ([aname] if user else []))
        if kind == 'index':
            e = spec[1]
            s, w, opt = self.trace(e, mod, prefix)
            loc = f'__::idx@@({self.cg(e.text(mod))})'
            return Node('index', mod, f'{owner.name}@{loc}', loc, '__::idx', f'index on ({e.text(mod)})',
                        erefs=s, wrefs=w, erefs_opt=opt, req=[okey] + self.req_of(s))
        if kind == 'policy':
            e = spec[2]
            s, w, opt = self.trace(e, mod, prefix)
            loc = f'{mod}::{spec[1]}'
            return Node('policy', mod, f'{owner.name}@{loc}', loc, loc,
                        f'access policy {spec[1]} allow all using ({e.text(mod)})',
                        flags={'isComp': True}, erefs=s, wrefs=w, erefs_opt=opt,
                        req=[okey] + self.req_of(s))
        raise AssertionError(spec)

    def ptr_node(self, t: TypeInfo, pi: PtrInfo, tnode: Node) -> Node:
        mod = t.mod
        kw = 'property' if pi.kind == 'prop' else 'link'
        q = ('overloaded ' if pi.overloaded else '') + ('required ' if pi.required else '') \
            + ('multi ' if pi.multi and pi.computed is None else '')
        name = f'{t.name}@{pi.name}'
        if pi.computed is not None:
            e = pi.computed
            s, w, opt = self.trace(e, mod, t)
            # When another declaration's path goes through this computable the tracer looks
            # into its expression with the OTHER declaration's module as current module
            # (`_fork_context` keeps ctx.module), so unqualified names in it would be resolved
            # in the wrong module.  With more than one module, write them fully qualified.
            tm = mod if len(self.u.mods) == 1 else '\x00'
            return Node('computed', mod, name, pi.name, pi.name, f'{kw} {pi.name} := ({e.text(tm)})',
                        flags={'isPtr': True, 'isComp': True}, erefs=s, wrefs=w, erefs_opt=opt,
                        req=[t.key] + self.req_of(s))
        ext = f' extending {qual(mod, pi.ext)}' if pi.ext else ''
        tkey = None if isinstance(pi.target, str) else pi.target.key
        n = Node(pi.kind, mod, name, pi.name, pi.name,
                 f'{q}{kw} {pi.name}{ext} -> {self.ty_text(pi.target, mod)}',
                 flags={'isPtr': True}, bases=[pi.ext] if pi.ext else [],
                 direct=[tkey] if tkey else [],
                 req=[t.key] + ([tkey] if tkey else []) + ([pi.ext] if pi.ext else []))
        for lp in pi.lprops:
            n.members.append(Node('prop', mod, f'{name}@{lp}', lp, lp, f'property {lp} -> str',
                                  flags={'isPtr': True}, req=[n.key]))
        for spec in pi.extras:
            if spec[0] == 'default' and spec[1] is None:
                continue
            n.members.append(self.member(spec, n, mod, None))
        return n

    def type_node(self, t: TypeInfo) -> Node:
        ext = (' extending ' + ', '.join(qual(t.mod, b.key) for b in t.bases)) if t.bases else ''
        n = Node('type', t.mod, t.name, t.name, t.name,
                 f'{"abstract " if t.abstract else ""}type {t.name}{ext}',
                 bases=[b.key for b in t.bases], req=[b.key for b in t.bases])
        n.top_head = f'{"abstract " if t.abstract else ""}type {t.mod}::{t.name}{ext}'
        for pn, pi in t.own.items():
            n.members.append(self.ptr_node(t, pi, n))
        for spec in t.extras:
            n.members.append(self.member(spec, n, t.mod, t))
        return n

    def scalar_node(self, sc: ScalarInfo) -> Node:
        user = isinstance(sc.base, ScalarInfo)
        n = Node('scalar', sc.mod, sc.name, sc.name, sc.name,
                 f'scalar type {sc.name} extending {self.ty_text(sc.base, sc.mod)}',
                 bases=[sc.base.key] if user else [], req=[sc.base.key] if user else [])
        n.top_head = f'scalar type {sc.mod}::{sc.name} extending {self.ty_text(sc.base, sc.mod)}'
        for spec in sc.extras:
            n.members.append(self.member(spec, n, sc.mod, None, ctrl=spec[0].startswith('con_')))
        return n

    def fn_node(self, f: FnInfo) -> Node:
        key = self.fn_key(f)
        loc = key[1]
        s, w, opt = self.trace(f.body, f.mod, None, params={n: t for n, t in f.params})
        direct = [t.key for _, t in f.params if not isinstance(t, str)]
        sig = f'({self.fn_params_text(f, f.mod)}) -> {self.ty_text(f.ret, f.mod)} using ({f.body.text(f.mod)})'
        n = Node('function', f.mod, loc, loc, f.name, f'function {f.name}{sig}',
                 direct=direct, erefs=s, wrefs=w, erefs_opt=opt, req=direct + self.req_of(s))
        n.top_head = f'function {f.mod}::{f.name}{sig}'
        return n

    def simple(self, kind, key, head_kw, body=None) -> Node:
        n = Node(kind, key[0], key[1], key[1], key[1], f'{head_kw} {key[1]}')
        n.top_head = f'{head_kw} {key[0]}::{key[1]}'
        if body:
            n.members.append(body)
        return n

    def nodes(self):
        u = self.u
        out = []
        for k in u.annos:
            out.append(self.simple('anno', k, 'abstract annotation'))
        for k in u.cons:
            out.append(self.simple('abscon', k, 'abstract constraint', 'using (len(<str>__subject__) < 1000)'))
        for sc in u.scalars:
            out.append(self.scalar_node(sc))
        for k, lps in u.abslinks:
            n = self.simple('abslink', k, 'abstract link')
            for lp in lps:
                n.members.append(Node('prop', k[0], f'{k[1]}@{lp}', lp, lp, f'property {lp} -> str',
                                      flags={'isPtr': True}, req=[k]))
            out.append(n)
        for t in u.types:
            out.append(self.type_node(t))
        for f in u.fns:
            out.append(self.fn_node(f))
        for k, ty in u.globs:
            if isinstance(ty, E):
                s, w, opt = self.trace(ty, k[0], None)
                n = Node('global', k[0], k[1], k[1], k[1], f'global {k[1]} := ({ty.text(k[0])})',
                         flags={'isView': True, 'isComp': True}, erefs=s, wrefs=w, erefs_opt=opt,
                         req=self.req_of(s))
                n.top_head = f'global {k[0]}::{k[1]} := ({ty.text(k[0])})'
            else:
                d = [] if isinstance(ty, str) else [ty.key]
                n = Node('global', k[0], k[1], k[1], k[1], f'global {k[1]} -> {self.ty_text(ty, k[0])}',
                         direct=d, req=list(d))
                n.top_head = f'global {k[0]}::{k[1]} -> {self.ty_text(ty, k[0])}'
            out.append(n)
        for k, e in u.aliases:
            s, w, opt = self.trace(e, k[0], None)
            n = Node('alias', k[0], k[1], k[1], k[1], f'alias {k[1]} := ({e.text(k[0])})',
                     flags={'isView': True}, erefs=s, wrefs=w, erefs_opt=opt, req=self.req_of(s))
            n.top_head = f'alias {k[0]}::{k[1]} := ({e.text(k[0])})'
            out.append(n)
        return out


def layout(nodes, mods, rng, size) -> Doc:
    """distribute top-level nodes over module blocks: a module may be split in two blocks,
    `m1::sub` is written either as a nested block or as its own top-level block, some
    declarations are written at document level with a qualified name"""
    rng.shuffle(nodes)
    by = {}
    for n in nodes:
        by.setdefault(n.mod, []).append(n)
    top = []
    blocks = {}
    for m in mods:
        ns = by.get(m, [])
        loose = []
        if size != 'tiny':
            for n in list(ns):
                if n.top_head and rng.random() < 0.12:
                    n.qualified_top = True
                    loose.append(n)
                    ns.remove(n)
        parts = [ns]
        if len(ns) >= 3 and rng.random() < 0.45:
            c = rng.randint(1, len(ns) - 1)
            parts = [ns[:c], ns[c:]]
        bl = []
        for p in parts:
            bl.append(Block(m, m, list(p)))
        blocks[m] = bl
        top.extend(loose)
    for m in mods:
        if '::' in m and rng.random() < 0.6:
            parent = m.rsplit('::', 1)[0]
            if parent in blocks:
                for b in blocks[m]:
                    b.short = m.rsplit('::', 1)[1]
                    rng.choice(blocks[parent]).entries.append(b)
                blocks[m] = []
    for m in mods:
        top.extend(blocks[m])
    rng.shuffle(top)
    for e in top:
        if isinstance(e, Block):
            rng.shuffle(e.entries)
    return Doc(top)
