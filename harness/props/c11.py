"""C11 — SDL is declarative: declaration order does not matter.

Proof: lean/EdbVerif/Props/C11.lean over Model/Sdl.lean (+ Model/Topo.lean, C20).
Tie (level 2): generated SDL documents are permuted at three levels (top-level
entries, module blocks, type/pointer bodies) and every permutation is loaded by
the REAL `parse_sdl` + `edb.schema.ddl.apply_sdl` (-> `sdl_to_ddl`); inside the
worker `topological.sort` as seen by `declarative.py` is wrapped to record the
`DepGraphEntry` map and the order it returns.  That graph is compared with the
model's `graph` (driver), the verdict (ok / cycle / other error) with the
model's `build`, and the built schemas with each other (own structural dump,
`delta_schemas` both ways on a sample).
"""
from __future__ import annotations

import hashlib
import itertools
import json
import multiprocessing as mp
import os
import random
import time
import traceback

from lib import core
from props import c11gen as G

PROPS = 'EdbVerif/Props/C11.lean'
REQUIRED = [
    'EdbVerif.C11.commute', 'EdbVerif.C11.linear_extensions_equal', 'EdbVerif.C11.deps_perm',
    'EdbVerif.C11.C11_perm_general', 'EdbVerif.C11.C11_perm', 'EdbVerif.C11.C11_perm_nested',
    'EdbVerif.C11.C11_ok', 'EdbVerif.C11.C11_cycle', 'EdbVerif.C11.C11_incomplete_counterexample',
]

def sha(s: str) -> str:
    return hashlib.sha1(s.encode()).hexdigest()[:12]


# --------------------------------------------------------------- real side
_W: dict = {}


def _setup_real():
    """bridge + std schema + recording proxy for `declarative.topological` (idempotent)"""
    if _W.get('ready'):
        return
    from bridge import env
    env.setup()
    std = env.std_schema()
    from edb.edgeql import parser as qlparser, codegen as qlcodegen
    from edb.edgeql import declarative as decl
    from edb.schema import ddl as s_ddl
    from edb.common import topological

    class TopoProxy:
        """stands in for the `topological` module inside declarative.py only"""

        def __getattr__(self, name):
            return getattr(topological, name)

        @staticmethod
        def sort(graph, *, allow_unresolved=False):
            rec = {'keys': [], 'order': None, 'exc': None}
            for k, v in graph.items():
                if not hasattr(k, 'module'):
                    rec = None
                    break
                rec['keys'].append((
                    (k.module, k.name),
                    [(d.module, d.name) for d in v.deps],
                    [(d.module, d.name) for d in v.weak_deps],
                    None if v.merge is None else [(d.module, d.name) for d in v.merge],
                    [(d.module, d.name) for d in v.loop_control],
                ))
            if rec is not None:
                _W['cap'].append(rec)
            try:
                items = list(topological.sort_ex(graph, allow_unresolved=allow_unresolved))
            except topological.CycleError as e:
                if rec is not None:
                    rec['exc'] = ('cycle', (e.item.module, e.item.name),
                                  [(p.module, p.name) for p in e.path])
                raise
            except topological.UnresolvedReferenceError as e:
                if rec is not None:
                    rec['exc'] = ('unres', str(e))
                raise
            if rec is not None:
                rec['order'] = [(k.module, k.name) for k, _ in items]
            return tuple(i[1].item for i in items)

    decl.topological = TopoProxy()

    from edb.edgeql import tracer as qltracer

    class TracerProxy:
        """stands in for the `tracer` module inside declarative.py only: `trace_refs` must be a
        FUNCTION of its arguments — it may not add / drop entries of the loader's object index
        (which would change what later declarations resolve to), and when such residue exists
        the refs it computes must not depend on it"""

        def __getattr__(self, name):
            return getattr(qltracer, name)

        @staticmethod
        def trace_refs(qltree, *, objects, **kw):
            stale = [k for k in objects if getattr(k, 'module', None) == '__alias__']
            before = set(objects)
            res = qltracer.trace_refs(qltree, objects=objects, **kw)
            after = set(objects)
            rec = None
            if before != after:
                rec = {'kind': 'index-changed', 'added': sorted(map(str, after - before)),
                       'removed': sorted(map(str, before - after))}
            if stale:
                # residue of an earlier call is present: compare with a trace that does not see it
                clean = {k: v for k, v in objects.items() if getattr(k, 'module', None) != '__alias__'}
                try:
                    cres = qltracer.trace_refs(qltree, objects=clean, **kw)
                except Exception as e:
                    cres = (frozenset(), frozenset())
                    rec = {'kind': 'clean-trace-raised', 'err': f'{type(e).__name__}: {e}'[:200]}
                if not (cres[0] <= res[0] and cres[1] <= (res[1] | res[0])):
                    rec = {'kind': 'refs-depend-on-residue', 'stale': sorted(map(str, stale)),
                           'refs_in_context': sorted(map(str, res[0])), 'refs_alone': sorted(map(str, cres[0]))}
            if rec is not None:
                try:
                    rec['expr'] = qlcodegen.generate_source(qltree)[:200]
                except Exception:
                    rec['expr'] = repr(qltree)[:200]
                _W['tracer'].append(rec)
            return res

    decl.qltracer = TracerProxy()
    _W.update(ready=True, std=std, qlparser=qlparser, qlcodegen=qlcodegen, s_ddl=s_ddl, cap=[],
              base=(None, None), tracer=[])
    # warm the parser tables
    qlparser.parse_sdl('module default { type WarmUp; }')


def cg(text: str) -> str:
    """`qlcodegen.generate_source` of a parsed expression: only used to NAME nodes
    (`get_fq_name` puts the generated source of constraint / index expressions into the key)"""
    _setup_real()
    return _W['qlcodegen'].generate_source(_W['qlparser'].parse_fragment(text))


def cg_params(params_text: str) -> str:
    _setup_real()
    tree = _W['qlparser'].parse_sdl(f"module default {{ function f({params_text}) -> str using ('x'); }}")
    fn = tree.declarations[0].declarations[0]
    return _W['qlcodegen'].generate_source(fn.params)


def load_real(sdl: str):
    _setup_real()
    tree = _W['qlparser'].parse_sdl(sdl)
    std = _W['std']
    sch, _ = _W['s_ddl'].apply_sdl(tree, base_schema=std, current_schema=std)
    return sch


def _val(schema, v, ordered_hint=False):
    from edb.schema import objects as so, expr as s_expr, name as sn
    if v is None:
        return None
    if isinstance(v, so.Object):
        return f'<{type(v).__name__} {v.get_name(schema)}>'
    if isinstance(v, s_expr.Expression):
        return f'expr:{v.text}'
    if isinstance(v, s_expr.ExpressionList):
        return [_val(schema, x) for x in v]
    if isinstance(v, s_expr.ExpressionDict):
        return {k: _val(schema, x) for k, x in sorted(v.items())}
    if isinstance(v, so.ObjectDict):
        return {str(k): _val(schema, x) for k, x in sorted(v.items(schema), key=lambda kv: str(kv[0]))}
    if isinstance(v, so.ObjectList):
        return [_val(schema, x) for x in v.objects(schema)]
    if isinstance(v, so.ObjectCollection):
        # ObjectSet / ObjectIndex*: the engine compares them as unordered (by key)
        return sorted(str(_val(schema, x)) for x in v.objects(schema))
    import collections.abc as cabc
    import enum
    if isinstance(v, enum.Enum):
        return str(v)
    if isinstance(v, cabc.Set):
        return sorted(str(_val(schema, x)) for x in v)
    if isinstance(v, cabc.Mapping):
        return {str(k): _val(schema, x) for k, x in sorted(v.items(), key=lambda kv: str(kv[0]))}
    if isinstance(v, (list, tuple)) and not isinstance(v, sn.QualName):
        return [_val(schema, x) for x in v]
    if isinstance(v, cabc.Sequence) and not isinstance(v, (str, bytes, sn.QualName)):
        return [_val(schema, x) for x in v]
    return str(v)


SKIP_FIELDS = {'id', 'backend_id', 'backend_name', 'sourcectx', 'span', 'builtin', 'internal'}


def dump_schema(schema, explicit=False) -> str:
    """own structural dump of everything the document created: class, name, every schema
    field (references by name, ids ignored; unordered containers sorted).
    explicit=False: effective field values (`get_field_value`, defaults filled in) — what the
    engine's own comparison looks at; explicit=True: only explicitly stored values."""
    std = _W['std']
    rows = []
    for o in schema.get_objects(exclude_stdlib=True):
        if std.has_object(o.id):
            continue
        cls = type(o)
        fields = {}
        for fn in cls.get_schema_fields():
            if fn in SKIP_FIELDS:
                continue
            if explicit:
                v = o.get_explicit_field_value(schema, fn, None)
            else:
                try:
                    v = o.get_field_value(schema, fn)
                except Exception:
                    v = None
            if v is None:
                continue
            fields[fn] = _val(schema, v)
        rows.append((cls.__name__, str(o.get_name(schema)), fields))
    rows.sort(key=lambda r: (r[0], r[1], json.dumps(r[2], sort_keys=True, default=str)))
    return json.dumps(rows, sort_keys=True, default=str, indent=0)


def work(task):
    """(tag, sdl, base_sdl|None) -> result dict; runs in a spawned worker"""
    tag, sdl, base_sdl = task
    _setup_real()
    _W['cap'] = []
    _W['tracer'] = []
    t0 = time.time()
    res = {'tag': tag, 'status': None, 'err': None, 'dump': None, 'xdump': None, 'graph': None, 'delta': None}
    try:
        sch = load_real(sdl)
        res['status'] = 'ok'
    except Exception as e:     # the real code under test rejected the document
        sch = None
        res['status'] = 'err'
        res['err'] = (type(e).__name__, str(e)[:300])
    res['tracer'] = list(_W['tracer'])[:6]
    caps = _W['cap']
    if caps:
        res['graph'] = caps[-1]
        res['ncap'] = len(caps)
    if sch is not None:
        try:
            res['dump'] = dump_schema(sch)
            res['xdump'] = sha(dump_schema(sch, explicit=True))
        except Exception as e:     # the built schema cannot even be read back
            res['status'] = 'err'
            res['err'] = ('Dump:' + type(e).__name__, (str(e) + ' | ' + traceback.format_exc()[-600:])[:900])
            res['dump'] = None
            sch = None
        if sch is not None and base_sdl is not None:
            try:
                if _W['base'][0] != base_sdl:
                    _W['base'] = (base_sdl, load_real(base_sdl))
                base = _W['base'][1]
                s_ddl = _W['s_ddl']
                d1 = s_ddl.delta_schemas(base, sch)
                d2 = s_ddl.delta_schemas(sch, base)
                n1 = len(list(d1.get_subcommands()))
                n2 = len(list(d2.get_subcommands()))
                res['delta'] = (n1, n2, '' if not (n1 or n2) else
                                (s_ddl.ddl_text_from_delta(base, d1)[:400] if n1 else
                                 s_ddl.ddl_text_from_delta(sch, d2)[:400]))
            except Exception as e:
                res['delta'] = ('exc', type(e).__name__, str(e)[:200])
    res['t'] = time.time() - t0
    return res


# ------------------------------------------------------------------ probes
# Deterministic small documents (<= 5 declarations, ALL permutations) around the places
# where `trace_dependencies` could miss an edge.  key = 'probe:<label>'.
PROBES = {
    # -- reproduced order dependence of the unchanged tree (missed edges) --------------
    'abs-constraint-extending': ["abstract constraint c2 extending c1;",
                                 "abstract constraint c1 { using (len(__subject__) > 1); };"],
    'abs-constraint-using-function': ["abstract constraint c { using (myfn(__subject__) > 1); };",
                                      "function myfn(a: str) -> int64 using (len(a));"],
    'abs-constraint-using-scalar': ["abstract constraint c { using (<MyS>__subject__ != <MyS>'a'); };",
                                    "scalar type MyS extending str;"],
    'abs-constraint-param-scalar': ["abstract constraint c(x: MyS) { using (__subject__ != x); };",
                                    "scalar type MyS extending str;"],
    'global-default-function': ["global gl -> str { default := g(); };", "function g() -> str using ('x');"],
    'global-default-type': ["global gl -> str { default := <str>count(U); };", "type U;"],
    'abslink-lprop-from-subtype': ["type C extending B { property c := .l@alp; };",
                                   "type B { link l extending al -> U; };", "type U;",
                                   "abstract link al { property alp -> str; };"],
    'cast-array-scalar': ["type T { property a := <array<MyS>>['x']; };", "scalar type MyS extending str;"],
    'cast-tuple-scalar': ["type T { property a := <tuple<MyS, str>>('x', 'y'); };", "scalar type MyS extending str;"],
    'cast-array-default': ["type T { property a -> array<str> { default := <array<str>><array<MyS>>['x']; }; };",
                           "scalar type MyS extending str;"],
    'fn-body-array-cast': ["function f() -> array<str> using (<array<str>><array<MyS>>['x']);",
                           "scalar type MyS extending str;"],
    'is-union-type': ["type T { property b := count((select V filter V is (W | X))); };", "type V;",
                      "type W extending V;", "type X extending V;"],
    'is-array-type': ["type T { property b := (<array<str>>['x']) is (array<MyS>); };", "scalar type MyS extending str;"],
    'introspect-typeof-other': ["type T { property c := (introspect (typeof U.p)).name; };",
                                "type U { property p -> str; };"],
    'cast-typeof-other': ["type T { property c := <typeof U.p>'x'; };", "type U { property p -> MyS; };",
                          "scalar type MyS extending str;"],
    'is-typeof-other': ["type T { property a -> str; property c := .a is typeof U.p; };",
                        "type U { property p -> str; };"],
    'overloaded-lprop': ["type C extending P0 { overloaded link l -> T { overloaded property p -> str "
                         "{ annotation title := 'x'; }; }; };", "type P0 { link l -> T { property p -> str; }; };", "type T;"],
    'inherited-clink-twice': ["type C extending P0 { property z := (.comp.a, .comp.b); };",
                              "type P0 { link friend -> T; link comp := .friend; };",
                              "type T { property a -> str; property b -> str; };"],
    'own-noninferable-twice': ["type P0 { link friend -> T; link comp := assert_exists(.friend); "
                               "property z := (.comp.a, .comp.b); };", "type T { property a -> str; property b -> str; };"],
    'overloaded-link-extending-abslink': ["type C extending P0 { overloaded link l extending friendship -> T; "
                                          "property s := .l@strength; };", "type P0 { link l -> T; };", "type T;",
                                          "abstract link friendship { property strength -> float64; };"],
    'typed-using-computed': ["type C { link t -> T; property z -> str { using (.t.a); }; };",
                             "type T { property a -> str; };"],
    'nested-shape-alias': ["alias AC := C { t: { title } };", "type C { link t -> T; };",
                           "type T { property title -> str; };"],
    'alias-path-in-function': ["function f() -> int64 using (count(AP.friend.a));", "alias AP := (select P0);",
                               "type P0 { link friend -> T; };", "type T { property a -> str; };"],
    # -- order independent on the unchanged tree ---------------------------------------
    'abslink-lprop-direct': ["type B { link l extending al -> U; property c := .l@alp; };", "type U;",
                             "abstract link al { property alp -> str; };"],
    'enum-default': ["scalar type En extending enum<A, B>;", "type T { property e -> En { default := En.A; } };"],
    'alias-of-alias': ["alias A1 := (select A2);", "alias A2 := (select T);", "type T { property p -> str; };"],
    'alias-in-function': ["function f() -> int64 using (count(A1));", "alias A1 := (select T);",
                          "type T { property p -> str; };"],
    'alias-in-default': ["type U { property n -> int64 { default := count(A1); } };", "alias A1 := (select T);",
                         "type T;"],
    'fn-overloads': ["type U { property s := f(.p) ++ f(.n); property p -> str; property n -> int64; };",
                     "function f(a: str) -> str using (a);", "function f(a: int64) -> str using (<str>a);"],
    'global-in-policy': ["type U { property p -> str; access policy ap allow all using (.p ?= global g); };",
                         "global g -> str;"],
    'cglobal-chain': ["global g1 := (global g2) ++ 'x';", "global g2 := <str>count(T);", "type T;"],
    'abslink-index': ["abstract link al { property lp -> S; index on (@lp); constraint exclusive on (@lp); };",
                      "scalar type S extending str;", "type T { link l extending al -> T; };"],
    'rewrite-fn': ["type T { property p -> str { rewrite insert, update using (f(.q)); }; property q -> str; };",
                   "function f(a: str) -> str using (a ++ 'x');"],
    'trigger-type': ["type T { property p -> str; trigger tr after insert for each do "
                     "(insert Log { msg := f(__new__.p) }); };",
                     "function f(a: str) -> str using (a);", "type Log { property msg -> str; };"],
    'constraint-except': ["type T { property p -> str; property q -> S; constraint exclusive on (.p) except "
                          "(.q = <S>'x'); index on (.p) except (.q = <S>'y'); };", "scalar type S extending str;"],
    'diamond-lprop': ["type C extending B1, B2 { property z := .l@lp; };", "type B1 extending A;",
                      "type B2 extending A;",
                      "abstract type A { link l -> U { property lp -> str; constraint exclusive; }; };", "type U;"],
    'inherited-clink-nav': ["type C extending B { property z := .cl.p; };", "type B { link l -> U; link cl := .l; };",
                            "type U { property p -> str; };"],
    'union-target': ["type T { link l -> A | B; property z := .l[is A].p; };", "type A { property p -> str; };",
                     "type B;"],
    'array-scalar': ["type T { property a -> array<S>; property t -> tuple<x: S, y: str>; };",
                     "scalar type S extending str;"],
    'fn-returns-type': ["function f(a: str) -> set of T using (select T filter .p = a);",
                        "type T { property p -> str; };", "type U { multi link ts := f('x'); };"],
    'fn-param-type': ["function f(a: T) -> optional str using (a.p);", "type T { property p -> str; };",
                      "type U { link t -> T; property s := f(.t); };"],
    'fn-optional-variadic': ["function f(a: optional S, variadic b: S) -> S using (a ?? <S>'x');",
                             "scalar type S extending str;"],
    'fn-named-only': ["function f(named only a: S) -> S using (a);", "scalar type S extending str;",
                      "type T { property p := f(a := <S>'x'); };"],
    'anno-on-abslink': ["abstract link al { annotation an := 'x'; };", "abstract annotation an;"],
    'anno-on-function': ["function f() -> str { annotation an := 'x'; using ('a'); };", "abstract annotation an;"],
    'anno-on-global': ["global g -> str { annotation an := 'x'; };", "abstract annotation an;"],
    'anno-on-alias': ["alias A { annotation an := 'x'; using (T); };", "abstract annotation an;", "type T;"],
    'anno-on-abscon': ["abstract constraint c { annotation an := 'x'; using (true); };", "abstract annotation an;"],
    'anno-on-index': ["type T { property p -> str; index on (.p) { annotation an := 'x'; }; };",
                      "abstract annotation an;"],
    'anno-on-constraint': ["type T { property p -> str { constraint exclusive { annotation an := 'x'; }; }; };",
                           "abstract annotation an;"],
    'anno-on-policy': ["type T { access policy ap allow all { annotation an := 'x'; }; };", "abstract annotation an;"],
    'link-default': ["type T { link u -> U { default := (select U filter .p = f('a') limit 1); }; };",
                     "type U { property p -> str; };", "function f(a: str) -> str using (a);"],
    'introspect-is': ["type T { property n := (introspect U).name; property b := exists (select V filter V is W); };",
                      "type U;", "type V;", "type W extending V;"],
    'path-intersection': ["type T { link l -> A; property z := .l[is B].q; };", "type A;",
                          "type B extending A { property q -> str; };"],
    'with-alias': ["type T { property z := (with x := U select count(x.p)); };", "type U { property p -> str; };"],
    'for-loop': ["type T { property z := count((for x in U union x.p)); };", "type U { property p -> str; };"],
    'dml-function': ["function mk(a: str) -> T using (insert T { p := a });", "type T { property p -> str; };"],
    'nested-module-unqual': ["module sub { type X extending Y; type Y; function f() -> int64 using (count(X)); };",
                             "type Z { link x -> default::sub::X; property n := default::sub::f(); };"],
    'con-on-lprop': ["type T { link l -> U { property lp -> str { constraint c1; }; }; };",
                     "abstract constraint c1 { using (len(__subject__) > 1); };", "type U;"],
    'scalar-chain': ["scalar type S3 extending S2;", "scalar type S2 extending S1 { constraint max_len_value(10); };",
                     "scalar type S1 extending str { constraint min_len_value(1); };", "type T { property p -> S3; };"],
    'abs-prop-chain': ["type T { property p extending ap2 -> str; };", "abstract property ap2 extending ap1;",
                       "abstract property ap1 { annotation title := 'x'; };"],
    'abs-link-chain-lprop': ["type T { link l extending al2 -> T; property z := .l@lp; };",
                             "abstract link al2 extending al1;", "abstract link al1 { property lp -> str; };"],
    'policy-other-type': ["type T { link u -> U; access policy ap allow select using (.u.ok ?? false); };",
                          "type U { property ok -> bool; };"],
    'index-fn': ["type T { property p -> str; index on (f(.p)); };",
                 "function f(a: str) -> str { volatility := 'Immutable'; using (a ++ 'x'); };"],
    'constraint-fn': ["type T { property p -> str { constraint expression on (f(__subject__) != 'x'); }; };",
                      "function f(a: str) -> str { volatility := 'Immutable'; using (a ++ 'x'); };"],
    'scalar-constraint-fn': ["scalar type S extending str { constraint expression on (f(__subject__) != 'x'); };",
                             "function f(a: str) -> str { volatility := 'Immutable'; using (a ++ 'x'); };"],
    'global-typed-scalar': ["global g -> S;", "scalar type S extending str;",
                            "type T { property p := global g ?? <S>'d'; };"],
    'computed-long-form': ["type T { property c { using (.p ++ f('x')); annotation an := 'y'; }; property p -> str; };",
                           "abstract annotation an;", "function f(a: str) -> str using (a);"],
    'backlink-chain': ["type A { multi link bs := .<a[is B]; property n := count(.bs.cs); };",
                       "type B { link a -> A; multi link cs := .<b[is C]; };", "type C { link b -> B; };"],
    # the tracer caches the target of a computed link on first use: the GRAPH differs between
    # the two orders (only the first user gets the inner edge), the schema must not
    'cached-computed-link-target': ["type T { link l -> U; link cl := .l; property c1 := count(.cl); "
                                    "property c2 := count(.cl); };", "type U;",
                                    "type V extending T { property c3 := count(.cl); };"],
    'weak-refs': ["type A { property y -> str; link b -> B; };",
                  "type B { link a -> A; property z := assert_exists(.a).y ++ 'b'; };",
                  "type C { property y -> int64; };"],
    'is-scalar-type': ["type T { property p -> str; property b := .p is MyS; };", "scalar type MyS extending str;"],
    'array-agg-cast': ["type T { multi property p -> str; property a := array_agg(<MyS>.p); };",
                       "scalar type MyS extending str;"],
    'insert-unless-conflict': ["function mk(a: str) -> optional T using (insert T { p := a } unless conflict on .p "
                               "else (select T));", "type T { property p -> str { constraint exclusive; }; };"],
    'if-else-types': ["type T { property z := 'a' if exists U else <str>count(V); };", "type U;", "type V;"],
    'group-by': ["type T { property z := count((group U by .p)); };", "type U { property p -> str; };"],
    'constraint-user-with-args': ["type T { property p -> str { constraint mymax(5); }; };",
                                  "abstract constraint mymax(m: int64) { using (len(__subject__) <= m); };"],
    'link-prop-default-fn': ["type T { link u -> U { property w -> str { default := f('x'); }; }; };", "type U;",
                             "function f(a: str) -> str using (a);"],
    'backlink-exclusive-cardinality': ["type B { link a := .<b[is A]; };",
                                       "type A { link b -> B { constraint exclusive; }; };"],
    'backlink-exclusive-diamond': ["type B { link a := .<b[is A]; };",
                                   "abstract type P0 { link b -> B { constraint exclusive; }; };",
                                   "type A1 extending P0;", "type A2 extending P0;", "type A extending A1, A2;"],
    'enum-in-function': ["function f() -> Color using (Color.Red);", "scalar type Color extending enum<Red, Green>;"],
    'computed-overload-base': ["type C extending B { overloaded link l -> V; property z := .l.q; };",
                               "type B { link l -> U; };", "type U;", "type V extending U { property q -> str; };"],
    'typeof': ["type T { property a -> str; property b := <typeof .a>'x'; link u -> U; "
               "property c := (introspect (typeof .u)).name; };", "type U;"],
    'trigger-update-when': ["type T { property p -> str; trigger tr after update for each when (__old__.p != __new__.p) "
                            "do (update Log filter .msg = __old__.p set { msg := __new__.p }); };",
                            "type Log { property msg -> str; };"],
    'deep-inherit-overload': ["type D extending C { overloaded property p -> str { default := f('d'); }; };",
                              "type C extending B;",
                              "type B extending A { overloaded property p -> str { constraint max_len_value(9); }; };",
                              "abstract type A { property p -> str; };", "function f(a: str) -> str using (a);"],
    'intersection-union': ["type T { link l -> V; property c := count(.l[is W | X]); };", "type V;",
                           "type W extending V;", "type X extending V;"],
    'free-object': ["type T { property c := (select { a := count(U), b := <MyS>'x' }).b; };", "type U;",
                    "scalar type MyS extending str;"],
    'inherited-clink-two-exprs': ["type C extending P0 { property za := .comp.a; property zb := .comp.b; };",
                                  "type P0 { link friend -> T; link comp := .friend; };",
                                  "type T { property a -> str; property b -> str; };"],
    'alias-shape-nested-path': ["alias AC := C { z := .t.title };", "type C { link t -> T; };",
                                "type T { property title -> str; };"],
    # rejected documents: the rejection must not depend on the order either
    'duplicate-type': ["type A;", "type A { property p -> str; };", "type B extending A;"],
    'duplicate-pointer': ["type A { property p -> str; property p -> int64; };", "type B extending A;"],
    'unknown-base': ["type A extending Nope;", "type B extending A;", "type C;"],
    'unknown-target': ["type A { link l -> Nope; };", "type B extending A;"],
    'unknown-function': ["type A { property p := nope('x'); };", "function f() -> str using ('x');"],
    'unknown-in-expr': ["type A { property p := count(Nope); };", "type B;"],
}

# cyclic / near-cyclic documents: label -> (declarations, expected verdict)
CYCLES = {
    'inh-self': (["type A extending A;"], 'cycle'),
    'inh-2': (["type A extending B;", "type B extending A;"], 'cycle'),
    'inh-3': (["type A extending B;", "type B extending C { property p -> str; };", "type C extending A;", "type D;"],
              'cycle'),
    'inh-scalar': (["scalar type S1 extending S2;", "scalar type S2 extending S1;"], 'cycle'),
    'inh-abslink': (["abstract link a1 extending a2;", "abstract link a2 extending a1;"], 'cycle'),
    'computed-mutual': (["type A { link b -> B; property x := .b.y; };", "type B { link a -> A; property y := .a.x; };"],
                        'cycle'),
    'computed-self': (["type A { property x := .x ++ 'a'; };"], 'cycle'),
    'computed-3': (["type A { link b -> B; property x := .b.y; };", "type B { link c -> C; property y := .c.z; };",
                    "type C { link a -> A; property z := .a.x; };"], 'cycle'),
    'alias-mutual': (["alias X := (select Y);", "alias Y := (select X);"], 'cycle'),
    'alias-self': (["alias X := (select X);"], 'cycle'),
    'alias-via-type': (["alias X := (select T);", "type T { property n := count(X); };"], 'cycle'),
    'function-mutual': (["function f(a: str) -> str using (g(a));", "function g(a: str) -> str using (f(a));"], 'cycle'),
    'function-self': (["function f(a: int64) -> int64 using (f(a - 1));"], 'cycle'),
    'global-mutual': (["global a := (global b) ++ 'x';", "global b := (global a) ++ 'y';"], 'cycle'),
    'default-function-type': (["type T { property p -> str { default := f(); }; };",
                               "function f() -> str using (<str>count(T));"], 'ok'),
    # near-cycles: must NOT be rejected as cyclic
    'links-mutual': (["type A { link b -> B; };", "type B { link a -> A; };"], 'ok'),
    'link-self': (["type A { link a -> A; multi link back := .<a[is A]; };"], 'ok'),
    'backlinks-mutual': (["type A { link b -> B; multi link bs := .<a[is B]; };",
                          "type B { link a -> A; multi link as_ := .<b[is A]; };"], 'ok'),
    'weak-cycle': (["type A { property y -> str; };",
                    "type B { link a -> A; property y := assert_exists(.a).y ++ 'b'; };",
                    "type C { link b -> B; property y := .b.y ++ 'c'; };"], 'ok'),
    'weak-self': (["type A { link a -> A; property y := assert_exists(.a).y ?? 'b'; };"], 'any'),
    'scalar-constraint-self': (["scalar type S extending str { constraint expression on (<S>__subject__ != <S>'x'); };"],
                               'cycle'),
    'fn-type-fn': (["function f() -> int64 using (count(T));", "type T { property n := f(); };"], 'ok'),
}


# hand-abstracted model documents for some of the families above (driver line -> verdict must
# agree with what the real code does on the SDL text of the same label)
MODEL_FAMILIES = {
    'inh-self': 'I 1 10 0 1 1 000000 - 1 - - - - 1',
    'inh-2': 'I 1 10 0 1 1 000000 - 2 - - - - 2;I 2 20 0 2 2 000000 - 1 - - - - 1',
    'alias-mutual': 'I 1 10 0 1 1 010000 - - - - o2 - 2;I 2 20 0 2 2 010000 - - - - o1 - 1',
    'alias-self': 'I 1 10 0 1 1 010000 - - - - o1 - -',
    'links-mutual': 'I 1 10 0 1 1 000000 - - - - - - -;I 2 20 0 5 5 000100 1 - 3 - - - 1,3;'
                    'I 3 30 0 3 3 000000 - - - - - - -;I 4 40 0 6 6 000100 3 - 1 - - - 3,1',
    # A{y} B{a->A; y := assert_exists(.a).y ++ 'b'} C{b->B; y := .b.y ++ 'c'}: B@y has WEAK
    # references to every pointer called y (incl. C@y, which hard-depends on B@y)
    'weak-cycle': 'I 1 10 0 1 1 000000 - - - - - - -;I 2 20 0 9 9 000100 1 - - - - - 1;'
                  'I 3 30 0 3 3 000000 - - - - - - -;I 4 40 0 10 10 000100 3 - 1 - - - 3,1;'
                  'I 5 50 0 9 9 001100 3 - - - p3.10 p1.9,p3.9,p6.9 3,4;'
                  'I 6 60 0 6 6 000000 - - - - - - -;I 7 70 0 11 11 000100 6 - 3 - - - 6,3;'
                  'I 8 80 0 9 9 001100 6 - - - p6.11,p3.9 - 6,7,5',
}


def probe_docs():
    out = {}
    for k, v in PROBES.items():
        if v is not None:
            out[k] = v
    return out


def wrap_default(decls):
    return 'module default {\n' + '\n'.join(decls) + '\n}\n'


SPLIT_MODULE = [
    "module m { type A extending B { property x := .y ++ n::f('a'); }; }",
    "module n { function f(a: str) -> str using (a ++ <str>count(m::C)); }",
    "module m { abstract type B { property y -> str { constraint n::c; }; }; type C extending A; }",
    "abstract constraint n::c { using (len(__subject__) > 1); };",
]


def is_cycle_error(err) -> bool:
    if err is None:
        return False
    cls, msg = err
    return cls == 'InvalidDefinitionError' and ('dependency cycle' in msg or 'defined recursively' in msg)


def has_cycle(nodes, edges):
    """independent cycle test (Kahn)"""
    succ = {n: set() for n in nodes}
    indeg = {n: 0 for n in nodes}
    for a, b in set(edges):
        if a == b:
            return True
        if b not in succ[a]:
            succ[a].add(b)
            indeg[b] += 1
    q = [n for n in nodes if indeg[n] == 0]
    seen = 0
    while q:
        n = q.pop()
        seen += 1
        for m in succ[n]:
            indeg[m] -= 1
            if indeg[m] == 0:
                q.append(m)
    return seen != len(nodes)


def graph_verdict_check(res):
    """oracle on the real graph: rejected as cyclic <=> hard ∪ control edges are cyclic;
    emitted order is a permutation honouring every hard edge"""
    g = res.get('graph')
    if not g:
        return None
    keys = [k for k, *_ in g['keys']]
    ks = set(keys)
    hard, ctrl = [], []
    for k, deps, weak, merge, cs in g['keys']:
        hard += [(k, d) for d in deps + (merge or []) if d in ks]
        ctrl += [(k, d) for d in cs if d in ks]
    cyc = has_cycle(keys, hard + ctrl)
    rejected = bool(g['exc'] and g['exc'][0] == 'cycle')
    if cyc and not rejected:
        return 'traced hard dependencies are cyclic but the document was not rejected as cyclic'
    if rejected and not cyc:
        return 'rejected as cyclic although the traced hard dependencies are acyclic'
    if g['order'] is not None:
        if sorted(g['order']) != sorted(keys):
            return 'emitted DDL is not a permutation of the declarations'
        pos = {k: i for i, k in enumerate(g['order'])}
        for a, b in hard:
            if not pos[b] < pos[a]:
                return f'hard dependency {a} -> {b} violated by the emitted order'
    return None


def parse_model(line: str, num):
    parts = line.split('|')
    if len(parts) != 3:
        return None
    g = []
    if parts[0]:
        for ent in parts[0].split(';'):
            k, d, w, c = ent.split(':')
            f = lambda x: [] if x == '-' else [num.rkey[int(y)] for y in x.split(',')]
            g.append((num.rkey[int(k)], f(d), f(w), f(c)))
    out = parts[1].split(' ')
    order = None
    if out[0] == 'ok':
        order = [] if out[1] == '-' else [num.rkey[int(y)] for y in out[1].split(',')]
    return {'graph': g, 'verdict': out[0], 'order': order, 'complete': parts[2] == '1'}


def compare_graph(res, mmin, mmax):
    """real captured graph vs model graph; returns list of difference strings"""
    diffs = []
    rg = res['graph']['keys']
    rk = [k for k, *_ in rg]
    mk = [k for k, *_ in mmin['graph']]
    if rk != mk:
        if sorted(rk) != sorted(mk):
            diffs.append(f'node sets differ: real-only {sorted(set(rk) - set(mk))[:5]} '
                         f'model-only {sorted(set(mk) - set(rk))[:5]}')
        else:
            diffs.append('graph key order differs')
    lo = {k: (set(d), set(w), set(c)) for k, d, w, c in mmin['graph']}
    hi = {k: (set(d), set(w), set(c)) for k, d, w, c in mmax['graph']}
    band = 0
    for k, dd, ww, mm, cc in rg:
        if k not in lo:
            continue
        if mm is not None:
            diffs.append(f'{k}: merge is not None')
        if list(dd) != sorted(dd) or list(ww) != sorted(ww):
            diffs.append(f'{k}: deps handed to sort are not sorted')
        sd, sw, sc = set(dd), set(ww), set(cc)
        if not (lo[k][0] <= sd <= hi[k][0]):
            diffs.append(f'{k}: deps real-only {sorted(sd - hi[k][0])} model-only {sorted(lo[k][0] - sd)}')
        elif sd != lo[k][0]:
            band += 1
        if not (lo[k][1] <= sw <= hi[k][1]):
            diffs.append(f'{k}: weak real-only {sorted(sw - hi[k][1])} model-only {sorted(lo[k][1] - sw)}')
        if sc != lo[k][2]:
            diffs.append(f'{k}: loop_control real {sorted(sc)} model {sorted(lo[k][2])}')
    return diffs, band


# ---------------------------------------------------------------- variants
LEVELS = ('top', 'module', 'body')


def pick_variants(doc, rng, budget):
    """[(label, level, permuted doc)], and per level whether ALL permutations of every site
    with <= 5 items were taken"""
    out = []
    exhaustive = {}
    per = max(1, budget // 4)
    for level in LEVELS:
        ss = G.sites(doc, level)
        cands = []
        small_only = True
        for si, s in enumerate(ss):
            n = len(s)
            if n < 2:
                continue
            if n <= 5:
                cands += [(si, p) for p in list(itertools.permutations(range(n)))[1:]]
            else:
                small_only = False
                for _ in range(30):
                    p = list(range(n))
                    rng.shuffle(p)
                    cands.append((si, tuple(p)))
        rng.shuffle(cands)
        take = cands[:per]
        exhaustive[level] = bool(cands) and small_only and len(take) == len(cands)
        for si, p in take:
            d = G.copy_doc(doc)
            G.apply_perm(G.sites(d, level)[si], p)
            out.append((f'{level}[{si}]:{",".join(map(str, p))}', level, d))
    j = 0
    while len(out) < budget and j < budget:
        d = G.copy_doc(doc)
        for level in LEVELS:
            for s in G.sites(d, level):
                rng.shuffle(s)
        out.append((f'all:{j}', 'all', d))
        j += 1
    return out, exhaustive


def inject_cycle(u, rng, g):
    """make a generated universe genuinely cyclic; returns the kind"""
    kinds = ['alias', 'computed', 'weak-hidden-function']
    if sum(1 for f in u.fns if f.params[0][1] == 'str') >= 2:
        kinds.append('function')
    k = rng.choice(kinds)
    if k == 'weak-hidden-function':
        if not g.weak_cycle(hidden=True):
            k = 'alias'
    if k == 'weak-hidden-function':
        pass
    elif k == 'alias':
        m = rng.choice(u.mods)
        a, b = (m, g.fresh('AX')), (rng.choice(u.mods), g.fresh('AY'))
        u.aliases.append((a, G.Sel_alias(b)))
        u.aliases.append((b, G.Sel_alias(a)))
    elif k == 'computed':
        t = rng.choice(u.types)
        ca, cb = g.fresh('cx'), g.fresh('cy')
        pa = G.PtrInfo(ca, 'prop', 'str', multi=True)
        pb = G.PtrInfo(cb, 'prop', 'str', multi=True)
        pa.computed = G.Op('++', G.Path(None, [('p', cb)]), G.Lit('x'))
        pb.computed = G.Op('++', G.Path(None, [('p', ca)]), G.Lit('y'))
        t.own[ca] = pa
        t.own[cb] = pb
    else:
        fs = [f for f in u.fns if f.params[0][1] == 'str']
        f1, f2 = rng.sample(fs, 2)
        f1.body = G.Call(f2.mod, f2.name, [G.Raw('a')])
        f2.body = G.Call(f1.mod, f1.name, [G.Raw('a')])
    return k


# ---------------------------------------------------------------- weak-edge families
# Deterministic documents in which a WEAK dependency (a path the tracer cannot type, hence a
# weak reference to every pointer of that name) closes a cycle whose hard part is >= 2 edges
# long, or sits in front of a genuine hard cycle.  `sort_ex` must (a) still emit every hard
# dependency first and (b) still report the genuine cycle, in EVERY declaration order.
def _weak_universe(form, variant):
    u = G.Universe(['default'])
    U = G.TypeInfo('default', 'WU')
    U.own['nxt'] = G.PtrInfo('nxt', 'prop', 'str')
    A = G.TypeInfo('default', 'WA')
    h = G.PtrInfo('h', 'prop', 'str', multi=True)
    h.computed = G.Unknown(G.ObjRef(U.key), 'nxt', form)
    A.own['h'] = h
    T = G.TypeInfo('default', 'WT')
    u.types += [U, A, T]
    use_h = G.Cast('str', G.Call(None, 'count', [G.Path(A, [('p', 'h')])]))

    def fn(name, body):
        f = G.FnInfo('default', name, [('a', 'str')], 'str', body, len(u.fns))
        u.fns.append(f)
        return f
    nxt = G.PtrInfo('nxt', 'prop', 'str', multi=True)
    T.own['nxt'] = nxt
    if variant == 'chain2':            # WA@h ~> WT@nxt -> wf -> WA@h
        fn('wf', G.Op('++', G.Raw('a'), use_h))
        nxt.computed = G.Call('default', 'wf', [G.Lit('x')])
    elif variant == 'chain3':          # WA@h ~> WT@nxt -> wf1 -> wf2 -> WA@h
        fn('wf2', G.Op('++', G.Raw('a'), use_h))
        fn('wf1', G.Op('++', G.Call('default', 'wf2', [G.Raw('a')]), G.Lit('1')))
        nxt.computed = G.Call('default', 'wf1', [G.Lit('x')])
    elif variant == 'global':          # WA@h ~> WT@nxt -> wg (computed global) -> wf -> WA@h
        fn('wf', G.Op('++', G.Raw('a'), use_h))
        u.globs.append((('default', 'wg'), G.Call('default', 'wf', [G.Lit('g')])))
        nxt.computed = G.Op('??', G.Cast('str', G.Glob(('default', 'wg'))), G.Lit('n'))
    elif variant == 'hidden-fn-cycle':     # WA@h ~> WT@nxt -> wf <-> wg   (genuinely cyclic)
        fn('wf', G.Op('++', G.Call('default', 'wg', [G.Raw('a')]), G.Lit('f')))
        fn('wg', G.Op('++', G.Call('default', 'wf', [G.Raw('a')]), G.Lit('g')))
        nxt.computed = G.Call('default', 'wf', [G.Lit('x')])
    elif variant == 'hidden-computed-cycle':   # WA@h ~> WT@nxt -> WT@c1 <-> WT@c2
        c1 = G.PtrInfo('c1', 'prop', 'str', multi=True)
        c2 = G.PtrInfo('c2', 'prop', 'str', multi=True)
        c1.computed = G.Op('++', G.Path(None, [('p', 'c2')]), G.Lit('1'))
        c2.computed = G.Op('++', G.Path(None, [('p', 'c1')]), G.Lit('2'))
        nxt.computed = G.Op('++', G.Path(None, [('p', 'c1')]), G.Lit('n'))
        T.own['c1'] = c1
        T.own['c2'] = c2
    else:
        raise AssertionError(variant)
    return u


WEAK_FAMILIES = [
    # (label, untyped form, variant, expected outcome in every order)
    ('chain2-union', 'union', 'chain2', 'ok'),
    ('chain2-distinct', 'distinct', 'chain2', 'ok'),
    ('chain2-assert', 'assert_exists', 'chain2', 'ok'),
    ('chain2-ifelse', 'ifelse', 'chain2', 'ok'),
    ('chain3-coalesce', 'coalesce', 'chain3', 'ok'),
    ('global-union', 'union', 'global', 'ok'),
    ('hidden-fn-cycle', 'union', 'hidden-fn-cycle', 'cycle'),
    ('hidden-computed-cycle', 'distinct', 'hidden-computed-cycle', 'cycle'),
]


def weak_family_doc(label, form, variant):
    u = _weak_universe(form, variant)
    b = G.Builder(u, random.Random(0), cg, cg_params)
    doc = G.Doc([G.Block('default', 'default', b.nodes())], label=f'weak:{label}')
    doc.meta.update(size='family', cyclic=None, family=label)
    return doc


def family_variants(doc, rng, budget):
    """ALL orders of the declarations of the (single) module block (an evenly spaced sample of
    `budget` of them when there are more), each combined with a shuffle of the bodies"""
    ents = G.sites(doc, 'module')[0]
    n = len(ents)
    perms = list(itertools.permutations(range(n)))[1:]
    full = len(perms) <= budget
    if not full:
        step = (len(perms) - 1) / (budget - 1)
        perms = [perms[round(i * step)] for i in range(budget)]
    out = []
    for p in perms:
        d = G.copy_doc(doc)
        G.apply_perm(G.sites(d, 'module')[0], p)
        for sbody in G.sites(d, 'body'):
            rng.shuffle(sbody)
        out.append((f'module[0]:{",".join(map(str, p))}', 'module', d))
    return out, {'module': full}


# ------------------------------------------------- computed-link continuation families
# A computed link whose target the tracer cannot infer (inherited by a subtype: the copy has no
# target expression; or defined by a call / ?? / if-else), and TWO OR MORE sibling expressions
# that continue the path past it (`.comp.a`, `.comp.b`).  Each of them must get its own weak
# by-name dependencies: the recursion guard of `trace_Path` is per expression.  All orders of the
# top-level entries / module blocks, each with the type bodies as written and reversed.
CLINK_KINDS = ('inherited', 'inherited-2mod', 'inherited-backlink', 'own-assert', 'own-coalesce', 'own-ifelse',
               'two-subtypes', 'alias-user', 'function-user')


def _clink_universe(kind):
    two = kind == 'inherited-2mod'
    lib, app = ('lib', 'app') if two else ('default', 'default')
    u = G.Universe(['default'] + (['app', 'lib'] if two else []))
    T = G.TypeInfo(lib, 'T')
    T.own['a'] = G.PtrInfo('a', 'prop', 'str')
    T.own['b'] = G.PtrInfo('b', 'prop', 'str')
    P = G.TypeInfo(lib, 'P')
    P.own['friend'] = G.PtrInfo('friend', 'link', T)
    friend = G.Path(None, [('p', 'friend')])
    comp = G.PtrInfo('comp', 'link', T)
    za = G.PtrInfo('za', 'prop', 'str')
    zb = G.PtrInfo('zb', 'prop', 'str')
    za.computed = G.Path(None, [('p', 'comp'), ('p', 'a')])
    zb.computed = G.Path(None, [('p', 'comp'), ('p', 'b')])
    u.types = [T, P]
    if kind == 'inherited-backlink':
        # T.comp := .<friend[is P]  (inferable on T, NOT on the subtype TS that inherits it)
        P.own['a'] = G.PtrInfo('a', 'prop', 'str')      # pointers called a / b exist on P too
        P.own['b'] = G.PtrInfo('b', 'prop', 'str')
        comp = G.PtrInfo('comp', 'link', P, multi=True)
        comp.computed = G.Path(None, [('b', 'friend', P)])
        T.own['comp'] = comp
        TS = G.TypeInfo(app, 'TS', bases=[T], rank=1)
        TS.own['za'] = za
        TS.own['zb'] = zb
        u.types.append(TS)
        return u
    if kind == 'own-assert':
        comp.computed = G.Call(None, 'assert_exists', [friend])
    elif kind == 'own-coalesce':
        P.own['friend2'] = G.PtrInfo('friend2', 'link', T)
        comp.computed = G.Op('??', friend, G.Path(None, [('p', 'friend2')]))
    elif kind == 'own-ifelse':
        comp.computed = G.Cond(friend, friend)
    else:
        comp.computed = friend
    P.own['comp'] = comp
    if kind.startswith('own-'):
        P.own['za'] = za
        P.own['zb'] = zb
        return u
    C = G.TypeInfo(app, 'C', bases=[P], rank=1)
    u.types.append(C)
    C.own['za'] = za
    if kind in ('inherited', 'inherited-2mod'):
        C.own['zb'] = zb
    elif kind == 'two-subtypes':
        C2 = G.TypeInfo(app, 'C2', bases=[P], rank=1)
        C2.own['zb'] = zb
        u.types.append(C2)
    elif kind == 'alias-user':
        u.aliases.append(((app, 'AZ'), G.Shape(C, [('z', G.Path(None, [('p', 'comp'), ('p', 'b')]))])))
    elif kind == 'function-user':
        u.fns.append(G.FnInfo(app, 'fz', [('s', 'str')], 'str',
                              G.Op('++', G.Raw('s'), G.Cast('str', G.Call(None, 'count', [G.Path(C, [('p', 'comp'), ('p', 'b')])]))), 0))
    else:
        raise AssertionError(kind)
    return u


def clink_family_doc(kind):
    u = _clink_universe(kind)
    b = G.Builder(u, random.Random(0), cg, cg_params)
    by = {}
    for n in b.nodes():
        by.setdefault(n.mod, []).append(n)
    doc = G.Doc([G.Block(m, m, by[m]) for m in sorted(by)], label=f'clink:{kind}')
    doc.meta.update(size='family', cyclic=None, family=f'clink:{kind}', xmod=True, bodies='both')
    return doc


# ------------------------------------------------------------- alias-scope families
# One declaration's body binds a name (FOR iterator / WITH alias / result alias / GROUP USING)
# and a DIFFERENT declaration uses the same name as the leading name of a path: a function
# parameter, a type, or an alias called like that.  Expression aliases must not outlive the
# expression: every order is accepted and gives the same schema and the same graph.
ALIAS_BINDERS = ('for-link', 'for-type', 'with', 'result-alias', 'group')
ALIAS_USERS = ('param', 'type-named', 'alias-named')


def _alias_universe(binder, user, var='x'):
    u = G.Universe(['default'])
    Item = G.TypeInfo('default', 'Item')
    Item.own['name'] = G.PtrInfo('name', 'prop', 'str')
    Cart = G.TypeInfo('default', 'Cart')
    Cart.own['items'] = G.PtrInfo('items', 'link', Item, multi=True)
    vname = G.Path(G.Var(var), [('p', 'name')])
    if binder == 'for-link':
        b = G.ForE(var, G.Path(None, [('p', 'items')]), vname)
    elif binder == 'for-type':
        b = G.ForE(var, G.Path(Item, []), vname)
    elif binder == 'with':
        b = G.WithE(var, G.Path(Item, []), vname)
    elif binder == 'result-alias':
        b = G.ResAlias(var, Item, G.Op('=', vname, G.Lit('a')))
    elif binder == 'group':
        b = G.GroupE(Item, var, 'name')
    else:
        raise AssertionError(binder)
    total = G.PtrInfo('total', 'prop', 'str')
    total.computed = G.Cast('str', G.Call(None, 'count', [b]))
    Cart.own['total'] = total
    tagname = var if user == 'type-named' else 'Tag'
    Tag = G.TypeInfo('default', tagname)
    Tag.own['title'] = G.PtrInfo('title', 'prop', 'str')
    u.types = [Item, Cart, Tag]
    if user == 'param':
        u.fns.append(G.FnInfo('default', 'label', [(var, Tag)], 'optional str',
                              G.Path(G.Var(var), [('p', 'title')]), 0))
    elif user == 'type-named':
        u.fns.append(G.FnInfo('default', 'cnt', [('s', 'str')], 'str',
                              G.Op('++', G.Raw('s'), G.Cast('str', G.Call(None, 'count', [G.Path(Tag, [('p', 'title')])]))), 0))
    elif user == 'alias-named':
        u.aliases.append((('default', var), G.Sel(Tag)))
        u.fns.append(G.FnInfo('default', 'cnt', [('s', 'str')], 'str',
                              G.Op('++', G.Raw('s'), G.Cast('str', G.Call(None, 'count', [G.ObjRef(('default', var))]))), 0))
    else:
        raise AssertionError(user)
    return u


def alias_family_doc(binder, user):
    u = _alias_universe(binder, user)
    b = G.Builder(u, random.Random(0), cg, cg_params)
    doc = G.Doc([G.Block('default', 'default', b.nodes())], label=f'alias:{binder}:{user}')
    doc.meta.update(size='family', cyclic=None, family=f'alias:{binder}:{user}')
    return doc


# ------------------------------------------------------- cross-module inheritance families
# Deterministic documents: every way a declaration can refer to an INHERITED pointer x where
# the declaring ancestor lives (same module | another module | two levels up across two modules
# | in a nested module a::b).  Each name-construction site of declarative.py / tracer.py
# (`QualName(module=…)`, `qualify_name`) that picks the wrong module silently drops an edge;
# the model names an ancestor's pointer by looking the declaration up (no module arithmetic),
# so a dropped edge shows as a graph difference and as an order-dependent rejection.
XMOD_PLACEMENTS = {
    # name: (module of Base, module of Mid or None, module of Sub, module of Target / function / alias)
    'same': ('default', None, 'default', 'default'),
    'other': ('m1', None, 'm2', 'default'),
    'other-t': ('m1', None, 'm2', 'mt'),        # the referring type is not in `default` either
    'other-s': ('m1', None, 'm2', 'm2'),        # ... or shares the subtype's module (unqualified names)
    'two-up': ('m1', 'm2', 'default', 'default'),
    'nested': ('a::b', None, 'a', 'default'),
}
XMOD_KINDS = ('backlink', 'backlink-overloaded', 'own-path', 'nav', 'function', 'lprop', 'index-constraint',
              'overload-default', 'alias', 'policy', 'diamond', 'mid-overload', 'abslink-lprop',
              'count-type', 'call', 'con-anno')


def _xmod_universe(kind, placement):
    mb, mm, ms, mt = XMOD_PLACEMENTS[placement]
    mods = ['default'] + sorted({m for m in (mb, mm, ms, mt) if m and m != 'default'})
    if 'a::b' in mods and 'a' not in mods:
        mods.append('a')
    u = G.Universe(mods)
    Tg = G.TypeInfo(mt, 'XTarget')
    Base = G.TypeInfo(mb, 'XBase', abstract=False)
    Base.extras = [('con_expr', G.Op('!=', G.Path(None, [('p', 'name')]), G.Lit('zz')))]
    parent = G.PtrInfo('parent', 'link', Tg, lprops=['lp'])
    name = G.PtrInfo('name', 'prop', 'str', extras=[('con_std', 'exclusive'), ('anno_std', 'title', 'n')])
    Base.own['parent'] = parent
    Base.own['name'] = name
    chain = [Base]
    if mm is not None or kind in ('mid-overload',):
        Mid = G.TypeInfo(mm or mb, 'XMid', bases=[Base], rank=1)
        chain.append(Mid)
        if kind == 'mid-overload':
            Mid.own['name'] = G.PtrInfo('name', 'prop', 'str', overloaded=True,
                                        extras=[('anno_std', 'description', 'm')])
    Sub = G.TypeInfo(ms, 'XSub', bases=[chain[-1]], rank=2)
    types = [Tg] + chain + [Sub]
    if kind == 'diamond':
        Mid2 = G.TypeInfo(ms, 'XMidB', bases=[Base], rank=1)
        if len(chain) == 1:
            MidA = G.TypeInfo(mb, 'XMidA', bases=[Base], rank=1)
            types.insert(-1, MidA)
            Sub.bases = [MidA, Mid2]
        else:
            Sub.bases = [chain[-1], Mid2]
        types.insert(-1, Mid2)
    sname = G.Path(None, [('p', 'name')])
    if kind in ('backlink', 'backlink-overloaded'):
        if kind == 'backlink-overloaded':
            Sub.own['parent'] = G.PtrInfo('parent', 'link', Tg, overloaded=True, extras=[('anno_std', 'title', 'o')])
        kids = G.PtrInfo('kids', 'link', Sub, multi=True)
        kids.computed = G.Path(None, [('b', 'parent', Sub)])
        Tg.own['kids'] = kids
    elif kind in ('own-path', 'diamond', 'mid-overload'):
        c = G.PtrInfo('c', 'prop', 'str')
        c.computed = G.Op('++', sname, G.Lit('x'))
        Sub.own['c'] = c
    elif kind == 'nav':
        Tg.own['s'] = G.PtrInfo('s', 'link', Sub)
        c = G.PtrInfo('c', 'prop', 'str')
        c.computed = G.Path(None, [('p', 's'), ('p', 'name')])
        Tg.own['c'] = c
    elif kind == 'function':
        u.fns.append(G.FnInfo(mt, 'xf', [('a', 'str')], 'str',
                              G.Op('++', G.Raw('a'), G.Cast('str', G.Call(None, 'count', [G.Path(Sub, [('p', 'name')])]))), 0))
    elif kind == 'lprop':
        c = G.PtrInfo('c', 'prop', 'str')
        c.computed = G.Path(None, [('p', 'parent'), ('lp', 'lp')])
        Sub.own['c'] = c
    elif kind == 'index-constraint':
        Sub.extras = [('index', sname), ('con_expr', G.Op('!=', sname, G.Lit('q')))]
    elif kind == 'overload-default':
        Sub.own['name'] = G.PtrInfo('name', 'prop', 'str', overloaded=True,
                                    extras=[('default', G.Op('++', G.Lit('d'), G.Lit('e')))])
    elif kind == 'alias':
        u.aliases.append(((mt, 'XAL'), G.Shape(Sub, [('z', G.Op('++', sname, G.Lit('x')))])))
    elif kind == 'policy':
        Sub.extras = [('policy', 'xpol', G.Call(None, 'any', [G.Op('=', sname, G.Lit('a'))]))]
    elif kind == 'abslink-lprop':
        al = (mb, 'xal')
        u.abslinks.append((al, ['alp']))
        Sub.own['l'] = G.PtrInfo('l', 'link', Tg, ext=al, ext_lprops=['alp'])
        c = G.PtrInfo('c', 'prop', 'str')
        c.computed = G.Path(None, [('p', 'l'), ('lp', 'alp')])
        Sub.own['c'] = c
    elif kind == 'count-type':
        # a computable mentioning the subtype depends on the constraints of all its ancestors
        c = G.PtrInfo('c', 'prop', 'str')
        c.computed = G.Cast('str', G.Call(None, 'count', [G.ObjRef(Sub.key)]))
        Tg.own['c'] = c
    elif kind == 'call':
        # function in the ancestor's module, called with an inherited property
        u.fns.append(G.FnInfo(mb, 'xg', [('a', 'str')], 'str', G.Op('++', G.Raw('a'), G.Lit('g')), 0))
        u.fns.append(G.FnInfo(mb, 'xg', [('a', 'int64')], 'str', G.Raw('<str>a'), 1))
        c = G.PtrInfo('c', 'prop', 'str')
        c.computed = G.Call(mb, 'xg', [sname])
        Sub.own['c'] = c
    elif kind == 'con-anno':
        # abstract constraint / annotation declared in the ancestor's module, used on an overload
        u.cons.append((mb, 'xco'))
        u.annos.append((mb, 'xan'))
        Sub.own['name'] = G.PtrInfo('name', 'prop', 'str', overloaded=True,
                                    extras=[('con_user', (mb, 'xco')), ('anno_user', (mb, 'xan'), 'v')])
    else:
        raise AssertionError(kind)
    u.types = types
    return u


def xmod_family_doc(kind, placement):
    u = _xmod_universe(kind, placement)
    b = G.Builder(u, random.Random(0), cg, cg_params)
    by = {}
    for n in b.nodes():
        by.setdefault(n.mod, []).append(n)
    blocks = {m: G.Block(m, m, by.get(m, [])) for m in by}
    top = []
    for m in sorted(blocks):
        if '::' in m:
            parent = m.rsplit('::', 1)[0]
            blocks[m].short = m.rsplit('::', 1)[1]
            blocks.setdefault(parent, G.Block(parent, parent, []))
    for m in sorted(blocks):
        if '::' in m:
            blocks[m.rsplit('::', 1)[0]].entries.append(blocks[m])
        else:
            top.append(blocks[m])
    doc = G.Doc(top, label=f'xmod:{placement}:{kind}')
    doc.meta.update(size='family', cyclic=None, family=f'{placement}:{kind}', xmod=True)
    return doc


def _arrangements(entries):
    """every order of `entries`, nested module blocks arranged recursively"""
    for perm in itertools.permutations(entries):
        choices = []
        for e in perm:
            if isinstance(e, G.Block):
                choices.append([G.Block(e.mod, e.short, list(a)) for a in _arrangements(e.entries)])
            else:
                choices.append([e])
        for combo in itertools.product(*choices):
            yield list(combo)


def arrangement_variants(doc, rng, cap):
    """ALL arrangements of the document (orders of the top-level blocks x orders inside every
    block, nested blocks included); when there are more than `cap`, an evenly spaced sample that
    keeps the first and the last one"""
    arrs = list(itertools.islice(_arrangements(doc.top), 20000))[1:]
    full = len(arrs) <= cap
    if not full:
        # evenly spaced, the LAST arrangement (everything reversed) always included
        step = (len(arrs) - 1) / max(1, cap - 1)
        arrs = [arrs[round(i * step)] for i in range(cap)] if cap > 1 else [arrs[-1]]
    out = []
    both = doc.meta.get('bodies') == 'both'
    if both:
        # the identity arrangement with reversed bodies is a variant of its own
        arrs = [list(doc.top)] + arrs
    for i, a in enumerate(arrs):
        d = G.copy_doc(G.Doc(a, doc.label, dict(doc.meta)))
        if both:
            if i > 0:
                out.append((f'arrangement:{i}', 'module', d))
            d2 = G.copy_doc(d)
            for sbody in G.sites(d2, 'body'):
                sbody.reverse()
            out.append((f'arrangement:{i}:bodies-reversed', 'body', d2))
            continue
        for sbody in G.sites(d, 'body'):
            rng.shuffle(sbody)
        out.append((f'arrangement:{i}', 'module', d))
    return out, {'module': full, 'top': full}


def gen_doc(rng, size, cyclic=False):
    g = G.Gen(rng, cg, cg_params, size)
    u = g.universe()
    for t in u.types:
        for pi in t.own.values():
            pi.extras = [('default', g._top_str_expr()) if (s[0] == 'default' and s[1] is None) else s
                         for s in pi.extras]
    kind = inject_cycle(u, rng, g) if cyclic else None
    b = G.Builder(u, rng, cg, cg_params)
    nodes = b.nodes()
    for n in nodes:
        rng.shuffle(n.members)
        for m in n.members:
            if isinstance(m, G.Node):
                rng.shuffle(m.members)
    doc = G.layout(nodes, u.mods, rng, size)
    doc.meta.update(size=size, cyclic=kind)
    return doc


def first_diff(a: str, b: str) -> str:
    da = {(x[0], x[1]): x[2] for x in json.loads(a)}
    db = {(x[0], x[1]): x[2] for x in json.loads(b)}
    out = []
    for k in sorted(set(da) | set(db)):
        if k not in da or k not in db:
            out.append(f'{k} only in {"second" if k not in da else "first"}')
        elif da[k] != db[k]:
            for fn in sorted(set(da[k]) | set(db[k])):
                if da[k].get(fn) != db[k].get(fn):
                    out.append(f'{k}.{fn}: {str(da[k].get(fn))[:120]} vs {str(db[k].get(fn))[:120]}')
        if len(out) >= 4:
            break
    return '; '.join(out)


def outcome_of(res):
    if res['status'] == 'ok':
        return 'ok'
    return 'cycle' if is_cycle_error(res['err']) else 'err:' + res['err'][0]


def outcome_sig(res):
    """what must be equal across permutations: the schema when accepted, else the KIND of
    rejection (cyclic / other).  Which non-cycle error is raised first is allowed to depend on
    the order (the model drops error payloads for the same reason)."""
    o = outcome_of(res)
    if o == 'ok':
        return ('ok', sha(res['dump']) if res['dump'] else '')
    return ('cycle', '') if o == 'cycle' else ('rejected', '')


# --------------------------------------------------------------------- run
def _init_worker():
    # the parent has already rebuilt the Rust lexer (env.setup()); a worker only installs the
    # shims + bridge and loads the cached std schema
    import gc
    import shim
    shim.install_bridge()
    from bridge import env
    env._STATE['setup'] = True
    _setup_real()
    gc.freeze()


def _ping(_):
    time.sleep(0.2)
    return os.getpid()


def run(ctx: core.Ctx):
    t0 = time.time()
    _setup_real()
    ctx.log(f'real stack ready in the parent ({time.time() - t0:.1f}s)')
    # workers are SPAWNED (not forked: copy-on-write of the bootstrapped schema makes forked
    # workers ~10x slower) and bootstrap the real stack while the proof stage runs
    nproc = max(1, min(8, (os.cpu_count() or 2) - 1))
    pool = mp.get_context('spawn').Pool(nproc, initializer=_init_worker)
    warm = pool.map_async(_ping, range(nproc * 2), chunksize=1)
    try:
        proved = ctx.proof_stage(PROPS, ['EdbVerif.Props.C11', 'Driver.C11'], required=REQUIRED)
        ctx.log('proof stage:', 'ok' if proved else ctx.proof['broken'])
        _run(ctx, pool, proved)
        warm.get(timeout=600)
    finally:
        pool.terminate()
        pool.join()
    if not proved:
        ctx.proof_broken_verdict()


def plans(quick: bool):
    """(size, permutations per document) for acyclic and injected-cycle documents.
    Measured: one load costs 0.1 s (10 nodes) .. 6 s (80 nodes with many expressions);
    quick: ~220 generated loads + ~260 weak-edge-family + ~200 alias-scope-family + ~280
    cross-module-family loads
    + 380 probe loads: ~1.5 min on an idle 16-core machine, 3-4 min when it is shared."""
    if quick:
        return ([('tiny', 12)] * 13 + [('small', 7)] * 4 + [('large', 3)] * 1,
                [('tiny', 5)] * 3 + [('small', 4)] * 1)
    return ([('tiny', 60)] * 100 + [('small', 30)] * 50 + [('large', 10)] * 12,
            [('tiny', 16)] * 24 + [('small', 10)] * 8)


def _replay(ctx, pool):
    rp = json.load(open(ctx.replay))
    n = 0
    for f in rp['failures']:
        d = f.get('detail')
        if not isinstance(d, dict) or 'sdls' not in d:
            continue
        sdls = d['sdls']
        rs = pool.map(work, [((f['key'], i), s, None) for i, s in enumerate(sdls)])
        outs = {outcome_sig(r) for r in rs}
        n += 1
        if len(outs) > 1:
            ctx.fail(f['key'], f['what'], {'sdls': sdls, 'outcomes': sorted(map(str, outs))})
        for r in rs:
            v = graph_verdict_check(r)
            if v:
                ctx.fail(f['key'], v, {'sdls': sdls})
    ctx.cov.update({'evaluations': n, 'distinct_nontrivial': n, 'rule': 'replay', 'samples': []})


def _run(ctx, pool, proved):
    if ctx.replay:
        return _replay(ctx, pool)
    rng = ctx.rng
    quick = ctx.quick()

    # ------------------------------------------------ 1. generated documents
    plan, cyc_plan = plans(quick)
    docs = []
    for size, budget in plan:
        docs.append((gen_doc(rng, size), budget))
    for size, budget in cyc_plan:
        docs.append((gen_doc(rng, size, cyclic=True), budget))
    fam_expect = {}
    for label, form, variant, expect in WEAK_FAMILIES:
        full = variant in ('chain2', 'hidden-fn-cycle')     # all orders even in the quick tier
        docs.append((weak_family_doc(label, form, variant), 720 if (full or not quick) else 16))
        fam_expect[len(docs) - 1] = (label, expect)
    for binder in ALIAS_BINDERS:
        for user in ALIAS_USERS:
            full = binder.startswith('for') and user != 'alias-named'
            docs.append((alias_family_doc(binder, user), 720 if (full or not quick) else (24 if binder.startswith('for') else 5)))
            fam_expect[len(docs) - 1] = (f'alias:{binder}:{user}', 'ok')
    for kind in CLINK_KINDS:
        docs.append((clink_family_doc(kind), 5000))      # <= 24 arrangements x 2 body orders: all, always
        fam_expect[len(docs) - 1] = (f'clink:{kind}', 'ok')
    for placement in XMOD_PLACEMENTS:
        for kind in XMOD_KINDS:
            if kind == 'mid-overload' and placement == 'nested':
                continue
            docs.append((xmod_family_doc(kind, placement), 2 if quick else 5000))
            fam_expect[len(docs) - 1] = (f'xmod:{placement}:{kind}', 'ok')

    tasks, lines, index = [], [], []          # index[i] = (doc idx, variant idx, label, level)
    nums, bases, exh = [], [], []
    for di, (doc, budget) in enumerate(docs):
        num = G.Numbering(doc)
        nums.append(num)
        base_sdl = G.render(doc)
        bases.append(base_sdl)
        if doc.meta.get('xmod'):
            vs, ex = arrangement_variants(doc, rng, budget)
        elif doc.meta.get('family'):
            vs, ex = family_variants(doc, rng, budget)
        else:
            vs, ex = pick_variants(doc, rng, budget)
        exh.append(ex)
        allv = [('identity', 'identity', doc)] + vs
        delta_sample = set(rng.sample(range(1, len(allv)), min(1 if quick else 6, len(allv) - 1))) \
            if len(allv) > 1 else set()
        for vi, (label, level, vd) in enumerate(allv):
            sdl = G.render(vd)
            tasks.append(((di, vi), sdl, base_sdl if vi in delta_sample else None))
            lines.append(G.tokens(vd, num))
            lines.append(G.tokens(vd, num, with_opt=True))
            index.append((di, vi, label, level))
    ctx.log(f'{len(docs)} documents, {len(tasks)} permuted documents to load')

    t0 = time.time()
    async_res = pool.map_async(work, tasks, chunksize=4)
    model = ctx.driver('C11', lines)
    if len(model) != len(lines):
        raise core.Infra(f'driver returned {len(model)} lines for {len(lines)}')
    results = async_res.get(timeout=7200)
    ctx.log(f'loaded through the real parse_sdl/apply_sdl in {time.time() - t0:.1f}s '
            f'(sum of per-load times {sum(r["t"] for r in results):.0f}s)')

    per_doc = {}
    n_graph, n_graph_nodes, n_band, n_order_cmp, n_delta = 0, 0, 0, 0, 0
    n_dis = 0
    n_tracer = 0
    n_edges = {'hard': 0, 'hard_forward': 0, 'weak': 0, 'loop_control': 0}
    verdict_hist, level_hist, kind_hist = {}, {}, {}
    invalid_docs, incomplete = 0, 0
    for (di, vi, label, level), task, res, m1, m2 in zip(index, tasks, results, model[0::2], model[1::2]):
        per_doc.setdefault(di, []).append((vi, label, level, task[1], res))
        level_hist[level] = level_hist.get(level, 0) + 1
        mmin, mmax = parse_model(m1, nums[di]), parse_model(m2, nums[di])
        key = docs[di][0].label or sha(bases[di])
        if mmin is None or mmax is None:
            ctx.fail(f'corr:{key}', 'driver rejected the document line', {'sdls': [task[1]], 'model': [m1[:200], m2[:200]]},
                     no_input=True)
            continue
        out = outcome_of(res)
        verdict_hist[out] = verdict_hist.get(out, 0) + 1
        # oracle on the tracer: a function of its arguments, no residue in the object index
        if res.get('tracer'):
            n_tracer += len(res['tracer'])
            t = res['tracer'][0]
            ctx.fail(f'tracer:context-leak:{key}',
                     'trace_refs() is stateful: ' + (
                         f"it left {t.get('added')} in / removed {t.get('removed')} from the loader's object index"
                         if t['kind'] == 'index-changed' else
                         f"the refs of `{t.get('expr')}` depend on residue {t.get('stale')} of an earlier trace: "
                         f"{t.get('refs_in_context')} in context vs {t.get('refs_alone')} alone"
                         if t['kind'] == 'refs-depend-on-residue' else str(t)),
                     {'sdls': [task[1]], 'tracer': res['tracer']})
        # oracle on the real graph alone
        v = graph_verdict_check(res)
        if v:
            ctx.fail(f'cycle-verdict:{key}', v, {'sdls': [task[1]], 'graph': res['graph']})
        # correspondence: verdict
        exp = {'ok': 'ok', 'cycle': 'cycle'}.get(mmin['verdict'], mmin['verdict'])
        if out.startswith('err:'):
            pass            # judged per document below (invalid document vs order dependence)
        elif out != exp:
            n_dis += 1
            ctx.fail(f'corr:{key}', f'verdict: real {out}, model {mmin["verdict"]}',
                     {'sdls': [task[1]], 'model_line': m1[:400]}, no_input=True)
        if not mmin['complete']:
            incomplete += 1
        # correspondence: graph
        if res.get('graph') and mmin['graph']:
            n_graph += 1
            n_graph_nodes += len(res['graph']['keys'])
            posk = {k: i for i, (k, *_r) in enumerate(res['graph']['keys'])}
            for k, dd, ww, _mm, cc in res['graph']['keys']:
                n_edges['hard'] += len(dd)
                n_edges['weak'] += len(ww)
                n_edges['loop_control'] += len(cc)
                n_edges['hard_forward'] += sum(1 for x in dd if posk.get(x, -1) > posk[k])
            diffs, band = compare_graph(res, mmin, mmax)
            n_band += band
            if diffs:
                n_dis += 1
                ctx.fail(f'corr:{key}', 'dependency graph handed to topological.sort differs from the model',
                         {'sdls': [task[1]], 'diffs': diffs[:8]}, no_input=True)
            elif band == 0 and res['graph']['order'] is not None and mmin['order'] is not None \
                    and all(len(c) <= 1 for *_x, c in res['graph']['keys']):
                n_order_cmp += 1
                if res['graph']['order'] != mmin['order']:
                    n_dis += 1
                    ctx.fail(f'corr:{key}', 'order of the emitted DDL differs from the model',
                             {'sdls': [task[1]], 'real': res['graph']['order'][:40],
                              'model': mmin['order'][:40]}, no_input=True)
        if res.get('delta') is not None:
            n_delta += 1
            dl = res['delta']
            if dl[0] == 'exc' or dl[0] or dl[1]:
                ctx.fail(f'perm:{key}', 'delta_schemas between two permutations is not empty',
                         {'sdls': [bases[di], task[1]], 'delta': dl})

    # ------------------------------------------------ oracle: equality across permutations
    n_equal_groups = 0
    n_explicit_only = 0
    fam_hist = {}
    for di, vs in per_doc.items():
        vs.sort()
        base = vs[0][4]
        key = docs[di][0].label or sha(bases[di])
        if di in fam_expect:
            flabel, expect = fam_expect[di]
            got = sorted({outcome_sig(r)[0] for *_x, r in vs})
            fam_hist[flabel] = got
            if got != [expect]:
                bad = next((x for x in vs if outcome_sig(x[4])[0] != expect))
                ctx.fail(f'{flabel}:verdict' if flabel.startswith(('xmod:', 'alias:', 'clink:')) else f'weak:{flabel}:verdict',
                         f'family: expected {expect} in every declaration order, got {got} '
                         f'({sum(1 for x in vs if outcome_sig(x[4])[0] != expect)} of {len(vs)} orders differ)',
                         {'sdls': [bad[3]], 'errs': [bad[4]['err']], 'label': bad[1]})
        outs = {}
        for vi, label, level, sdl, res in vs:
            outs.setdefault(outcome_sig(res), []).append((vi, label, sdl, res))
        kind_hist[docs[di][0].meta.get('cyclic') or 'acyclic'] = \
            kind_hist.get(docs[di][0].meta.get('cyclic') or 'acyclic', 0) + 1
        if len({r['xdump'] for *_x, r in vs if r['xdump']}) > 1:
            n_explicit_only += 1
        if len(outs) == 1:
            n_equal_groups += 1
            (o, _), = outs.keys()
            if o == 'rejected':
                invalid_docs += 1
                errs = sorted({r['err'][0] + ': ' + r['err'][1][:120] for *_x, r in vs if r['err']})
                ctx.notes.append(f'generated document {key} is rejected by the engine in every order: {errs[:3]}')
            continue
        sigs = sorted(outs, key=lambda s: outs[s][0][0])
        a, b = outs[sigs[0]][0], outs[sigs[1]][0]
        what = 'two permutations of one SDL document give different results: ' \
               f'{sigs[0][0]} ({len(outs[sigs[0]])}x) vs {sigs[1][0]} ({len(outs[sigs[1]])}x)'
        detail = {'sdls': [a[2], b[2]], 'labels': [a[1], b[1]],
                  'errs': [a[3]['err'], b[3]['err']]}
        if a[3]['dump'] and b[3]['dump']:
            detail['first_diff'] = first_diff(a[3]['dump'], b[3]['dump'])
        ctx.fail(f'perm:{key}', what, detail)

    # ------------------------------------------------ 2. probes and cycle families
    ptasks, pindex = [], []

    def perms_of(n, label):
        allp = list(itertools.permutations(range(n)))
        if not quick or len(allp) <= 6:
            return allp
        r = random.Random(f'{label}:{ctx.seed}')
        rest = allp[1:-1]
        r.shuffle(rest)
        return [allp[0], allp[-1]] + rest[:4]

    pdocs = dict(probe_docs())
    for label, decls in pdocs.items():
        for p in perms_of(len(decls), label):
            ptasks.append(((label, p), wrap_default([decls[i] for i in p]), None))
            pindex.append(('probe', label, p))
    for p in perms_of(len(SPLIT_MODULE), 'split-module'):
        ptasks.append((('split-module', p), '\n'.join(SPLIT_MODULE[i] for i in p) + '\n', None))
        pindex.append(('probe', 'split-module', p))
    for label, (decls, expect) in CYCLES.items():
        for p in perms_of(len(decls), label):
            ptasks.append(((label, p), wrap_default([decls[i] for i in p]), None))
            pindex.append(('cycle', label, p))
    # the model-level counterexample (Props/C11.lean `C11_incomplete_counterexample`) is the
    # probe 'abs-constraint-extending'; its two orders also go through the driver
    cx_lines = ['I 2 20 0 2 2 000000 - - - - - - 1;I 1 10 0 1 1 000000 - - - - - - -',
                'I 1 10 0 1 1 000000 - - - - - - -;I 2 20 0 2 2 000000 - - - - - - 1']
    cx_model = ctx.driver('C11', cx_lines)
    t0 = time.time()
    presults = pool.map(work, ptasks, chunksize=4)
    ctx.log(f'{len(ptasks)} probe / cycle-family documents loaded in {time.time() - t0:.1f}s')
    groups = {}
    for (kind, label, p), task, res in zip(pindex, ptasks, presults):
        groups.setdefault((kind, label), []).append((p, task[1], res))
        v = graph_verdict_check(res)
        if v:
            ctx.fail(f'cycle-verdict:{kind}:{label}', v, {'sdls': [task[1]]})
    probe_hist = {'order-independent': 0, 'order-dependent': 0}
    cyc_hist = {}
    for (kind, label), vs in groups.items():
        outs = {}
        for p, sdl, res in vs:
            outs.setdefault(outcome_sig(res), []).append((p, sdl, res))
        if len(outs) > 1:
            probe_hist['order-dependent'] += 1
            sigs = sorted(outs, key=lambda s: (s[0] != 'ok', s))
            a, b = outs[sigs[0]][0], outs[sigs[-1]][0]
            ctx.fail(f'{kind}:{label}',
                     'declaration order matters: ' + ', '.join(f'{s[0]} in {len(outs[s])} orders' for s in sigs),
                     {'sdls': [a[1], b[1]], 'errs': [a[2]['err'], b[2]['err']]})
        else:
            probe_hist['order-independent'] += 1
        if kind == 'cycle':
            expect = CYCLES[label][1]
            got = {outcome_of(r) for _, _, r in vs}
            cyc_hist[label] = sorted(got)
            if expect == 'cycle' and got != {'cycle'}:
                ctx.fail(f'cycle:{label}', f'cyclic document not rejected as cyclic: {sorted(got)}',
                         {'sdls': [vs[0][1]], 'errs': [vs[0][2]['err']]})
            if expect == 'ok' and 'cycle' in got:
                ctx.fail(f'cycle:{label}', 'acyclic (near-cycle) document rejected as cyclic',
                         {'sdls': [vs[0][1]], 'errs': [vs[0][2]['err']]})
    fam_model = ctx.driver('C11', list(MODEL_FAMILIES.values()))
    for (label, line), out in zip(MODEL_FAMILIES.items(), fam_model):
        mv = out.split('|')[1].split(' ')[0] if out.count('|') == 2 else out
        rv = cyc_hist.get(label)
        if rv != [mv]:
            ctx.fail(f'corr:family:{label}', f'verdict: real {rv}, model {mv}', {'line': line}, no_input=True)
    # the counterexample witness: model says the two orders differ (ok vs applyerr) and is incomplete
    cxv = [l.split('|')[1].split(' ')[0] for l in cx_model]
    cxr = sorted({outcome_of(r) for _, _, r in groups[('probe', 'abs-constraint-extending')]})
    if sorted(cxv) != ['applyerr', 'ok'] or len(cxr) != 2:
        ctx.fail('corr:counterexample', 'the incomplete-tracing counterexample no longer separates the two orders '
                 f'(model {cxv}, real {cxr})', {'model': cx_model}, no_input=True)

    n_eval = len(tasks) + len(ptasks)
    # distinct = distinct SDL text; non-trivial = the document has at least two declarations
    nnodes = [len(G.all_nodes(d)) for d, _ in docs]
    distinct = len({t[1] for (di, *_r), t in zip(index, tasks) if nnodes[di] >= 2})
    distinct += len({t[1] for (kind, label, p), t in zip(pindex, ptasks) if len(p) >= 2})
    sample_ix = sorted({0, len(tasks) // 3, len(tasks) // 2, len(tasks) - 1})
    ctx.cov.update({
        'evaluations': n_eval,
        'distinct_nontrivial': distinct,
        'rule': 'one evaluation = one SDL text loaded by the real parse_sdl + apply_sdl (sdl_to_ddl, topological.sort, '
                'DDL application).  Generated documents: 1-4 modules (split blocks, nested blocks, qualified '
                'top-level declarations), types with multiple inheritance declared child-first, overloaded '
                'pointers, link properties, computed properties / links / backlinks, defaults, indexes, '
                'type- and pointer-level constraints, access policies, user scalars / abstract constraints / '
                'annotations / abstract links, overloaded functions, globals, aliases; every reference may '
                'point forward.  Permutations at three levels (all permutations of a site with <= 5 items '
                'while the per-document budget lasts, else random).  distinct = distinct SDL text; '
                'non-trivial = at least two declarations',
        'samples': [{'label': index[i][2], 'sdl': tasks[i][1][:600], 'outcome': outcome_of(results[i])}
                    for i in sample_ix],
        'documents': len(docs),
        'documents_equal_across_all_permutations': n_equal_groups,
        'documents_rejected_in_every_order': invalid_docs,
        'documents_differing_only_in_explicitly_stored_default_values': n_explicit_only,
        'permutations_by_level': level_hist,
        'levels_fully_enumerated': {lv: sum(1 for e in exh if e.get(lv)) for lv in LEVELS},
        'outcome_histogram': verdict_hist,
        'injected_cycle_kinds': kind_hist,
        'graphs_compared': n_graph, 'graph_nodes_compared': n_graph_nodes,
        'real_graph_edges': n_edges,
        'nodes_with_cache_dependent_extra_edges': n_band,
        'emitted_orders_compared': n_order_cmp,
        'delta_schemas_pairs': n_delta,
        'model_incomplete_documents': incomplete,
        'weak_edge_families': {k: v for k, v in fam_hist.items() if not k.startswith(('xmod:', 'alias:', 'clink:'))},
        'computed_link_continuation_families': {k: v for k, v in fam_hist.items() if k.startswith('clink:')},
        'alias_scope_families': {k: v for k, v in fam_hist.items() if k.startswith('alias:')},
        'tracer_calls_leaving_residue': n_tracer,
        'cross_module_families': {k: v for k, v in fam_hist.items() if k.startswith('xmod:')},
        'probes': probe_hist, 'cycle_families': cyc_hist, 'model_families_compared': len(MODEL_FAMILIES),
        'disagreements_model_vs_impl': n_dis,
        'exhaustive': False,
        'correspondence': 'DepGraphEntry map recorded inside edb.edgeql.declarative (keys in dict order, deps, '
                          'weak_deps, merge, loop_control) vs Lean EdbVerif.Sdl.graph; verdict vs EdbVerif.Sdl.build; '
                          'emitted order vs Topo.sortEx (graph d)',
    })
    ctx.assumptions += [
        'the expression tracer (edb/edgeql/tracer.py) is an input of the model: the harness predicts the names it '
        'reports for the generated expression forms and the prediction is compared with the real graph on every '
        'document; expression forms outside the generator are not covered',
        'C11_perm needs `Complete d`: every semantic requirement of a declaration is reachable through traced hard '
        'dependencies.  Where the real tracer misses an edge the theorem does not apply and the real code is '
        'order dependent (probes abs-constraint-*, global-default-*, abslink-lprop-from-subtype)',
        'a scalar type is created before its own constraints because of dict iteration order and loop_control, '
        'not because of a hard edge; the model leaves the owner out of `req` for those constraints',
        'what has to be equal across permutations is the schema when the document is accepted and otherwise the '
        'kind of rejection (cyclic / other); WHICH non-cycle error is raised first may depend on the order',
        'schemas are compared by an own structural dump (all schema fields, references by name, ids / backend names '
        'ignored, ObjectSet / ObjectIndex sorted because the engine compares them by key) and by delta_schemas on '
        'a sample',
    ]
    ctx.trusted_base += [
        'hand-written model EdbVerif/Model/Sdl.lean of apply_sdl.collect / sdl_to_ddl / _register_item; tied by the '
        'graph comparison above',
        'harness/props/c11gen.py: document generator and its re-statement of the tracer rules for the generated '
        'expression forms; harness/props/c11.py: structural dump, oracle',
        'harness/bridge (LALR front end around the real tokenizer / grammar / reduce methods)',
    ]
