"""C01 — EdgeQL text survives a print / re-parse round trip.

(A) oracle on the REAL stack (bridge parser = real tokenizer + LALR tables from the real grammar
    + real reduce methods; real `edb.edgeql.codegen`):
        a1 = parse(t); p1 = print(a1); a2 = parse(p1) succeeds, canon(a2) == canon(a1);
        print(a2) == p1 byte for byte
    over upstream corpora, AST-level generated expressions (all operator-context pairs),
    identifiers needing quoting in every position, literal forms, DDL/SDL templates, token
    mutants and expression grafts of the corpora, in several printer modes.
(B) Lean model `EdbVerif.QL` (pp / precedence-climbing parse over tokens, table generated from
    grammar/precedence.py) -- proof stage + token-level tie with the real printer and parser.
"""
from __future__ import annotations

import collections
import copy
import json
import os
import re
import time

from lib import core

PROPS = 'EdbVerif/Props/C01.lean'
REQUIRED = [
    'EdbVerif.C01.C01_roundtrip', 'EdbVerif.C01.C01_idempotent', 'EdbVerif.C01.C01_parse_wf',
    'EdbVerif.C01.C01_roundtrip_counterexample_neg_pow', 'EdbVerif.C01.C01_roundtrip_counterexample_not_eq',
    'EdbVerif.C01.C01_roundtrip_counterexample_detached_index',
    'EdbVerif.C01.C01_roundtrip_counterexample_detached_path',
]

BLOCK_MODES = [{'unsorted': True}, {'unsorted': True, 'pretty': False}, {'unsorted': True, 'uppercase': True},
               {'_sortcmp': True}]
SDL_MODES = [{'sdlmode': True, 'unsorted': True}, {'sdlmode': True, '_sortcmp': True},
             {'sdlmode': True, 'unsorted': True, 'pretty': False},
             {'sdlmode': True, 'descmode': True, 'unsorted': True}]


def mode_name(o):
    return ','.join(f'{k}={v}' for k, v in sorted(o.items())) or 'default'


# --------------------------------------------------------------------------- failure families
class F:
    """what a family rule sees: the (shrunk) witness"""
    def __init__(self, status, sk, r, tree, entry):
        from edb.edgeql import ast as qlast
        from . import c01_shrink as sh
        self.st, self.sk, self.r, self.tree, self.entry = status, sk, r, tree, entry
        self.p1 = r.p1 or ''
        self.err = r.err or ''
        self.diff = r.diff or ''
        self.nodes = [n for _p, n in sh.walk(tree)] if isinstance(tree, qlast.Base) else []
        self.strs = [n.value for n in self.nodes
                     if isinstance(n, qlast.Constant) and n.kind == qlast.ConstantKind.STRING]
        for n in self.nodes:
            if isinstance(n, qlast.StrInterp):
                self.strs += [n.prefix] + [f.suffix for f in n.interpolations]
        self.bytes = [n.value for n in self.nodes if isinstance(n, qlast.BytesConstant)]
        self.ql = qlast
        self.diffnode = self._node_at_diff()

    def _node_at_diff(self):
        """the node owning the field named by the ast-difference path (best effort)"""
        m = re.match(r'\s*((?:\[\d+\]|\.\w+)+):', self.diff)
        if not m or not isinstance(self.tree, self.ql.Base):
            return None
        toks = re.findall(r'\[(\d+)\]|\.(\w+)', m.group(1))
        cur = self.tree
        if self.entry == 'block' and toks and toks[0][0] != '':
            toks = toks[1:]              # leading [i] = index of the statement in the block
        toks = toks[:-1]                 # the last component is the differing field itself
        try:
            for idx, name in toks:
                cur = cur[int(idx)] if idx != '' else getattr(cur, name)
        except Exception:
            return None
        return cur if isinstance(cur, self.ql.Base) else None

    def has(self, *names):
        return any(type(n).__name__ in names for n in self.nodes)

    def find(self, name):
        return [n for n in self.nodes if type(n).__name__ == name]


BIDI = (0x202a, 0x202b, 0x202c, 0x202d, 0x202e, 0x2066, 0x2067, 0x2068, 0x2069)
_NONATOMIC = (r'(UnaryOp|NegConst|TypeCast\[optional\]|TypeCast\[required\]|DetachedExpr|GlobalExpr|Indirection|'
              r'Shape|IfElse|BinOp|IsOp|Introspect|TypeCast\{[^}]*expr:(NegConst|UnaryOp))')
_PREFIXISH = r'(UnaryOp\[[^\]]*\]|NegConst)'


def _code_strings(f):
    out = []
    for n in f.nodes:
        c = getattr(n, 'code', None)
        if c is not None and getattr(c, 'code', None):
            out.append(c.code)
    return out


# ordered: structural (parenthesisation) families first, then literal families, then DDL wording
RULES = [
    # ---- expression core: missing parentheses ---------------------------------------------
    ('expr-for-iterator-not-atomic',
     lambda f: f.st == 'reparse-fail' and re.search(r'ForQuery\{(aliases:[^}]*,)?iterator:' + _NONATOMIC, f.sk)),
    ('expr-unary-plus-plus-fuses',
     lambda f: f.st == 'reparse-fail' and re.search(r"UnaryOp\[\+\]\{operand:UnaryOp\[\+\]", f.sk)),
    ('expr-detached-operand-unparenthesised',
     lambda f: f.st == 'ast-diff' and re.search(r'node DetachedExpr != ', f.diff)),
    ('expr-shape-subject-unparenthesised',
     lambda f: f.st == 'ast-diff' and re.search(r'node Shape != (UnaryOp|TypeCast|DetachedExpr)', f.diff)),
    ('expr-prefix-operand-unparenthesised',
     lambda f: f.st == 'ast-diff' and re.search(r'node (BinOp|IsOp) != (UnaryOp|TypeCast|DetachedExpr)', f.diff)
     and re.search(r'(BinOp|IsOp)\{left:(' + _PREFIXISH + r'|(TypeCast(\[\w+\])?\{expr:|DetachedExpr\{expr:)+'
                   + _PREFIXISH + ')', f.sk)),
    ('expr-typecast-required-dropped',
     lambda f: f.st == 'ast-diff' and 'TypeCast[required]' in f.sk and 'cardinality_mod' in f.diff),
    ('expr-empty-shape-dropped',
     lambda f: f.st == 'ast-diff' and re.search(r'node Shape != ', f.diff)
     and any(isinstance(n, f.ql.Shape) and not n.elements for n in f.nodes)),
    # ---- literals ---------------------------------------------------------------------------
    ('param-backquoted-name-requoted',
     lambda f: f.st == 'ast-diff' and re.search(r"\.name: ['\"]`", f.diff) and f.has('Parameter')),
    ('bytes-backslash-not-escaped',
     lambda f: f.st in ('ast-diff', 'reparse-fail') and any(b'\\' in v for v in f.bytes)
     and (f.st == 'ast-diff' and '#bytes' in f.diff or f.st == 'reparse-fail')),
    ('const-c1-control-repr',
     lambda f: f.st == 'reparse-fail' and 'invalid escape sequence' in f.err
     and any(0x80 <= ord(c) <= 0x9f for v in f.strs for c in v)),
    ('const-bidi-raw',
     lambda f: f.st == 'reparse-fail' and re.search(r'character U\+20[26][0-9A-E] is not allowed', f.err)
     and any(ord(c) in BIDI for v in f.strs for c in v)),
    ('ddl-code-literal-prohibited-char-raw',
     lambda f: f.st == 'reparse-fail' and re.search(r'character U\+\w+ is not allowed', f.err)
     and any(ord(c) in BIDI or c == '\0' for v in _code_strings(f) for c in v)),
    ('const-dollar-quote-trailing-dollar',
     lambda f: f.st == 'reparse-fail' and any(v.endswith('$') and "'" in v and '"' in v for v in f.strs)),
    ('ddl-code-dollar-quote-trailing-dollar',
     lambda f: f.st in ('reparse-fail', 'ast-diff') and any(v.endswith('$') for v in _code_strings(f))),
    # ---- unquoted names -----------------------------------------------------------------------
    ('name-unquoted-partial-reserved-keyword',
     lambda f: f.st == 'reparse-fail' and any(
         part.lower() in ('union', 'except', 'intersect')
         for n in f.nodes for a in ('name', 'module', 'alias', 'func', 'iterator_alias', 'grouping_alias', 'group_alias',
                                    'subject_alias', 'result_alias')
         for v in [getattr(n, a, None)] if isinstance(v, (str, tuple))
         for vv in (v if isinstance(v, tuple) else (v,)) if isinstance(vv, str) for part in vv.split('::'))),
    # grammar: `RESET IDENT` takes the IDENT *token*, so an unreserved keyword is a field name only when back-quoted;
    # quote_ident leaves unreserved keywords bare
    ('ddl-reset-field-unreserved-keyword-unquoted',
     lambda f: f.st == 'reparse-fail' and re.search(r"Unexpected keyword", f.err) and any(
         isinstance(n, f.ql.SetField) and n.value is None and not n.special_syntax and _is_unreserved(n.name)
         for n in f.nodes)),
    ('ddl-reset-field-name-keeps-backquotes',
     lambda f: f.st == 'ast-diff' and re.search(r"\.name: ['\"]`", f.diff)
     and isinstance(f.diffnode, f.ql.SetField) and f.diffnode.value is None),
    ('name-unquoted-savepoint',
     lambda f: f.st in ('reparse-fail', 'ast-diff') and f.has('DeclareSavepoint', 'ReleaseSavepoint', 'RollbackToSavepoint')),
    ('name-unquoted-reset-alias', lambda f: f.st == 'reparse-fail' and f.has('SessionResetAliasDecl')),
    ('name-unquoted-select-result-alias',
     lambda f: f.st in ('reparse-fail', 'ast-diff') and any(
         isinstance(n, f.ql.SelectQuery) and n.result_alias
         and not re.fullmatch(r'[^\W\d]\w*', n.result_alias) or
         isinstance(n, f.ql.SelectQuery) and n.result_alias and _is_reserved(n.result_alias) for n in f.nodes)),
    ('name-unquoted-setfield',
     lambda f: f.st in ('reparse-fail', 'ast-diff') and any(
         isinstance(n, f.ql.SetField) and not n.special_syntax
         and (not re.fullmatch(r'[^\W\d]\w*', n.name) or _is_reserved(n.name)) for n in f.nodes)),
    # visit_Ptr prints purely numeric names bare (allow_num=True) wherever the Ptr stands; the grammar takes a
    # number only after `Expr .` (tuple element access): not in shapes, `@n`, partial paths `.n`, named tuples
    ('name-unquoted-numeric-pointer',
     lambda f: f.st == 'reparse-fail' and re.search(r"Unexpected '\d+'|Unexpected ':='", f.err) and any(
         isinstance(n, f.ql.Ptr) and n.name.isdigit() for n in f.nodes)),
    ('ddl-code-string-python-repr',
     lambda f: f.st == 'reparse-fail' and 'invalid escape sequence' in f.err and any(
         any(not c.isprintable() or 0x80 <= ord(c) <= 0x9f for part in ([x] if isinstance(x, str) else list(x))
             for c in str(part))
         for n in f.nodes for c_ in [getattr(n, 'code', None)] if c_ is not None
         for x in [getattr(c_, 'from_function', None), getattr(c_, 'from_operator', None)] if x)),
    ('name-dunder-keyword-backquoted',
     lambda f: f.st == 'reparse-fail' and 'surrounded by double underscores' in f.err),
    ('for-optional-dropped',
     lambda f: f.st == 'ast-diff' and re.search(r'\.optional: True != False', f.diff) and f.has('ForQuery')),
    # ---- statements / DDL wording -------------------------------------------------------------
    ('ddl-alter-drop-cast-missing-space',
     lambda f: f.st == 'reparse-fail' and re.search(r'(?i)\b(alter|drop) castfrom\b', f.p1)),
    ('ddl-index-match-missing-space',
     lambda f: f.st == 'reparse-fail' and re.search(r'(?i)index match for[^\s]', f.p1)),
    ('config-reset-filter-missing-space',
     lambda f: f.st == 'reparse-fail' and f.has('ConfigReset') and any(
         isinstance(n, f.ql.ConfigReset) and n.where is not None for n in f.nodes)
     and re.search(r'(?i)[^\s]filter\b', f.p1)),
    ('ddl-function-using-sql-expression-dropped',
     lambda f: f.st == 'reparse-fail' and f.has('CreateFunction', 'AlterFunction') and any(
         getattr(getattr(n, 'code', None), 'from_expr', False) for n in f.nodes)),
    ('ddl-operator-using-sql-function-printed-as-operator',
     lambda f: f.st == 'ast-diff' and f.has('CreateOperator') and re.search(r'code\.from_(operator|function)', f.diff)),
    ('ddl-cast-using-function-and-code-drops-code',
     lambda f: f.st == 'ast-diff' and f.has('CreateCast') and 'code.code' in f.diff),
    ('ddl-migration-onto-initial-parent',
     lambda f: f.st == 'ast-diff' and f.has('CreateMigration') and re.search(r'\.parent: None != ', f.diff)),
    # only the UNTYPED `x { using (e) }` -> `x := (e)` normalisation; a typed one losing its block is a regression.
    # Decided on the node the difference points at.
    ('ddl-computable-using-block-normalised',
     lambda f: f.st == 'ast-diff' and re.search(r'commands: length 1 != 0', f.diff)
     and type(f.diffnode).__name__ in ('CreateGlobal', 'CreateConcreteProperty', 'CreateConcreteLink',
                                       'CreateConcreteUnknownPointer', 'CreateAlias')
     and len(f.diffnode.commands) == 1 and isinstance(f.diffnode.commands[0], f.ql.SetField)
     and f.diffnode.commands[0].name == 'expr'
     and not isinstance(getattr(f.diffnode, 'target', None), f.ql.TypeExpr)),
    ('ddl-operator-two-using-clauses-garbled',
     lambda f: f.has('CreateOperator') and f.st in ('reparse-fail', 'ast-diff')
     and len(re.findall(r'(?i)using sql', f.p1)) >= 2),
    ('ddl-function-two-using-clauses-one-dropped',
     lambda f: f.has('CreateFunction') and (
         f.st == 'ast-diff' and re.search(r'(code\.(code|from_expr|from_function)|nativecode): ', f.diff)
         or f.st == 'reparse-fail' and 'USING FUNCTION clause' in f.err)),
    ('ddl-empty-block-printed-as-nothing',
     lambda f: f.st == 'reparse-fail' and re.search(r"Unexpected ';'", f.err)
     and any(isinstance(n, (f.ql.AlterObject, f.ql.CreateAlias)) and not n.commands for n in f.nodes)),
    ('ddl-index-named-idx-dropped',
     lambda f: f.st == 'ast-diff' and re.search(r"name\.module: None != '__'", f.diff)
     and f.has('CreateConcreteIndex', 'AlterConcreteIndex', 'DropConcreteIndex')),
    ('ddl-abstract-operator-commands-dropped',
     lambda f: f.st == 'ast-diff' and re.search(r'commands: length \d+ != 0', f.diff)
     and any(isinstance(n, f.ql.CreateOperator) and n.abstract and n.commands for n in f.nodes)),
    ('sdl-abstract-constraint-short-form-drops-on',
     lambda f: f.st == 'ast-diff' and re.search(r'subjectexpr: .* != None', f.diff) and f.has('CreateConstraint')
     and f.entry == 'sdl'),
    ('ddl-drop-branch-force-dropped',
     lambda f: f.st == 'ast-diff' and f.has('DropDatabase', 'AlterDatabase') and re.search(r'\.force: True != False', f.diff)),
    ('ddl-ext-package-migration-to-version-keyword',
     lambda f: f.st == 'reparse-fail' and f.has('DropExtensionPackageMigration', 'CreateExtensionPackageMigration')
     and not re.search(r'(?i)\bto\s+version\b', f.p1)),
    ('describe-object-class-keyword-dropped',
     lambda f: f.st == 'reparse-fail' and any(
         isinstance(n, f.ql.DescribeStmt) and isinstance(n.object, f.ql.ObjectRef) for n in f.nodes)),
    ('describe-config-wording-rejected',
     lambda f: f.st == 'reparse-fail' and any(
         isinstance(n, f.ql.DescribeStmt) and isinstance(n.object, f.ql.DescribeGlobal) for n in f.nodes)),
    ('reset-schema-target-printed-as-repr',
     lambda f: f.st in ('reparse-fail', 'ast-diff', 'text-diff') and f.has('ResetSchema')),
    ('sdl-sorted-mode-assertion-on-constraint-or-index',
     lambda f: f.st == 'print-crash' and f.err.startswith('AssertionError')
     and f.has('CreateConcreteConstraint', 'CreateConcreteIndex', 'AlterConcreteConstraint', 'AlterConcreteIndex',
               'DropConcreteConstraint', 'DropConcreteIndex')),
    ('nested-body-text-reindents-multiline-literals',
     lambda f: f.st == 'ast-diff' and f.has('CreateMigration', 'CreateExtensionPackage', 'CreateExtensionPackageMigration')
     and re.search(r'commands\[\d+\]', f.diff) and re.search(r"(value|name): ['\"]", f.diff)),
    ('name-unquoted-fuses-with-keyword',
     lambda f: f.st == 'reparse-fail' and any(
         isinstance(n, (f.ql.CreateExtension, f.ql.AlterExtension, f.ql.DropExtension)) and n.name.name.lower() == 'package'
         or isinstance(n, f.ql.SetField) and not n.special_syntax and n.name.lower() in ('type', 'annotation')
         or isinstance(n, (f.ql.ConfigSet, f.ql.ConfigReset)) and n.name.name.lower() in ('type', 'annotation')
         for n in f.nodes)),
    ('ddl-statement-argument-unparenthesised',
     lambda f: f.st == 'reparse-fail' and re.search(r"Unexpected keyword '(FOR|GROUP|SELECT|INSERT|UPDATE|DELETE|WITH)'", f.err)
     and any(isinstance(n, f.ql.DDL) for n in f.nodes) and any(isinstance(n, f.ql.Query) for n in f.nodes)),
    ('nested-body-text-not-idempotent',
     lambda f: f.st == 'text-diff' and f.has('CreateMigration', 'CreateExtensionPackage', 'CreateExtensionPackageMigration')),
]


def _is_unreserved(name):
    from edb.edgeql.parser.grammar import keywords as kw
    return name.lower() in kw.by_type[kw.UNRESERVED_KEYWORD]


def _is_reserved(name):
    from edb.edgeql.parser.grammar import keywords as kw
    return name.lower() in kw.by_type[kw.RESERVED_KEYWORD] or name.lower() in kw.by_type[kw.PARTIAL_RESERVED_KEYWORD]


def classify(status, sk, r, tree, entry):
    m_nop = re.search(r'No method to generate code for (\w+)', r.err or '')
    if status == 'print-crash' and m_nop:
        return f'no-printer-{m_nop.group(1)}'
    f = F(status, sk, r, tree, entry)
    for key, pred in RULES:
        try:
            if pred(f):
                return key
        except Exception:
            continue
    return None


class Collector:
    def __init__(self, ctx):
        self.ctx = ctx
        self.hist = collections.Counter()
        self.by_origin = collections.Counter()
        self.by_mode = collections.Counter()
        self.classes = collections.Counter()        # qlast node classes printed
        self.fail_units = []
        self.distinct = set()
        self.samples = []
        self.n_units = 0
        self.n_texts = 0
        self.rejected = collections.Counter()
        self.bank = None            # c01_slots.SlotBank collecting example trees per (class, field) slot

    def text(self, origin, entry, text, modes=None, split=True):
        """run one text through the oracle (per statement / declaration) in the given modes"""
        from . import c01_rt as rt
        from edb.edgeql import ast as qlast
        self.n_texts += 1
        kind = origin.split(':')[0]
        try:
            a1 = rt.parse(entry, text)
        except Exception as e:
            self.rejected[kind] += 1
            return None
        if entry == 'block':
            units = [[t] for t in a1] if split else [a1]
        elif entry == 'sdl' and split and len(a1.declarations) > 1:
            units = [qlast.Schema(declarations=[d]) for d in a1.declarations]
        else:
            units = [a1]
        if modes is None:
            all_modes = SDL_MODES if entry == 'sdl' else BLOCK_MODES
            modes = [all_modes[0], self.ctx.rng.choice(all_modes[1:])] if self.ctx.quick() else all_modes
        if entry == 'sdl':
            modes = [m if m.get('sdlmode') else dict(m, sdlmode=True, unsorted=True) for m in modes]
        ok = True
        if self.bank is not None:
            for u in units:
                try:
                    self.bank.add(entry, u)
                except Exception:
                    pass
        for i, u in enumerate(units):
            c1 = None
            for m in modes:
                self.n_units += 1
                r = rt.roundtrip_tree(entry, u, m)
                self.hist[r.status] += 1
                self.by_origin[kind] += 1
                self.by_mode[mode_name(m)] += 1
                if r.status == 'ok':
                    if len(self.samples) < 6 and self.n_units % 997 == 1:
                        self.samples.append({'origin': origin, 'entry': entry, 'mode': mode_name(m),
                                             'printed': r.p1[:200]})
                    self.distinct.add(hash((entry, r.p1)))
                else:
                    ok = False
                    self.fail_units.append((origin, entry, u, m, r, text if len(units) == 1 else f'-- statement {i} of:\n' + text))
            for n in _walk_classes(u):
                self.classes[n] += 1
        return ok


def _walk_classes(u):
    from . import c01_shrink as sh
    from edb.edgeql import ast as qlast
    roots = u if isinstance(u, (list, tuple)) else [u]
    for r in roots:
        if isinstance(r, qlast.Base):
            for _p, n in sh.walk(r):
                yield type(n).__name__
        elif isinstance(r, list):
            for x in r:
                if isinstance(x, qlast.Base):
                    for _p, n in sh.walk(x):
                        yield type(n).__name__


def presig(entry, r, u=None):
    """cheap signature used to group failures before shrinking"""
    root = ''
    if u is not None:
        t = u[0] if isinstance(u, list) and u else u
        root = type(t).__name__
        d = getattr(t, 'declarations', None)
        if d:
            root += '/' + type(d[0]).__name__
        root += '|'
    return root + _presig(entry, r)


def _presig(entry, r):
    if r.status == 'ast-diff':
        d = re.sub(r'\[\d+\]', '[]', r.diff or '')
        d = re.sub(r"'[^']*'", "'…'", d)
        return f'{r.status}|{d[:160]}'
    if r.status in ('reparse-fail', 'print-crash'):
        e = re.sub(r"'[^']*'", "'…'", r.err or '')
        return f'{r.status}|{e[:100]}'
    return r.status


def report_failures(ctx, col, max_per_sig, do_shrink=True):
    """shrink representatives of every failure group, classify into families, ctx.fail"""
    from . import c01_shrink as sh, c01_rt as rt
    from edb.edgeql import ast as qlast
    groups = collections.defaultdict(list)
    for fu in col.fail_units:
        origin, entry, u, m, r, text = fu
        groups[presig(entry, r, u)].append(fu)
    fam_hist = collections.Counter()
    t0 = time.time()
    for sig, fus in sorted(groups.items()):
        fus.sort(key=lambda fu: len(fu[4].p1 or '') or 10 ** 6)
        # spread representatives over origins
        reps, seen_o = [], set()
        for fu in fus:
            k = fu[0].split(':')[0]
            if (k not in seen_o and len(reps) < max_per_sig + 1) or len(reps) < max_per_sig:
                reps.append(fu)
                seen_o.add(k)
            if len(reps) >= max_per_sig + 1:
                break
        for origin, entry, u, m, r, text in reps:
            tree = u[0] if entry in ('block', 'migration', 'extension') else u
            status = r.status
            shr = None
            if do_shrink and entry in ('block', 'sdl', 'fragment') and time.time() - t0 < ctx.budget(60, 600):
                try:
                    errsig = ''
                    if status == 'print-crash':
                        errsig = (r.err or '')[:60]
                    shr = sh.shrink(entry, tree, m, status, errsig=errsig, budget=ctx.budget(150, 400))
                except Exception as e:       # shrinker trouble must never hide the failure
                    shr = None
            if shr is not None:
                stree, stext, sr = shr
                stree, stext, sr = shrink_strings(entry, stree, stext, sr, m, status)
            else:
                stree, sr = tree, r
                if not text.startswith('-- statement '):
                    stext = text
                else:
                    try:
                        stext = rt.printer(entry, u, {'sdlmode': True, 'unsorted': True} if entry == 'sdl' else {})
                    except Exception:
                        stext = text[:4000]
            sk = sh.skeleton(stree)
            fam = classify(status, sk, sr, stree, entry)
            if fam is None:
                fam = f'new:{status}:{sk[:200]}'
            fam_hist[fam] += 1
            what = {
                'reparse-fail': 'printed text of an accepted input is rejected by the parser',
                'ast-diff': 'printed text of an accepted input parses to a different AST',
                'text-diff': 'printing the re-parsed AST gives different text (not idempotent)',
                'print-crash': 'printer raises on an AST the parser produced',
            }.get(status, status)
            ctx.fail(fam, what, {
                'entry': entry, 'mode': m, 'text': stext, 'printed': sr.p1, 'printed_again': sr.p2,
                'error': sr.err, 'ast_difference': sr.diff, 'skeleton': sk, 'origin': origin,
                'group': sig, 'group_size': len(fus),
            })
    return fam_hist, {k: len(v) for k, v in groups.items()}


def shrink_strings(entry, tree, text, r, opts, status):
    """greedy character deletion inside string constants while the same failure persists"""
    from . import c01_shrink as sh
    from edb.edgeql import ast as qlast
    budget = 60
    changed = True
    while changed and budget > 0:
        changed = False
        for path, n in list(sh.walk(tree)):
            if isinstance(n, qlast.Constant) and n.kind == qlast.ConstantKind.STRING and len(n.value) > 0:
                for i in range(len(n.value)):
                    if budget <= 0:
                        break
                    budget -= 1
                    cand = copy.deepcopy(tree)
                    cn = sh.get(cand, path)
                    cn.value = n.value[:i] + n.value[i + 1:]
                    r2, t2 = sh.run_case(entry, cand, opts)
                    if r2.status == status:
                        tree, text, r = cand, t2, r2
                        changed = True
                        break
            if changed:
                break
    return tree, text, r


# --------------------------------------------------------------------------------- run
def run(ctx: core.Ctx):
    from bridge import env
    env.setup()
    from . import c01_rt as rt, c01_gen as gen, c01_pop as pop, c01_shrink as sh
    from . import c01_tie as tie
    from edb.edgeql import ast as qlast
    from lib import rustlex

    proved = tie.proof_stage(ctx, PROPS, REQUIRED)
    ctx.log('proof stage:', 'ok' if proved else ctx.proof.get('broken'))

    col = Collector(ctx)
    from . import c01_slots
    col.bank = c01_slots.SlotBank()
    rng = ctx.rng
    t_start = time.time()

    if ctx.replay:
        rp = json.load(open(ctx.replay))
        for f in rp['failures']:
            d = f.get('detail')
            if isinstance(d, dict) and 'text' in d and 'entry' in d:
                m = d.get('mode') or {}
                col.text('replay:' + f['key'], d['entry'], d['text'], modes=[m])
        fam_hist, groups = report_failures(ctx, col, 3)
        tie.run_tie(ctx, replay=True)
        if not proved:
            ctx.proof_broken_verdict()
        ctx.cov.update({'evaluations': col.n_units, 'distinct_nontrivial': len(col.distinct),
                        'rule': 'replay', 'samples': col.samples, 'families': dict(fam_hist)})
        return

    # (0) regression corpus: witnesses of defects that were fixed in /repo (a reappearance is an ordinary
    #     violation) + inputs that used to crash the tokenizer; runs first, all modes
    n_reg = 0
    reg_path = os.path.join(core.VERIF, 'corpus', 'C01', 'regress.jsonl')
    if os.path.exists(reg_path):
        with open(reg_path, encoding='utf-8') as fh:
            for i, line in enumerate(fh):
                if line.strip():
                    d = json.loads(line)
                    n_reg += 1
                    col.text(f'regress:{i}', d['entry'], d['text'],
                             modes=SDL_MODES if d['entry'] == 'sdl' else BLOCK_MODES)
    ctx.log(f'regression corpus: {n_reg} texts, {dict(col.hist)}, tokenizer crashes survived: {len(rt.LEXER_PANICS)}')

    # (0b) minimal witnesses of the defect families that are open on the current tree: run every time so
    #      that the set of reported keys does not depend on what the random populations happen to hit
    wcol = Collector(ctx)
    wit_path = os.path.join(core.VERIF, 'corpus', 'C01', 'open_findings.jsonl')
    n_wit = 0
    if os.path.exists(wit_path):
        with open(wit_path, encoding='utf-8') as fh:
            for i, line in enumerate(fh):
                if line.strip():
                    d = json.loads(line)
                    n_wit += 1
                    wcol.text(f'witness:{d["family"]}', d['entry'], d['text'],
                              modes=SDL_MODES if d['entry'] == 'sdl' else BLOCK_MODES)
    wfam, _wg = report_failures(ctx, wcol, 1000, do_shrink=False)
    ctx.log(f'open-finding witnesses: {n_wit} texts, {dict(wcol.hist)}, families {len(wfam)}')

    # (i) upstream corpora ------------------------------------------------------------
    corp = pop.corpus()
    ok_units = []          # (entry, printed text) of clean units: the base for mutants / grafts
    for origin, entry, text in corp:
        before = len(col.fail_units)
        col.text(origin, entry, text)
    ctx.log(f'corpus: {len(corp)} texts, {col.n_units} unit round trips, {dict(col.hist)}')
    n_corpus_units = col.n_units

    # bases for mutation: re-printed corpus statements that parse
    bases = []
    for origin, entry, text in corp:
        try:
            a1 = rt.parse(entry, text)
        except Exception:
            continue
        if entry == 'block':
            for t in a1:
                bases.append((entry, [t]))
        else:
            for d in a1.declarations:
                bases.append((entry, qlast.Schema(declarations=[d])))
    ctx.log(f'{len(bases)} corpus units as mutation bases')

    g = gen.Gen(rng).prepare()
    C, F = g._ctxs, g._fillers
    cnames, fnames = sorted(C), sorted(F)

    # (ii-a) operator / context pairs x fillers, three depths ---------------------------
    def run_tree(origin, tree, entry='block'):
        try:
            t = gen.safe_text(gen.wrap_stmt(tree, qlast)) + ';'
        except Exception:
            col.rejected['gen-unprintable'] += 1
            return
        col.text(origin, entry, t, modes=[BLOCK_MODES[0]] if ctx.quick() else None)

    pairs = [(a, b) for a in cnames for b in cnames]
    if ctx.quick():
        # a seed-rotating slice of the full pair matrix + every pair whose inner/outer is a
        # prefix / postfix / binary operator at least once with a negative literal
        sl = [p for i, p in enumerate(pairs) if i % 9 == ctx.seed % 9]
        pair_cases = [(a, b, rng.choice(fnames)) for a, b in sl]
        pair_cases += [(a, b, 'negint') for a, b in rng.sample(pairs, 500)]
    else:
        pair_cases = [(a, b, f) for a, b in pairs for f in ('name', 'negint', 'insert', 'partial', 'negfloat', 'str')]
    for a, b, f in pair_cases:
        run_tree(f'pair:{a}/{b}/{f}', C[a](C[b](F[f]())))
    n3 = ctx.budget(700, 40000)
    for i in range(n3):
        a, b, c = rng.choice(cnames), rng.choice(cnames), rng.choice(cnames)
        run_tree(f'triple:{a}/{b}/{c}', C[a](C[b](C[c](F[rng.choice(fnames)]()))))
    ctx.log(f'pairs/triples: {len(pair_cases)}+{n3}; totals {dict(col.hist)}')

    # (ii-b) random expressions with odd identifiers / hostile literals ------------------
    for i in range(ctx.budget(900, 30000)):
        odd = rng.choice([0.0, 0.3, 0.8])
        e = g.expr(rng.randint(1, 4), odd, rng.choice([0.1, 0.6]))
        run_tree(f'expr:{i}', e, entry='block' if rng.random() < 0.8 else 'fragment')
    ctx.log(f'random expressions done; totals {dict(col.hist)}')

    # (ii-c) literal forms, identifiers in every position, statement / DDL / SDL templates --
    for origin, entry, text in pop.fixed_literals():
        col.text(origin, entry, text, modes=[BLOCK_MODES[0]])
    for origin, entry, text in pop.literals(rng, ctx.budget(1200, 60000)):
        col.text(origin, entry, text, modes=[BLOCK_MODES[0]])
    for origin, entry, text in pop.idents(rng, ctx.budget(1800, 60000), g.idents):
        col.text(origin, entry, text, modes=[BLOCK_MODES[0]] if ctx.quick() else None)
    for origin, entry, text in pop.stmts(rng, g, ctx.budget(len(pop.STMT_TEMPLATES) + len(pop.SDL_TEMPLATES) + 150, 8000)):
        col.text(origin, entry, text)
    ctx.log(f'literals / identifiers / templates done; totals {dict(col.hist)}')

    # (ii-c') DDL / SDL matrix derived from the printer's decision points (c01_ddl): the core part always, the
    #         extended part (qualifiers x everything, two-command bodies) sliced by seed in the quick tier
    from . import c01_ddl
    matrix = c01_ddl.build()
    seen_txt = set()
    n_core = n_ext = 0
    ext_i = 0
    for tier, entry, text in matrix:
        if text in seen_txt:
            continue
        seen_txt.add(text)
        if tier == 'ext':
            ext_i += 1
            if ctx.quick() and ext_i % 40 != ctx.seed % 40:
                continue
            n_ext += 1
        else:
            n_core += 1
        col.text(f'ddl:{tier}', entry, text,
                 modes=[SDL_MODES[0]] if entry == 'sdl' else [BLOCK_MODES[0]] if ctx.quick() else None)
    ctx.log(f'DDL/SDL matrix: {n_core} core + {n_ext} extended texts (of {len(seen_txt)}); totals {dict(col.hist)}')

    # (ii-c'') upstream seeds with ONE command block reduced to exactly one / two of its commands (text level)
    seed_texts = [(e, t) for _o, e, t in corp if '{' in t and len(t) < 6000]
    if ctx.quick():
        seed_texts = [st for i, st in enumerate(seed_texts) if i % 3 == ctx.seed % 3]
    n_sub = 0
    for (entry, text), lx in zip(seed_texts, rt.safe_lex_many([t for _e, t in seed_texts])):
        for v in pop.block_subsets(rng, text, lx, max_variants=3, all_single=not ctx.quick()):
            n_sub += 1
            col.text('subset:', entry, v,
                     modes=[SDL_MODES[0]] if entry == 'sdl' else [BLOCK_MODES[0]] if ctx.quick() else None)
    ctx.log(f'command-block subsets of upstream seeds: {n_sub} texts; totals {dict(col.hist)}')

    # (ii-c''') every Expr-capable FIELD of every qlast class (from the field-type introspection) x every statement
    #          kind and prefix form placed directly in it; example trees come from the texts accepted above
    fillers = gen.slot_fillers(qlast, g.q['OUT'])
    fnames_s = sorted(fillers)
    slot_hist = {}
    n_slot = 0
    for sid, entry, tree, path, field, sel in col.bank.slots():
        sk = sid.rstrip('?')
        names = fnames_s
        if ctx.quick():
            stmt = [n for n in fnames_s if n in ('select', 'select-filter', 'with-select', 'insert', 'update', 'delete',
                                                 'for', 'group', 'neg', 'not', 'negconst', 'cast', 'detached', 'call-kw')]
            names = stmt + rng.sample([n for n in fnames_s if n not in stmt], 4)
        for fname in names:
            new = c01_slots.fill(tree, path, field, sel, fillers[fname]())
            if new is None:
                continue
            opts_s = {'sdlmode': True, 'unsorted': True} if entry == 'sdl' else {}
            try:
                t = gen.safe_text(new, wrap_ddl=True, **opts_s) + (';' if entry == 'block' else '')
            except Exception:
                slot_hist.setdefault(sk, [0, 0])[1] += 1
                continue
            n_slot += 1
            ok = col.text(f'slot:{sid}/{fname}', entry, t,
                          modes=[SDL_MODES[0]] if entry == 'sdl' else [BLOCK_MODES[0]])
            h = slot_hist.setdefault(sk, [0, 0])
            h[0 if ok is not None else 1] += 1
    table = col.bank.table
    covered = col.bank.covered()
    slots_no_example = sorted(f'{c}.{f}' for (c, f) in table if (c, f) not in covered)
    slots_all_rejected = sorted(k for k, (a, r) in slot_hist.items() if a == 0)
    ctx.log(f'field slots: {len(table)} Expr-capable (class, field) pairs, {len(covered)} with an accepted example, '
            f'{n_slot} grafts; no example: {len(slots_no_example)}, every graft rejected: {len(slots_all_rejected)}; '
            f'totals {dict(col.hist)}')

    # (ii-d) corpus mutants (tokens) and grafts (expressions) ----------------------------
    n_mut = ctx.budget(900, 30000)
    sample = [rng.choice(bases) for _ in range(n_mut)]
    texts = []
    for entry, u in sample:
        try:
            texts.append(rt.printer(entry, u, {'sdlmode': True, 'unsorted': True} if entry == 'sdl' else {}))
        except Exception:
            texts.append('')
    lexed = rt.safe_lex_many(texts)
    for i, ((entry, u), text, lx) in enumerate(zip(sample, texts, lexed)):
        if not text:
            continue
        mt = pop.mutate_text(rng, text, lx, g.all_odd)
        if mt is not None:
            col.text(f'mutant:{i}', entry, mt, modes=[{'sdlmode': True, 'unsorted': True} if entry == 'sdl' else BLOCK_MODES[0]])
    for i in range(ctx.budget(500, 20000)):
        entry, u = rng.choice(bases)
        try:
            tree = copy.deepcopy(u[0] if entry == 'block' else u)
        except Exception:
            continue       # a few qlast nodes (Rename) are not deep-copyable
        spots = [(p, n) for p, n in sh.walk(tree)
                 if p and isinstance(n, qlast.Expr) and not isinstance(n, qlast.ShapeElement)
                 and not isinstance(sh.get(tree, p[:-1]), (qlast.Path, qlast.ShapeElement, qlast.InsertQuery))]
        if not spots:
            continue
        p, _n = rng.choice(spots)
        try:
            new = sh.put(tree, p, g.expr(rng.randint(1, 3), rng.choice([0.0, 0.3]), 0.3))
            t = gen.safe_text(new, **({'sdlmode': True, 'unsorted': True} if entry == 'sdl' else {}))
        except Exception:
            col.rejected['graft-unprintable'] += 1
            continue
        col.text(f'graft:{i}', entry, t + (';' if entry == 'block' else ''),
                 modes=[{'sdlmode': True, 'unsorted': True} if entry == 'sdl' else BLOCK_MODES[0]])
    ctx.log(f'mutants / grafts done; totals {dict(col.hist)}; {time.time() - t_start:.0f}s')

    # failures -> families -------------------------------------------------------------
    fam_hist, groups = report_failures(ctx, col, ctx.budget(1, 6))
    ctx.log(f'{len(col.fail_units)} failing units in {len(groups)} groups -> families {dict(fam_hist)}')

    # (B) tie ---------------------------------------------------------------------------
    tie_cov = tie.run_tie(ctx)

    if not proved:
        ctx.proof_broken_verdict()

    visit_methods = sorted(n[6:] for n in dir(__import__('edb.edgeql.codegen', fromlist=['x']).EdgeQLSourceGenerator)
                           if n.startswith('visit_') and n[6:] and n[6].isupper())
    printed = sorted(c for c in col.classes if c in visit_methods)
    ctx.cov.update({
        'evaluations': col.n_units,
        'distinct_nontrivial': len(col.distinct),
        'rule': 'one evaluation = one (statement | SDL declaration | fragment, printer mode) round trip through '
                'real parse -> real generate_source -> real parse -> compare canonical AST dumps -> real '
                'generate_source -> compare text; distinct = distinct (entry point, printed text) among the passing '
                'ones; non-trivial = the input was accepted by the real parser (rejected inputs are not counted)',
        'samples': col.samples,
        'outcomes': dict(col.hist),
        'by_origin': dict(col.by_origin),
        'by_mode': dict(col.by_mode),
        'texts_tried': col.n_texts,
        'texts_rejected_by_parser': dict(col.rejected),
        'regression_corpus_texts': n_reg,
        'field_slots': {'expr_capable_class_fields': len(table), 'with_accepted_example': len(covered),
                        'grafts': n_slot, 'no_example': slots_no_example,
                        'every_graft_rejected': slots_all_rejected},
        'ddl_matrix': {'core_texts': n_core, 'extended_texts_run': n_ext, 'matrix_size': len(seen_txt)},
        'open_finding_witness_texts': n_wit,
        'open_finding_witness_outcomes': dict(wcol.hist),
        'open_finding_witness_families': dict(wfam),
        'tokenizer_crashes_survived': list(rt.LEXER_PANICS)[:20],
        'corpus_units': n_corpus_units,
        'visit_methods_total': len(visit_methods),
        'visit_methods_exercised': len(printed),
        'visit_methods_not_exercised': [c for c in visit_methods if c not in col.classes],
        'failure_groups': len(groups),
        'failure_families': dict(fam_hist),
        'tie': tie_cov,
        'exhaustive': False,
    })
    ctx.assumptions += [
        'AST equality is structural equality of qlast trees ignoring `span`, `system_comment`, '
        '`NestedQLBlock.text` (source slice of a migration body; its parsed commands ARE compared) and the '
        'order/duplicates of access-policy / trigger / rewrite kind lists (printed in enum order by design)',
        'in the printer\'s sorted SDL mode command lists are compared as multisets (re-ordering is the documented '
        'behaviour of that mode); the unsorted mode is compared exactly',
        'the parser is the front-end bridge: real tokenizer, LALR(1) tables computed from the real grammar classes '
        'with yacc precedence semantics, real reduce methods; upstream\'s Rust LR driver is not available here',
    ]
    ctx.trusted_base += [
        'harness/bridge (LALR table construction + LR driver) standing in for edb._edgeql_parser; fidelity gate: '
        'upstream syntax corpora',
        'hand-written Lean model EdbVerif/Model/QL.lean (+QLLex) of the expression-core printer and of a '
        'precedence-climbing parser; tied by the token-level differential run',
        'harness/props/c01*.py generators, canonical dump, shrinker and family classification',
    ]
